(* C01 (expression-lowering slice) - the statements `Lower.lower` emits compute what SrcSem prescribes.
   Infrastructure: the scope stack (what a lowering may leave on it), frames (what the emitted statements may write),
   the invariant between the source environment, the scope stack and the HIR environment. *)
From Coq Require Import ZArith NArith List Bool Lia.
Import ListNotations.
From SV Require Import Common.Int32 C01expr.Syntax C01expr.SrcSem C01expr.HirSem C01expr.Lower.
From SV Require C01pat.Proofs.

(* ------------------------------------------------------------------ scope stack *)
Lemma assoc_not_key : forall x (s : list (name * name)), (forall y, ~ In (x, y) s) -> assoc x s = None.
Proof.
  induction s as [|[k v] t IH]; intros H; simpl; auto.
  destruct (N.eqb x k) eqn:E.
  - apply N.eqb_eq in E; subst. exfalso. apply (H v). left; auto.
  - apply IH. intros y Hy. apply (H y). right; auto.
Qed.

Definition keys_of (B : list name) (s : list (name * name)) : Prop := forall x y, In (x, y) s -> In x B.

Lemma keys_in_nil : forall B, keys_in B [].
Proof. intros B s []. Qed.
Lemma keys_in_app : forall B a b, keys_in B a -> keys_in B b -> keys_in B (a ++ b).
Proof. intros B a b Ha Hb s Hs. apply in_app_or in Hs as [H|H]; eauto. Qed.
Lemma keys_in_weaken : forall B B' ex, keys_in B ex -> incl B B' -> keys_in B' ex.
Proof. intros B B' ex H Hi s Hs x y Hxy. apply Hi. eapply H; eauto. Qed.
Lemma keys_in_tl : forall B ex, keys_in B ex -> keys_in B (tl ex).
Proof. intros B [|a t] H; simpl; auto. intros s Hs. apply H. right; auto. Qed.
Lemma keys_in_empty_scope : forall B, keys_in B [[]].
Proof. intros B s [<-|[]] x y []. Qed.
Lemma keys_in_cons : forall B s ex, keys_of B s -> keys_in B ex -> keys_in B (s :: ex).
Proof. intros B s ex Hs He s' [<-|H]; auto. intros x y Hxy. eapply He; eauto. Qed.

Lemma resolve_skip : forall ex cx x, (forall s, In s ex -> forall y, ~ In (x, y) s) -> resolve (ex ++ cx) x = resolve cx x.
Proof.
  induction ex as [|s t IH]; intros cx x H; simpl; auto.
  rewrite assoc_not_key by (apply H; left; auto).
  apply IH. intros s' Hs'. apply H. right; auto.
Qed.


Lemma extE_refl : forall B cx, extE B cx cx.
Proof. intros. exists []. split; auto. apply keys_in_nil. Qed.
Lemma extE_trans : forall B1 B2 B cx cx1 cx2,
  extE B1 cx cx1 -> extE B2 cx1 cx2 -> incl B1 B -> incl B2 B -> extE B cx cx2.
Proof.
  intros B1 B2 B cx cx1 cx2 (e1 & -> & K1) (e2 & -> & K2) I1 I2.
  exists (e2 ++ e1). split. now rewrite app_assoc.
  apply keys_in_app; eapply keys_in_weaken; eauto.
Qed.
Lemma extE_weaken : forall B B' cx cx', extE B cx cx' -> incl B B' -> extE B' cx cx'.
Proof. intros B B' cx cx' (e & -> & K) I. exists e. split; auto. eapply keys_in_weaken; eauto. Qed.

Lemma extE_extB : forall B cx cx', cx <> [] -> extE B cx cx' -> extB B cx cx'.
Proof.
  intros B [|s rest] cx' Hne (e & -> & K); [congruence|].
  exists e, [], s, rest. repeat split; auto. intros x y [].
Qed.
Lemma extB_nonempty : forall B cx cx', extB B cx cx' -> cx' <> [].
Proof. intros B cx cx' (ex & nw & s & rest & -> & -> & _). destruct ex; simpl; congruence. Qed.
Lemma extB_trans : forall B1 B2 B cx cx1 cx2,
  extB B1 cx cx1 -> extB B2 cx1 cx2 -> incl B1 B -> incl B2 B -> extB B cx cx2.
Proof.
  intros B1 B2 B cx cx1 cx2 (e1 & n1 & s & rest & -> & -> & K1 & N1) (e2 & n2 & s' & rest' & E & -> & K2 & N2) I1 I2.
  destruct e1 as [|a e1']; simpl in E.
  - injection E as <- <-. exists e2, (n2 ++ n1), s, rest. repeat split; auto.
    + now rewrite app_assoc.
    + eapply keys_in_weaken; eauto.
    + intros x y H. apply in_app_or in H as [H|H]; [apply I2; eapply N2|apply I1; eapply N1]; eauto.
  - injection E as <- <-. exists (e2 ++ (n2 ++ a) :: e1'), n1, s, rest. repeat split; auto.
    + now rewrite <- app_assoc.
    + apply keys_in_app. eapply keys_in_weaken; eauto.
      apply keys_in_cons.
      * intros x y H. apply in_app_or in H as [H|H]. apply I2; eapply N2; eauto.
        apply I1. eapply K1; [left; reflexivity|eauto].
      * eapply keys_in_weaken; [|exact I1]. intros s0 H0. apply K1. right; auto.
    + intros x y H. apply I1. eapply N1; eauto.
Qed.
Lemma extB_insert : forall B cx x t, cx <> [] -> In x B -> extB B cx (insert cx x t).
Proof.
  intros B [|s rest] x t Hne Hx; [congruence|].
  exists [], [(x, t)], s, rest. repeat split; auto. apply keys_in_nil.
  intros a b [H|[]]. inversion H; subst; auto.
Qed.
Lemma insert_nonempty : forall cx x t, cx <> [] -> insert cx x t <> [].
Proof. intros [|s r] x t H; simpl; congruence. Qed.
Lemma extB_insert_all : forall tmp bs B cx n, cx <> [] -> incl bs B -> extB B cx (insert_all tmp cx bs n).
Proof.
  induction bs as [|x t IH]; intros B cx n Hne Hi; simpl.
  - apply extE_extB; auto. apply extE_refl.
  - eapply extB_trans; [apply extB_insert with (B := B); auto; apply Hi; left; auto| |apply incl_refl|apply incl_refl].
    apply IH. apply insert_nonempty; auto. intros y Hy. apply Hi. right; auto.
Qed.
(* the pop_scope at the end of a block *)
Lemma extB_pop : forall B cx cx1, extB B (push cx) cx1 -> extE B cx (pop cx1).
Proof.
  intros B cx cx1 (ex & nw & s & rest & E & -> & K & N). unfold push in E. inversion E; subst.
  destruct ex as [|a ex']; simpl.
  - apply extE_refl.
  - exists (ex' ++ [nw ++ []]). split. now rewrite <- app_assoc.
    apply keys_in_app. intros s Hs. apply K. right; auto.
    apply keys_in_cons; [|apply keys_in_nil]. intros x y H. rewrite app_nil_r in H. eauto.
Qed.
(* a block-style extension seen from below the pushed scope, when that scope is never popped *)
Lemma extB_push_stay : forall B cx cx1, extB B (push cx) cx1 -> extE B cx cx1.
Proof.
  intros B cx cx1 (ex & nw & s & rest & E & -> & K & N). unfold push in E. injection E as <- <-.
  exists (ex ++ [nw ++ []]). split. now rewrite <- app_assoc.
  apply keys_in_app; auto. apply keys_in_cons; [|apply keys_in_nil]. intros x y H. rewrite app_nil_r in H. eauto.
Qed.
Lemma extB_weaken : forall B B' cx cx', extB B cx cx' -> incl B B' -> extB B' cx cx'.
Proof.
  intros B B' cx cx' (ex & nw & s & rest & -> & -> & K & N) I. exists ex, nw, s, rest. repeat split; auto.
  eapply keys_in_weaken; eauto. intros x y H. apply I. eapply N; eauto.
Qed.
(* the pop_scope of lower_if_else, and the early returns that skip it *)
Lemma extE_push_stay : forall B cx cx1, extE B (push cx) cx1 -> extE B cx cx1.
Proof.
  intros B cx cx1 (e & -> & K). exists (e ++ [[]]). split. unfold push. now rewrite <- app_assoc.
  apply keys_in_app; auto. apply keys_in_empty_scope.
Qed.
Lemma extE_push_pop : forall B cx cx1, extE B (push cx) cx1 -> extE B cx (pop cx1).
Proof.
  intros B cx cx1 (e & -> & K). unfold push, pop. destruct e as [|a e']; simpl.
  - apply extE_refl.
  - exists (e' ++ [[]]). split. now rewrite <- app_assoc.
    apply keys_in_app. intros s Hs. apply K. right; auto. apply keys_in_empty_scope.
Qed.

Lemma resolve_extE : forall B cx cx' x, extE B cx cx' -> ~ In x B -> resolve cx' x = resolve cx x.
Proof.
  intros B cx cx' x (e & -> & K) Hx. apply resolve_skip. intros s Hs y Hy. apply Hx. eapply K; eauto.
Qed.
Lemma assoc_app_skip : forall x (a b : list (name * name)), (forall y, ~ In (x, y) a) -> assoc x (a ++ b) = assoc x b.
Proof.
  induction a as [|[k v] t IH]; intros b H; simpl; auto.
  destruct (N.eqb x k) eqn:E.
  - apply N.eqb_eq in E; subst. exfalso. apply (H v). left; auto.
  - apply IH. intros y Hy. apply (H y). right; auto.
Qed.
Lemma resolve_extB : forall B cx cx' x, extB B cx cx' -> ~ In x B -> resolve cx' x = resolve cx x.
Proof.
  intros B cx cx' x (ex & nw & s & rest & -> & -> & K & N) Hx.
  rewrite resolve_skip by (intros s0 Hs y Hy; apply Hx; eapply K; eauto).
  simpl. rewrite assoc_app_skip; auto. intros y Hy. apply Hx. eapply N; eauto.
Qed.
Lemma resolve_insert_same : forall cx x t, cx <> [] -> resolve (insert cx x t) x = Some t.
Proof. intros [|s r] x t H; [congruence|]. simpl. now rewrite N.eqb_refl. Qed.
Lemma resolve_insert_other : forall cx x t y, y <> x -> resolve (insert cx x t) y = resolve cx y.
Proof.
  intros [|s r] x t y H; auto. simpl. destruct (N.eqb y x) eqn:E; auto. apply N.eqb_eq in E. congruence.
Qed.

(* ------------------------------------------------------------------ no rebinding: names in scope are not bound inside *)
Lemma ns_bv_all :
  (forall e D, ns D e -> forall x, In x D -> ~ In x (bv e)) /\
  (forall es D, nss D es -> forall x, In x D -> ~ In x (bvs es)) /\
  (forall cs D, nsa D cs -> forall x, In x D -> ~ In x (bva cs)) /\
  (forall b D, nsb D b -> forall x, In x D -> ~ In x (bvb b)).
Proof.
  apply syntax_mind; simpl; intros; auto;
    try (intros Hin; repeat (apply in_app_or in Hin as [Hin|Hin]);
         repeat match goal with H : _ /\ _ |- _ => destruct H end;
         match goal with IH : forall D, _ -> forall x, In x D -> ~ In x ?l, Hi : In _ ?l |- _ => eapply IH; eauto end; fail).
  - (* EIfLet *)
    destruct H2 as (He & (_ & _ & _ & Hbs & _) & H1' & H2'). intros Hin.
    apply in_app_or in Hin as [Hin|Hin]. eapply H; eauto.
    apply in_app_or in Hin as [Hin|Hin]. eapply Hbs; eauto.
    apply in_app_or in Hin as [Hin|Hin]; [eapply H0|eapply H1]; eauto; apply in_or_app; auto.
  - (* ACons *)
    destruct H1 as ((_ & _ & _ & Hbs & _) & Hb & Ht). intros Hin.
    apply in_app_or in Hin as [Hin|Hin]. eapply H0; eauto.
    apply in_app_or in Hin as [Hin|Hin]. eapply Hbs; eauto.
    eapply H; eauto. apply in_or_app; auto.
  - (* BLet *)
    destruct x as [x|]; simpl in *.
    + destruct H1 as (He & Hx & Hb). intros Hin.
      apply in_app_or in Hin as [Hin|Hin]. eapply H; eauto.
      destruct Hin as [<-|Hin]. auto.
      eapply H0; eauto. right; auto.
    + destruct H1 as (He & Hb). intros Hin. apply in_app_or in Hin as [Hin|Hin]; [eapply H|eapply H0]; eauto.
  - (* BLetT *)
    destruct H1 as (He & Hnd & Hels & Hbs & Hb). intros Hin.
    apply in_app_or in Hin as [Hin|Hin]. eapply H; eauto.
    apply in_app_or in Hin as [Hin|Hin]. eapply Hbs; eauto.
    eapply H0; eauto. apply in_or_app; auto.
  - (* BLetP *)
    destruct H1 as (He & (_ & _ & _ & Hbs & _) & Hb). intros Hin.
    apply in_app_or in Hin as [Hin|Hin]. eapply H; eauto.
    apply in_app_or in Hin as [Hin|Hin]. eapply Hbs; eauto.
    eapply H0; eauto. apply in_or_app; auto.
Qed.
Definition ns_bv := proj1 ns_bv_all.
Definition nss_bvs := proj1 (proj2 ns_bv_all).
Definition nsa_bva := proj1 (proj2 (proj2 ns_bv_all)).
Definition nsb_bvb := proj2 (proj2 (proj2 ns_bv_all)).

Lemma memb_In : forall x l, memb x l = true <-> In x l.
Proof.
  intros x l. unfold memb. rewrite existsb_exists. split.
  - intros (y & Hy & E). apply N.eqb_eq in E. subst; auto.
  - intros H. exists x. split; auto. apply N.eqb_refl.
Qed.
Lemma nodupb_NoDup : forall l, nodupb l = true -> NoDup l.
Proof.
  induction l as [|x t IH]; simpl; intros H. constructor.
  apply andb_true_iff in H as (H1 & H2). constructor; auto.
  intros Hin. apply memb_In in Hin. rewrite Hin in H1. discriminate.
Qed.
Lemma el_names_In : forall x els, In x (el_names els) <-> In (Some x) els.
Proof.
  intros x els. unfold el_names. rewrite in_flat_map. split.
  - intros (el & Hel & Hx). destruct el as [y|]; simpl in Hx; [|tauto]. destruct Hx as [<-|[]]. auto.
  - intros H. exists (Some x). split; auto. left; auto.
Qed.

Lemma negb_memb_notin : forall x D, negb (memb x D) = true -> ~ In x D.
Proof. intros x D H Hin. apply memb_In in Hin. rewrite Hin in H. discriminate. Qed.
Lemma forallb_notin : forall bs D, forallb (fun x => negb (memb x D)) bs = true -> forall x, In x bs -> ~ In x D.
Proof. intros bs D H x Hx. rewrite forallb_forall in H. apply negb_memb_notin. auto. Qed.
Lemma els_keys_iff : forall els bs,
  forallb (fun x => memb x bs) (el_names els) = true -> forallb (fun x => memb x (el_names els)) bs = true ->
  forall x, In (Some x) els <-> In x bs.
Proof.
  intros els bs H1 H2 x. rewrite forallb_forall in H1, H2. split; intros Hx.
  - apply memb_In. apply H1. apply el_names_In. auto.
  - apply el_names_In. apply memb_In. auto.
Qed.
Lemma inclb_incl : forall a b, Syntax.inclb a b = true -> incl a b.
Proof. intros a b H x Hx. unfold Syntax.inclb in H. rewrite forallb_forall in H. apply memb_In. auto. Qed.
Lemma site_okB_sound : forall D p bs, site_okB D p bs = true -> site_ok D p bs.
Proof.
  intros D p bs H. unfold site_okB in H.
  repeat match goal with H : _ && _ = true |- _ => apply andb_true_iff in H; destruct H end.
  repeat split; auto using C01pat.Proofs.wfb_sound, nodupb_NoDup, inclb_incl. eapply forallb_notin; eauto.
Qed.

Lemma nsB_all :
  (forall e D, nsB D e = true -> ns D e) /\
  (forall es D, nssB D es = true -> nss D es) /\
  (forall cs D, nsaB D cs = true -> nsa D cs) /\
  (forall b D, nsbB D b = true -> nsb D b).
Proof.
  apply syntax_mind; simpl; intros; auto;
    try (destruct x as [x|]; simpl in * );
    repeat match goal with H : _ && _ = true |- _ => apply andb_true_iff in H; destruct H end;
    repeat split; auto using site_okB_sound, negb_memb_notin, nodupb_NoDup;
    try (eapply forallb_notin; eauto; fail);
    try (eapply els_keys_iff; eauto; fail);
    try (match goal with H : site_okB _ _ _ = true |- _ => apply site_okB_sound in H; destruct H as (?&?&?&?&?); assumption end).
Qed.

(* ------------------------------------------------------------------ environments, frames *)
Lemma upd_same : forall r x v, upd r x v x = v.
Proof. intros. unfold upd. now rewrite N.eqb_refl. Qed.
Lemma upd_other : forall r x v y, y <> x -> upd r x v y = r y.
Proof. intros. unfold upd. destruct (N.eqb y x) eqn:E; auto. apply N.eqb_eq in E; congruence. Qed.

Lemma exec_list_app : forall ex a b s tr,
  exec_list ex (a ++ b) s tr = match exec_list ex a s tr with HNext s' tr' => exec_list ex b s' tr' | o => o end.
Proof.
  induction a as [|st t IH]; intros b s tr; simpl; auto.
  destruct (ex st s tr); auto.
Qed.

Section Frames.
  Variable tmp : nat -> name.
  Notation low := (Lower.low tmp).
  Notation frame := (Lower.frame tmp).
  Notation stable := (Lower.stable tmp).
  Notation inv := (Lower.inv tmp).
  Hypothesis tmp_inj : forall i j, tmp i = tmp j -> i = j.


  Lemma low_mono : forall n n' y, low n y -> (n <= n')%nat -> low n' y.
  Proof. intros n n' y H Hle i Hi. apply H. lia. Qed.
  Lemma low_tmp : forall k n, (k < n)%nat -> low n (tmp k).
  Proof. intros k n H i Hi E. apply tmp_inj in E. lia. Qed.
  Lemma stable_mono : forall n n' r, stable n r -> (n <= n')%nat -> stable n' r.
  Proof. intros n n' [] H Hle; simpl in *; auto. eapply low_mono; eauto. Qed.

  Lemma frame_refl : forall n n' s, frame n n' s s.
  Proof. intros n n' s y _. reflexivity. Qed.
  Lemma frame_trans : forall n n1 n2 s s1 s2,
    frame n n1 s s1 -> frame n1 n2 s1 s2 -> (n <= n1)%nat -> (n1 <= n2)%nat -> frame n n2 s s2.
  Proof.
    intros n n1 n2 s s1 s2 F1 F2 L1 L2 y Hy.
    rewrite F2, F1; auto. eapply low_mono; eauto.
  Qed.
  Lemma frame_widen : forall n n1 m m1 s s1, frame n n1 s s1 -> (m <= n)%nat -> (n1 <= m1)%nat -> frame m m1 s s1.
  Proof. intros n n1 m m1 s s1 F L1 L2 y Hy. apply F. eapply low_mono; eauto. Qed.
  Lemma frame_upd : forall n n' s k v, (n <= k)%nat -> (k < n')%nat -> frame n n' s (upd s (tmp k) v).
  Proof. intros n n' s k v L1 L2 y Hy. apply upd_other. intros ->. eapply Hy; eauto. Qed.
  Lemma frame_upd_r : forall n n' s s' k v,
    frame n n' s s' -> (n <= k)%nat -> (k < n')%nat -> frame n n' s (upd s' (tmp k) v).
  Proof. intros n n' s s' k v F L1 L2 y Hy. rewrite upd_other. apply F; auto. intros ->. eapply Hy; eauto. Qed.

  Lemma heval_stable : forall n n' s s' r, stable n r -> frame n n' s s' -> heval s' r = heval s r.
  Proof. intros n n' s s' [] H F; simpl in *; auto. Qed.

  (* ------------------------------------------------------------------ the invariant *)

  Lemma inv_step : forall r cx s n cx' s' n' B D,
    inv r cx s n -> dom_in r D -> (forall x, In x D -> ~ In x B) ->
    (forall x, ~ In x B -> resolve cx' x = resolve cx x) ->
    frame n n' s s' -> (n <= n')%nat -> inv r cx' s' n'.
  Proof.
    intros r cx s n cx' s' n' B D HI HD HB HR HF HL x v Hx.
    destruct (HI x v Hx) as (y & Hr & Hs & Hl).
    exists y. repeat split.
    - rewrite HR; auto. apply HB. apply HD. congruence.
    - rewrite HF; auto.
    - eapply low_mono; eauto.
  Qed.

  Lemma inv_resolve : forall r cx s n x v,
    inv r cx s n -> r x = Some v -> exists y, resolve_variable cx x = HVar y /\ s y = Some v /\ low n y.
  Proof.
    intros r cx s n x v HI Hx. destruct (HI x v Hx) as (y & Hr & Hs & Hl).
    exists y. unfold resolve_variable. rewrite Hr. auto.
  Qed.
End Frames.

(* ------------------------------------------------------------------ counter and stack: what every lowering does to them *)
Section Shape.
  Variable ver : version.
  Variable tmp : nat -> name.

  Lemma incl_appl : forall (a b : list name), incl a (a ++ b).
  Proof. intros a b x H. apply in_or_app; auto. Qed.
  Lemma incl_appr : forall (a b : list name), incl b (a ++ b).
  Proof. intros a b x H. apply in_or_app; auto. Qed.
  Lemma incl_app3 : forall (a b c : list name), incl b (a ++ b ++ c).
  Proof. intros a b c x H. apply in_or_app; right. apply in_or_app; auto. Qed.
  Lemma incl_app3r : forall (a b c : list name), incl c (a ++ b ++ c).
  Proof. intros a b c x H. apply in_or_app; right. apply in_or_app; auto. Qed.

  Lemma incl_app12 : forall (a b c : list name), incl (a ++ b) (a ++ b ++ c).
  Proof. intros a b c x H. rewrite app_assoc. apply in_or_app; auto. Qed.

  Definition Sh_expr (e : expr) : Prop :=
    forall cx n ss re n' cx', lower ver tmp e cx n = (ss, re, n', cx') -> (n <= n')%nat /\ extE (bv e) cx cx'.
  Definition Sh_args (es : exprs) : Prop :=
    forall cx n ss rs n' cx', lower_args ver tmp es cx n = (ss, rs, n', cx') -> (n <= n')%nat /\ extE (bvs es) cx cx'.
  Definition Sh_arms (cs : arms) : Prop :=
    forall re coll cx n ss rr n' cx', lower_arms ver tmp cs re coll cx n = (ss, rr, n', cx') -> (n <= n')%nat /\ extE (bva cs) cx cx'.
  Definition Sh_blk (b : blk) : Prop :=
    forall cx n ss re n' cx', lower_blk ver tmp b cx n = (ss, re, n', cx') -> cx <> [] -> (n <= n')%nat /\ extB (bvb b) cx cx'.

  Ltac two IH1 IH2 E1 E2 :=
    destruct (IH1 _ _ _ _ _ _ E1) as (?L & ?X); destruct (IH2 _ _ _ _ _ _ E2) as (?L & ?X);
    split; [lia|eapply extE_trans; eauto using incl_appl, incl_appr].

  Lemma guard_cnt : forall p bs r n gs gc n1, guard tmp p bs r n = (gs, gc, n1) -> (n + length bs <= n1)%nat.
  Proof.
    intros p bs r n gs gc n1 H. unfold guard, C01pat.Lower.lower_guard in H.
    pose proof (C01pat.Proofs.lower_pattern_mono tmp (C01pat.Lower.bn_of tmp bs n) p (pe r) (n + length bs)) as M.
    destruct (C01pat.Lower.lower_pattern tmp (C01pat.Lower.bn_of tmp bs n) p (pe r) (n + length bs)) as [[ps c] k].
    inversion H; subst. exact M.
  Qed.

  Lemma shape_all : (forall e, Sh_expr e) /\ (forall es, Sh_args es) /\ (forall cs, Sh_arms cs) /\ (forall b, Sh_blk b).
  Proof.
    apply syntax_mind; unfold Sh_expr, Sh_args, Sh_arms, Sh_blk; intros; simpl in *.
    - inversion H; subst. split; [lia|apply extE_refl].
    - inversion H; subst. split; [lia|apply extE_refl].
    - inversion H; subst. split; [lia|apply extE_refl].
    - inversion H; subst. split; [lia|apply extE_refl].
    - inversion H; subst. split; [lia|apply extE_refl].
    - (* EUn *)
      destruct (lower ver tmp e cx n) as [[[s1 r1] n1] cx1] eqn:E1. inversion H0; subst.
      destruct (H _ _ _ _ _ _ E1) as (L & X). split; [lia|auto].
    - (* EBin *)
      destruct (lower ver tmp e1 cx n) as [[[s1 r1] n1] cx1] eqn:E1.
      destruct (lower ver tmp e2 cx1 n1) as [[[s2 r2] n2] cx2] eqn:E2. inversion H1; subst.
      two H H0 E1 E2.
    - (* EAnd *)
      destruct (lower ver tmp e1 cx (S n)) as [[[s1 r1] n1] cx1] eqn:E1.
      destruct (lower ver tmp e2 cx1 n1) as [[[s2 r2] n2] cx2] eqn:E2.
      destruct (and_result ver (tmp n) s1 r1 s2 r2). inversion H1; subst.
      two H H0 E1 E2.
    - (* EOr *)
      destruct (lower ver tmp e1 cx (S n)) as [[[s1 r1] n1] cx1] eqn:E1.
      destruct (lower ver tmp e2 cx1 n1) as [[[s2 r2] n2] cx2] eqn:E2.
      destruct (or_result ver (tmp n) s1 r1 s2 r2). inversion H1; subst.
      two H H0 E1 E2.
    - (* EConcat *)
      destruct (str_lits e1 e2) as [[x y]|] eqn:SL.
      + inversion H1; subst. split; [lia|apply extE_refl].
      + destruct (lower ver tmp e1 cx n) as [[[s1 r1] n1] cx1] eqn:E1.
        destruct (lower ver tmp e2 cx1 n1) as [[[s2 r2] n2] cx2] eqn:E2. inversion H1; subst.
        two H H0 E1 E2.
    - (* ECallM *)
      destruct (lower ver tmp obj cx (S n)) as [[[s1 r1] n1] cx1] eqn:E1.
      destruct (lower_args ver tmp args cx1 n1) as [[[s2 r2] n2] cx2] eqn:E2. inversion H1; subst.
      two H H0 E1 E2.
    - (* ECallC *)
      destruct (lower ver tmp callee cx (S n)) as [[[s1 r1] n1] cx1] eqn:E1.
      destruct (lower_args ver tmp args cx1 n1) as [[[s2 r2] n2] cx2] eqn:E2. inversion H1; subst.
      two H H0 E1 E2.
    - (* EMethod *)
      destruct (lower ver tmp obj cx n) as [[[s1 r1] n1] cx1] eqn:E1. inversion H0; subst.
      destruct (H _ _ _ _ _ _ E1) as (L & X). split; [lia|auto].
    - (* EField *)
      destruct (lower ver tmp obj cx n) as [[[s1 r1] n1] cx1] eqn:E1. inversion H0; subst.
      destruct (H _ _ _ _ _ _ E1) as (L & X). split; [lia|auto].
    - (* ETuple *)
      destruct (lower_args ver tmp es cx (S n)) as [[[s1 r1] n1] cx1] eqn:E1. inversion H0; subst.
      destruct (H _ _ _ _ _ _ E1) as (L & X). split; [lia|auto].
    - (* EIf *)
      destruct (lower ver tmp c (push cx) n) as [[[sc rc] n1] cx1] eqn:E1.
      destruct (H _ _ _ _ _ _ E1) as (L1 & X1).
      destruct (is_lit rc 1).
      { destruct (lower ver tmp e1 cx1 n1) as [[[s1 r1] n2] cx2] eqn:E2. inversion H2; subst.
        destruct (H0 _ _ _ _ _ _ E2) as (L2 & X2). split; [lia|].
        apply extE_push_stay. eapply extE_trans; eauto using incl_appl, incl_app3. }
      destruct (is_lit rc 0).
      { destruct (lower ver tmp e2 cx1 n1) as [[[s1 r1] n2] cx2] eqn:E2. inversion H2; subst.
        destruct (H1 _ _ _ _ _ _ E2) as (L2 & X2). split; [lia|].
        apply extE_push_stay. eapply extE_trans; eauto using incl_appl, incl_app3r. }
      destruct (lower ver tmp e1 cx1 (S n1)) as [[[s1 r1] n2] cx2] eqn:E2.
      destruct (lower ver tmp e2 cx2 n2) as [[[s2 r2] n3] cx3] eqn:E3. inversion H2; subst.
      destruct (H0 _ _ _ _ _ _ E2) as (L2 & X2). destruct (H1 _ _ _ _ _ _ E3) as (L3 & X3).
      split; [lia|]. apply extE_push_pop.
      assert (X12 : extE (bv c ++ bv e1) (push cx) cx2) by (eapply extE_trans; eauto using incl_appl, incl_appr).
      eapply extE_trans; [exact X12|exact X3|apply incl_app12|apply incl_app3r].
    - (* EBlock *)
      destruct (lower_blk ver tmp b (push cx) n) as [[[s1 r1] n1] cx1] eqn:E1. inversion H0; subst.
      destruct (H _ _ _ _ _ _ E1) as (L & X). unfold push; congruence.
      split; [lia|]. apply extB_pop; auto.
    - (* EMatch *)
      destruct (lower ver tmp e cx n) as [[[s1 r1] n1] cx1] eqn:E1.
      destruct (lower_arms ver tmp cases r1 (tmp n1) cx1 (S n1)) as [[[s2 r2] n2] cx2] eqn:E2. inversion H1; subst.
      destruct (H _ _ _ _ _ _ E1) as (L1 & X1). destruct (H0 _ _ _ _ _ _ _ _ E2) as (L2 & X2).
      split; [lia|eapply extE_trans; eauto using incl_appl, incl_appr].
    - (* EIfLet *)
      destruct (lower ver tmp e (push cx) n) as [[[se rs] n1] cx1] eqn:E1.
      destruct (guard tmp p bs rs n1) as [[gs gc] n2] eqn:G.
      pose proof (guard_cnt _ _ _ _ _ _ _ G) as LG.
      destruct (H _ _ _ _ _ _ E1) as (L1 & X1).
      assert (Hne1 : cx1 <> []).
      { destruct X1 as (ex & -> & _). destruct ex; simpl; unfold push; congruence. }
      assert (XI : extB (bv e ++ bs) (push cx) (insert_all tmp cx1 bs n1)).
      { eapply extB_trans; [apply extE_extB; [unfold push; congruence|exact X1]|apply extB_insert_all; [exact Hne1|apply incl_refl]
                           |apply incl_appl|apply incl_appr]. }
      assert (Hne2 : insert_all tmp cx1 bs n1 <> []) by (eapply extB_nonempty; eauto).
      destruct (is_lit gc 1).
      { destruct (lower ver tmp e1 (insert_all tmp cx1 bs n1) n2) as [[[s1 r1] n3] cx3] eqn:E2. inversion H2; subst.
        destruct (H0 _ _ _ _ _ _ E2) as (L2 & X2). split; [lia|].
        apply extB_push_stay.
        eapply extB_trans; [exact XI|apply extE_extB; eauto| |].
        - intros x Hx. rewrite !in_app_iff in *. tauto.
        - intros x Hx. rewrite !in_app_iff in *. tauto. }
      destruct (is_lit gc 0).
      { destruct (lower ver tmp e2 (insert_all tmp cx1 bs n1) n2) as [[[s1 r1] n3] cx3] eqn:E2. inversion H2; subst.
        destruct (H1 _ _ _ _ _ _ E2) as (L2 & X2). split; [lia|].
        apply extB_push_stay.
        eapply extB_trans; [exact XI|apply extE_extB; eauto| |].
        - intros x Hx. rewrite !in_app_iff in *. tauto.
        - intros x Hx. rewrite !in_app_iff in *. tauto. }
      destruct (lower ver tmp e1 (insert_all tmp cx1 bs n1) (S n2)) as [[[s1 r1] n3] cx3] eqn:E2.
      destruct (lower ver tmp e2 cx3 n3) as [[[s2 r2] n4] cx4] eqn:E3. inversion H2; subst.
      destruct (H0 _ _ _ _ _ _ E2) as (L2 & X2). destruct (H1 _ _ _ _ _ _ E3) as (L3 & X3).
      split; [lia|]. apply extB_pop.
      assert (X23 : extE (bv e1 ++ bv e2) (insert_all tmp cx1 bs n1) cx4) by (eapply extE_trans; eauto using incl_appl, incl_appr).
      eapply extB_trans; [exact XI|apply extE_extB; eauto| |].
      + intros x Hx. rewrite !in_app_iff in *. tauto.
      + intros x Hx. rewrite !in_app_iff in *. tauto.
    - (* ELambda *)
      destruct caps as [|c0 ct].
      + destruct (lower ver tmp body (lambda_cx tmp [] params (S n)) (if memb this_name [] then S (S n) else S n))
          as [[[s1 r1] n3] cx3] eqn:E1.
        inversion H0; subst. destruct (H _ _ _ _ _ _ E1) as (L & _). simpl in L. split; [lia|apply extE_refl].
      + destruct (lower ver tmp body (lambda_cx tmp (c0 :: ct) params (S (S n))) (if memb this_name (c0 :: ct) then S (S (S n)) else S (S n)))
          as [[[s1 r1] n3] cx3] eqn:E1.
        inversion H0; subst. destruct (H _ _ _ _ _ _ E1) as (L & _).
        split; [destruct (memb this_name (c0 :: ct)); lia|apply extE_refl].
    - (* ENil *) inversion H; subst. split; [lia|apply extE_refl].
    - (* ECons *)
      destruct (lower ver tmp e cx n) as [[[s1 r1] n1] cx1] eqn:E1.
      destruct (lower_args ver tmp es cx1 n1) as [[[s2 r2] n2] cx2] eqn:E2. inversion H1; subst.
      two H H0 E1 E2.
    - (* ANil *) inversion H; subst. split; [lia|apply extE_refl].
    - (* ACons *)
      destruct (lower_arms ver tmp rest re coll cx n) as [[[acc_s acc_e] n1] cx1] eqn:E1.
      destruct (guard tmp p bs re (S n1)) as [[gs gc] n2] eqn:G.
      destruct (lower ver tmp body (insert_all tmp (push cx1) bs (S n1)) n2) as [[[sb rb] n3] cx3] eqn:E2. inversion H1; subst.
      pose proof (guard_cnt _ _ _ _ _ _ _ G) as LG.
      destruct (H0 _ _ _ _ _ _ _ _ E1) as (L1 & X1). destruct (H _ _ _ _ _ _ E2) as (L2 & X2).
      split; [lia|].
      assert (XI : extB bs (push cx1) (insert_all tmp (push cx1) bs (S n1))).
      { apply extB_insert_all; [unfold push; congruence|apply incl_refl]. }
      assert (XP : extE (bs ++ bv body) cx1 (pop cx3)).
      { apply extB_pop. eapply extB_trans; [exact XI|apply extE_extB; [eapply extB_nonempty; eauto|exact X2]|apply incl_appl|apply incl_appr]. }
      eapply extE_trans; [exact X1|exact XP|apply incl_appl|apply incl_appr].
    - (* BEndU *) inversion H; subst. split; [lia|]. apply extE_extB; auto. apply extE_refl.
    - (* BEndE *) destruct (H _ _ _ _ _ _ H0) as (L & X). split; auto. apply extE_extB; auto.
    - (* BLet *)
      destruct x as [x|].
      + destruct (lower ver tmp e cx n) as [[[s1 r1] n1] cx1] eqn:E1.
        destruct (lower_blk ver tmp b (insert cx1 x (tmp n1)) (S n1)) as [[[s2 r2] n2] cx2] eqn:E2. inversion H1; subst.
        destruct (H _ _ _ _ _ _ E1) as (L1 & X1).
        assert (Hne1 : cx1 <> []).
        { destruct X1 as (ex & -> & _). destruct ex; simpl; auto. congruence. }
        assert (XI : extB [x] cx1 (insert cx1 x (tmp n1))) by (apply extB_insert; simpl; auto).
        destruct (H0 _ _ _ _ _ _ E2) as (L2 & X2). eapply extB_nonempty; eauto.
        split; [lia|].
        eapply extB_trans; [apply extE_extB; eauto| |apply incl_appl|apply incl_appr].
        eapply extB_trans; eauto using incl_appl, incl_appr.
      + destruct (lower ver tmp e cx n) as [[[s1 r1] n1] cx1] eqn:E1.
        destruct (lower_blk ver tmp b cx1 n1) as [[[s2 r2] n2] cx2] eqn:E2. inversion H1; subst.
        destruct (H _ _ _ _ _ _ E1) as (L1 & X1).
        assert (Hne1 : cx1 <> []).
        { destruct X1 as (ex & -> & _). destruct ex; simpl; auto. congruence. }
        destruct (H0 _ _ _ _ _ _ E2 Hne1) as (L2 & X2).
        split; [lia|]. simpl.
        eapply extB_trans; [apply extE_extB; eauto|eauto|apply incl_appl|apply incl_appr].
    - (* BLetT *)
      destruct (lower ver tmp e cx n) as [[[s1 r1] n1] cx1] eqn:E1.
      destruct (lower_blk ver tmp b (insert_all tmp cx1 bs n1) (n1 + length bs + length els)) as [[[s2 r2] n2] cx2] eqn:E2.
      inversion H1; subst.
      destruct (H _ _ _ _ _ _ E1) as (L1 & X1).
      assert (Hne1 : cx1 <> []).
      { destruct X1 as (ex & -> & _). destruct ex; simpl; auto. congruence. }
      assert (XI : extB bs cx1 (insert_all tmp cx1 bs n1)) by (apply extB_insert_all; auto; apply incl_refl).
      destruct (H0 _ _ _ _ _ _ E2) as (L2 & X2). eapply extB_nonempty; eauto.
      split; [lia|].
      eapply extB_trans; [apply extE_extB; eauto| |apply incl_appl|apply incl_appr].
      eapply extB_trans; eauto using incl_appl, incl_appr.
    - (* BLetP *)
      destruct (lower ver tmp e cx n) as [[[s1 r1] n1] cx1] eqn:E1.
      destruct (guard tmp p bs r1 n1) as [[gs gc] n2] eqn:G.
      destruct (lower_blk ver tmp b (insert_all tmp cx1 bs n1) n2) as [[[s2 r2] n3] cx2] eqn:E2.
      inversion H1; subst.
      pose proof (guard_cnt _ _ _ _ _ _ _ G) as LG.
      destruct (H _ _ _ _ _ _ E1) as (L1 & X1).
      assert (Hne1 : cx1 <> []).
      { destruct X1 as (ex & -> & _). destruct ex; simpl; auto. congruence. }
      assert (XI : extB bs cx1 (insert_all tmp cx1 bs n1)) by (apply extB_insert_all; auto; apply incl_refl).
      destruct (H0 _ _ _ _ _ _ E2) as (L2 & X2). eapply extB_nonempty; eauto.
      split; [lia|].
      eapply extB_trans; [apply extE_extB; eauto| |apply incl_appl|apply incl_appr].
      eapply extB_trans; eauto using incl_appl, incl_appr.
    - (* BExp *)
      destruct (lower ver tmp e cx n) as [[[s1 r1] n1] cx1] eqn:E1.
      destruct (lower_blk ver tmp b cx1 n1) as [[[s2 r2] n2] cx2] eqn:E2. inversion H1; subst.
      destruct (H _ _ _ _ _ _ E1) as (L1 & X1).
      assert (Hne1 : cx1 <> []).
      { destruct X1 as (ex & -> & _). destruct ex; simpl; auto. congruence. }
      destruct (H0 _ _ _ _ _ _ E2 Hne1) as (L2 & X2).
      split; [lia|].
      eapply extB_trans; [apply extE_extB; eauto|eauto|apply incl_appl|apply incl_appr].
  Qed.
  Definition shape_expr := proj1 shape_all.
  Definition shape_args := proj1 (proj2 shape_all).
  Definition shape_arms := proj1 (proj2 (proj2 shape_all)).
  Definition shape_blk := proj2 (proj2 (proj2 shape_all)).
End Shape.

(* ------------------------------------------------------------------ unfolding equations of SrcSem (the mutual fixpoint does not refold under cbn) *)
Section SevalEq.
  Variable w : world.
  Variable cf : bool.
  Notation seval := (seval w cf).
  Notation seval_args := (seval_args w cf).
  Notation seval_blk := (seval_blk w cf).
  Notation seval_arms := (seval_arms w cf).

  Lemma seval_EVar : forall r x tr, seval r (EVar x) tr = match r x with Some v => SVal v tr | None => SFail FStuck end.
  Proof. reflexivity. Qed.
  Lemma seval_ENot : forall r a tr, seval r (EUn UNot a) tr =
    match seval r a tr with
    | SVal v tr1 => match not_sem v with Some v' => SVal v' tr1 | None => SFail FStuck end
    | o => o
    end.
  Proof. reflexivity. Qed.
  Lemma seval_ENeg : forall r a tr, seval r (EUn UNeg a) tr =
    match seval r a tr with
    | SVal v tr1 => of_cres false (binop_sem MINUS (VInt 0) v tr1)
    | o => o
    end.
  Proof. reflexivity. Qed.
  Lemma seval_EBin : forall r op a b tr, seval r (EBin op a b) tr =
    match seval r a tr with
    | SVal v1 tr1 =>
        match seval r b tr1 with
        | SVal v2 tr2 => of_cres false (binop_sem op v1 v2 tr2)
        | o => o
        end
    | o => o
    end.
  Proof. reflexivity. Qed.
  Lemma seval_EAnd : forall r a b tr, seval r (EAnd a b) tr =
    match seval r a tr with
    | SVal v1 tr1 =>
        match truth v1 with
        | Some false => SVal (VInt 0) tr1
        | Some true => seval r b tr1
        | None => SFail FStuck
        end
    | o => o
    end.
  Proof. reflexivity. Qed.
  Lemma seval_EOr : forall r a b tr, seval r (EOr a b) tr =
    match seval r a tr with
    | SVal v1 tr1 =>
        match truth v1 with
        | Some true => SVal (VInt 1) tr1
        | Some false => seval r b tr1
        | None => SFail FStuck
        end
    | o => o
    end.
  Proof. reflexivity. Qed.
  Lemma seval_EConcat : forall r a b tr, seval r (EConcat a b) tr =
    match seval r a tr with
    | SVal v1 tr1 =>
        match seval r b tr1 with
        | SVal v2 tr2 => of_cres false (call_named w FConcat [v1; v2] tr2)
        | o => o
        end
    | o => o
    end.
  Proof. reflexivity. Qed.
  Lemma seval_ECallM : forall r o f args void tr, seval r (ECallM o f args void) tr =
    with_order cf (seval r o) (seval_args r args) tr (fun c vs tr2 => of_cres void (call_named w f (c :: vs) tr2)).
  Proof. reflexivity. Qed.
  Lemma seval_ECallC : forall r c args void tr, seval r (ECallC c args void) tr =
    with_order cf (seval r c) (seval_args r args) tr (fun fv vs tr2 => of_cres void (apply_value w fv vs tr2)).
  Proof. reflexivity. Qed.
  Lemma seval_EMethod : forall r o f tr, seval r (EMethod o f) tr =
    match seval r o tr with SVal v tr1 => SVal (VClo f v) tr1 | o => o end.
  Proof. reflexivity. Qed.
  Lemma seval_EField : forall r o i tr, seval r (EField o i) tr =
    match seval r o tr with
    | SVal v tr1 => match field_sem v i with Some x => SVal x tr1 | None => SFail FStuck end
    | o => o
    end.
  Proof. reflexivity. Qed.
  Lemma seval_ETuple : forall r c es tr, seval r (ETuple c es) tr =
    match seval_args r es tr with
    | LVal vs tr1 => of_cres false (call_named w (FInit c) (VInt 0 :: vs) tr1)
    | LFail f => SFail f
    end.
  Proof. reflexivity. Qed.
  Lemma seval_EIf : forall r c e1 e2 tr, seval r (EIf c e1 e2) tr =
    match seval r c tr with
    | SVal v tr1 =>
        match truth v with
        | Some true => seval r e1 tr1
        | Some false => seval r e2 tr1
        | None => SFail FStuck
        end
    | o => o
    end.
  Proof. reflexivity. Qed.
  Lemma seval_EBlock : forall r b tr, seval r (EBlock b) tr = seval_blk r b tr.
  Proof. reflexivity. Qed.
  Lemma seval_EMatch : forall r e cs tr, seval r (EMatch e cs) tr =
    match seval r e tr with SVal v tr1 => seval_arms r cs v tr1 | o => o end.
  Proof. reflexivity. Qed.
  Lemma seval_EIfLet : forall r p bs e e1 e2 tr, seval r (EIfLet p bs e e1 e2) tr =
    match seval r e tr with
    | SVal v tr1 =>
        if sshape p v then
          match smatch p v with
          | Some b => seval (bind_all r b) e1 tr1
          | None => seval r e2 tr1
          end
        else SFail FStuck
    | o => o
    end.
  Proof. reflexivity. Qed.
  Lemma seval_arms_ACons : forall r p bs body t v tr, seval_arms r (ACons p bs body t) v tr =
    if sshape p v then
      match smatch p v with
      | Some b => seval (bind_all r b) body tr
      | None => seval_arms r t v tr
      end
    else SFail FStuck.
  Proof. reflexivity. Qed.
  Lemma seval_blk_BLetP : forall r p bs e b tr, seval_blk r (BLetP p bs e b) tr =
    match seval r e tr with
    | SVal v tr1 =>
        if sshape p v then
          match smatch p v with
          | Some bd => seval_blk (bind_all r bd) b tr1
          | None => SFail FStuck
          end
        else SFail FStuck
    | o => o
    end.
  Proof. reflexivity. Qed.
  Lemma seval_ELambda : forall r l caps params body tr, seval r (ELambda l caps params body) tr =
    match lookups r caps with
    | Some vs => SVal (VClo (FLam l) (context_of vs)) tr
    | None => SFail FStuck
    end.
  Proof. reflexivity. Qed.
  Lemma seval_args_ECons : forall r e t tr, seval_args r (ECons e t) tr =
    match seval r e tr with
    | SVal v tr1 => match seval_args r t tr1 with LVal vs tr2 => LVal (v :: vs) tr2 | o => o end
    | SFail f => LFail f
    end.
  Proof. reflexivity. Qed.
  Lemma seval_blk_BEndE : forall r e tr, seval_blk r (BEndE e) tr = seval r e tr.
  Proof. reflexivity. Qed.
  Lemma seval_blk_BLet : forall r x e b tr, seval_blk r (BLet x e b) tr =
    match seval r e tr with
    | SVal v tr1 => seval_blk (match x with Some x => upd r x (Some v) | None => r end) b tr1
    | o => o
    end.
  Proof. reflexivity. Qed.
  Lemma seval_blk_BLetT : forall r bs els e b tr, seval_blk r (BLetT bs els e b) tr =
    match seval r e tr with
    | SVal v tr1 => match bind_tuple r els v with Some r' => seval_blk r' b tr1 | None => SFail FStuck end
    | o => o
    end.
  Proof. reflexivity. Qed.
  Lemma seval_blk_BExp : forall r e b tr, seval_blk r (BExp e b) tr =
    match seval r e tr with SVal _ tr1 => seval_blk r b tr1 | o => o end.
  Proof. reflexivity. Qed.
End SevalEq.
