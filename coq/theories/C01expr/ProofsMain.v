(* C01 (expression-lowering slice) - the main theorem: for every expression of the fragment, the statements
   `Lower.lower` emits, run in HirSem, give the value and the trace SrcSem prescribes (callee-first order), or end the
   same way.  One lemma per constructor, assembled by mutual induction on the syntax. *)
From Coq Require Import ZArith NArith List Bool Lia.
Import ListNotations.
From SV Require Import Common.Int32 C01expr.Syntax C01expr.SrcSem C01expr.HirSem C01expr.Lower C01expr.Proofs C01expr.ProofsPat.

Section Main.
  Variable w : world.
  Variable tmp : nat -> name.
  Hypothesis tmp_inj : forall i j, tmp i = tmp j -> i = j.

  Notation lower := (Lower.lower Pinned tmp).
  Notation lower_args := (Lower.lower_args Pinned tmp).
  Notation lower_blk := (Lower.lower_blk Pinned tmp).
  Notation lower_arms := (Lower.lower_arms Pinned tmp).
  Notation run := (exec_list (exec w)).
  Notation frame := (Lower.frame tmp).
  Notation stable := (Lower.stable tmp).
  Notation inv := (Lower.inv tmp).
  Notation low := (Lower.low tmp).
  Notation sound := (Lower.sound tmp w).
  Notation sound_l := (Lower.sound_l tmp w).


  Definition P_expr (e : expr) : Prop :=
    forall cx n r s tr D ss re n' cx',
      lower e cx n = (ss, re, n', cx') -> inv r cx s n -> dom_in r D -> ns D e ->
      sound s tr n n' ss re (seval w true r e tr).
  Definition P_args (es : exprs) : Prop :=
    forall cx n r s tr D ss rs n' cx',
      lower_args es cx n = (ss, rs, n', cx') -> inv r cx s n -> dom_in r D -> nss D es ->
      sound_l s tr n n' ss rs (seval_args w true r es tr).
  Definition P_arms (cs : arms) : Prop :=
    forall re coll cx n r s tr D v ss rr n' cx',
      lower_arms cs re coll cx n = (ss, rr, n', cx') -> inv r cx s n -> dom_in r D -> nsa D cs ->
      heval s re = Some v -> stable n re ->
      sound s tr n n' ss rr (seval_arms w true r cs v tr).
  Definition P_blk (b : blk) : Prop :=
    forall cx n r s tr D ss re n' cx',
      lower_blk b cx n = (ss, re, n', cx') -> cx <> [] -> inv r cx s n -> dom_in r D -> nsb D b ->
      sound s tr n n' ss re (seval_blk w true r b tr).

  (* ------------------------------------------------------------------ helpers *)
  Lemma inv_after : forall r cx s n cx1 s1 n1 B D,
    inv r cx s n -> dom_in r D -> (forall x, In x D -> ~ In x B) -> extE B cx cx1 ->
    frame n n1 s s1 -> (n <= n1)%nat -> inv r cx1 s1 n1.
  Proof.
    intros. eapply inv_step; eauto. intros x Hx. eapply resolve_extE; eauto.
  Qed.

  Lemma inv_frame : forall r cx s n s1 n1,
    inv r cx s n -> frame n n1 s s1 -> (n <= n1)%nat -> inv r cx s1 n1.
  Proof.
    intros r cx s n s1 n1 HI HF HL x v Hx. destruct (HI x v Hx) as (y & Hr & Hs & Hl).
    exists y. repeat split; auto. rewrite HF; auto. eapply low_mono; eauto.
  Qed.

  Lemma frame_comp : forall n n' a b c d s s1 s2,
    frame a b s s1 -> frame c d s1 s2 -> (n <= a)%nat -> (b <= n')%nat -> (n <= c)%nat -> (d <= n')%nat -> frame n n' s s2.
  Proof.
    intros n n' a b c d s s1 s2 F1 F2 L1 L2 L3 L4 y Hy.
    rewrite F2, F1; auto; eapply (low_mono tmp); eauto.
  Qed.

  Lemma run_app : forall a b s tr,
    run (a ++ b) s tr = match run a s tr with HNext s' tr' => run b s' tr' | o => o end.
  Proof. intros. apply exec_list_app. Qed.

  Lemma run_app_next : forall a b s tr s1 tr1, run a s tr = HNext s1 tr1 -> run (a ++ b) s tr = run b s1 tr1.
  Proof. intros. rewrite run_app, H. reflexivity. Qed.
  Lemma run_app_fail : forall a b s tr f, run a s tr = HFail f -> run (a ++ b) s tr = HFail f.
  Proof. intros. rewrite run_app, H. reflexivity. Qed.

  Lemma incl_app_l : forall (a b : list name), incl a (a ++ b).
  Proof. intros a b x H. apply in_or_app; auto. Qed.
  Lemma incl_app_r : forall (a b : list name), incl b (a ++ b).
  Proof. intros a b x H. apply in_or_app; auto. Qed.

  Lemma stable_tmp : forall k n, (k < n)%nat -> stable n (HVar (tmp k)).
  Proof. intros. simpl. apply low_tmp; auto. Qed.

  Ltac inv_pair H := inversion H; subst; clear H.

  (* ------------------------------------------------------------------ leaves *)
  Ltac stuck := let H := fresh in intros H; exfalso; apply H; reflexivity.

  Ltac leaf s :=
    simpl; exists s; split; [reflexivity|]; split; [auto|]; split; [apply frame_refl|simpl; auto].

  Lemma case_EInt : forall z, P_expr (EInt z).
  Proof. intros z cx n r s tr D ss re n' cx' H HI HD HN. simpl in H. inv_pair H. leaf s. Qed.
  Lemma case_EBool : forall b, P_expr (EBool b).
  Proof.
    intros b cx n r s tr D ss re n' cx' H HI HD HN. simpl in H. inv_pair H. simpl.
    exists s. split; [reflexivity|]. split; [destruct b; reflexivity|]. split; [apply frame_refl|destruct b; simpl; auto].
  Qed.
  Lemma case_EStr : forall t, P_expr (EStr t).
  Proof. intros t cx n r s tr D ss re n' cx' H HI HD HN. simpl in H. inv_pair H. leaf s. Qed.
  Lemma case_EClass : P_expr EClass.
  Proof. intros cx n r s tr D ss re n' cx' H HI HD HN. simpl in H. inv_pair H. leaf s. Qed.
  Lemma case_EVar : forall x, P_expr (EVar x).
  Proof.
    intros x cx n r s tr D ss re n' cx' H HI HD HN. simpl in H. inv_pair H.
    unfold Lower.sound, exec_block; rewrite seval_EVar.
    destruct (r x) as [v|] eqn:Hx; simpl; [|stuck].
    destruct (inv_resolve tmp _ _ _ _ _ _ HI Hx) as (y & Hr & Hs & Hl). rewrite Hr.
    exists s. split; [reflexivity|]. split; [auto|]. split; [apply frame_refl|simpl; auto].
  Qed.

  (* ------------------------------------------------------------------ one operand *)
  Lemma case_EUn : forall op a, P_expr a -> P_expr (EUn op a).
  Proof.
    intros op a IHa cx n r s tr D ss re n' cx' H HI HD HN. simpl in H.
    destruct (lower a cx n) as [[[s1 r1] n1] cx1] eqn:E1. inv_pair H.
    pose proof (IHa _ _ _ s tr _ _ _ _ _ E1 HI HD HN) as So1.
    destruct (shape_expr _ _ _ _ _ _ _ _ _ E1) as (L1 & X1).
    unfold Lower.sound, exec_block in *. destruct op; [rewrite seval_ENot|rewrite seval_ENeg]; destruct (seval w true r a tr) as [v1 tr1|f1].
    - destruct So1 as (s1' & R1 & V1 & F1 & St1).
      destruct (not_sem v1) as [v'|] eqn:Hn; [|stuck].
      exists (upd s1' (tmp n1) (Some v')). split.
      + rewrite (run_app_next _ _ _ _ _ _ R1). simpl. rewrite V1, Hn. reflexivity.
      + split. simpl. apply upd_same. split.
        apply frame_upd_r; try lia. eapply frame_widen; eauto.
        apply stable_tmp. lia.
    - intros Hf. apply run_app_fail. auto.
    - destruct So1 as (s1' & R1 & V1 & F1 & St1).
      unfold binop_sem. destruct v1 as [z| | | | |]; try (simpl; stuck).
      simpl. exists (upd s1' (tmp n1) (Some (VInt (wrap32 (0 - z))))). split.
      + rewrite (run_app_next _ _ _ _ _ _ R1). simpl. rewrite V1. reflexivity.
      + split. simpl. apply upd_same. split.
        apply frame_upd_r; try lia. eapply frame_widen; eauto.
        apply stable_tmp. lia.
    - intros Hf. apply run_app_fail. auto.
  Qed.

  (* ------------------------------------------------------------------ argument lists *)
  Lemma case_ENil : P_args ENil.
  Proof.
    intros cx n r s tr D ss rs n' cx' H HI HD HN. simpl in H. inv_pair H. simpl.
    exists s. split; [reflexivity|]. split; [reflexivity|]. split; [apply frame_refl|constructor].
  Qed.

  Lemma case_ECons : forall e es, P_expr e -> P_args es -> P_args (ECons e es).
  Proof.
    intros e es IHe IHes cx n r s tr D ss rs n' cx' H HI HD HN. simpl in H.
    destruct (lower e cx n) as [[[s1 r1] n1] cx1] eqn:E1.
    destruct (lower_args es cx1 n1) as [[[s2 r2] n2] cx2] eqn:E2. inv_pair H.
    simpl in HN. destruct HN as (HNe & HNes).
    pose proof (IHe _ _ _ s tr _ _ _ _ _ E1 HI HD HNe) as So1.
    destruct (shape_expr _ _ _ _ _ _ _ _ _ E1) as (L1 & X1).
    destruct (shape_args _ _ _ _ _ _ _ _ _ E2) as (L2 & X2).
    unfold Lower.sound, Lower.sound_l, exec_block in *. rewrite seval_args_ECons.
    destruct (seval w true r e tr) as [v1 tr1|f1].
    - destruct So1 as (s1' & R1 & V1 & F1 & St1).
      assert (HI1 : inv r cx1 s1' n1).
      { eapply inv_after; eauto. intros x Hx. eapply ns_bv; eauto. }
      pose proof (IHes _ _ _ s1' tr1 _ _ _ _ _ E2 HI1 HD HNes) as So2. unfold Lower.sound_l, exec_block in So2.
      destruct (seval_args w true r es tr1) as [vs tr2|f2].
      + destruct So2 as (s2' & R2 & V2 & F2 & St2).
        exists s2'. split. rewrite (run_app_next _ _ _ _ _ _ R1). exact R2.
        split. simpl. rewrite (heval_stable tmp _ _ _ _ _ St1 F2), V1, V2. reflexivity.
        split. eapply frame_trans; eauto.
        constructor; auto. eapply stable_mono; eauto.
      + intros Hf. rewrite (run_app_next _ _ _ _ _ _ R1). auto.
    - intros Hf. apply run_app_fail. auto.
  Qed.

  (* ------------------------------------------------------------------ two operands, left to right *)
  Lemma two_ops : forall a b, P_expr a -> P_expr b ->
    forall cx n r s tr D s1 r1 n1 cx1 s2 r2 n2 cx2,
      lower a cx n = (s1, r1, n1, cx1) -> lower b cx1 n1 = (s2, r2, n2, cx2) ->
      inv r cx s n -> dom_in r D -> ns D a -> ns D b ->
      match seval w true r a tr with
      | SVal v1 tr1 =>
          match seval w true r b tr1 with
          | SVal v2 tr2 =>
              exists s', run (s1 ++ s2) s tr = HNext s' tr2 /\ heval s' r1 = Some v1 /\ heval s' r2 = Some v2 /\
                         frame n n2 s s' /\ stable n2 r1 /\ stable n2 r2
          | SFail f => f <> FStuck -> forall rest, run (s1 ++ s2 ++ rest) s tr = HFail f
          end
      | SFail f => f <> FStuck -> forall rest, run (s1 ++ rest) s tr = HFail f
      end.
  Proof.
    intros a b IHa IHb cx n r s tr D s1 r1 n1 cx1 s2 r2 n2 cx2 E1 E2 HI HD HNa HNb.
    pose proof (IHa _ _ _ s tr _ _ _ _ _ E1 HI HD HNa) as So1. unfold Lower.sound, exec_block in So1.
    destruct (shape_expr _ _ _ _ _ _ _ _ _ E1) as (L1 & X1).
    destruct (shape_expr _ _ _ _ _ _ _ _ _ E2) as (L2 & X2).
    destruct (seval w true r a tr) as [v1 tr1|f1].
    - destruct So1 as (s1' & R1 & V1 & F1 & St1).
      assert (HI1 : inv r cx1 s1' n1).
      { eapply inv_after; eauto. intros x Hx. eapply ns_bv; eauto. }
      pose proof (IHb _ _ _ s1' tr1 _ _ _ _ _ E2 HI1 HD HNb) as So2. unfold Lower.sound, exec_block in So2.
      destruct (seval w true r b tr1) as [v2 tr2|f2].
      + destruct So2 as (s2' & R2 & V2 & F2 & St2).
        exists s2'. split. rewrite (run_app_next _ _ _ _ _ _ R1). exact R2.
        split. rewrite (heval_stable tmp _ _ _ _ _ St1 F2). exact V1.
        split. exact V2.
        split. eapply frame_trans; eauto.
        split; auto. eapply stable_mono; eauto.
      + intros Hf rest. rewrite (run_app_next _ _ _ _ _ _ R1). apply run_app_fail. auto.
    - intros Hf rest. apply run_app_fail. auto.
  Qed.

  Lemma case_EBin : forall op a b, P_expr a -> P_expr b -> P_expr (EBin op a b).
  Proof.
    intros op a b IHa IHb cx n r s tr D ss re n' cx' H HI HD HN. simpl in H.
    destruct (lower a cx n) as [[[s1 r1] n1] cx1] eqn:E1.
    destruct (lower b cx1 n1) as [[[s2 r2] n2] cx2] eqn:E2. inv_pair H.
    simpl in HN. destruct HN as (HNa & HNb).
    pose proof (two_ops a b IHa IHb _ _ _ s tr _ _ _ _ _ _ _ _ _ E1 E2 HI HD HNa HNb) as T.
    destruct (shape_expr _ _ _ _ _ _ _ _ _ E1) as (L1 & X1).
    destruct (shape_expr _ _ _ _ _ _ _ _ _ E2) as (L2 & X2).
    unfold Lower.sound, exec_block. rewrite seval_EBin.
    destruct (seval w true r a tr) as [v1 tr1|f1]; [|intros Hf; apply T; auto].
    destruct (seval w true r b tr1) as [v2 tr2|f2]; [|intros Hf; apply T; auto].
    destruct T as (s' & R & V1 & V2 & F & St1 & St2).
    rewrite app_assoc.
    destruct (binop_sem op v1 v2 tr2) as [v tr3|f] eqn:B; simpl.
    - exists (upd s' (tmp n2) (Some v)). split.
      + rewrite (run_app_next _ _ _ _ _ _ R). simpl. rewrite V1, V2, B. reflexivity.
      + split. apply upd_same. split.
        apply frame_upd_r; try lia. eapply frame_widen; eauto.
        apply low_tmp; auto.
    - intros Hf. rewrite (run_app_next _ _ _ _ _ _ R). simpl. rewrite V1, V2, B. reflexivity.
  Qed.

  Lemma str_lits_some : forall a b x y, str_lits a b = Some (x, y) -> a = EStr x /\ b = EStr y.
  Proof. intros a b x y H. destruct a; try discriminate. destruct b; try discriminate. inversion H; auto. Qed.

  Lemma case_EConcat : forall a b, P_expr a -> P_expr b -> P_expr (EConcat a b).
  Proof.
    intros a b IHa IHb cx n r s tr D ss re n' cx' H HI HD HN. simpl in H.
    destruct (str_lits a b) as [[x y]|] eqn:SL.
    - apply str_lits_some in SL as (-> & ->). inv_pair H. unfold Lower.sound, exec_block. rewrite seval_EConcat. simpl.
      exists s. split; [reflexivity|]. split; [reflexivity|]. split; [apply frame_refl|exact I].
    - destruct (lower a cx n) as [[[s1 r1] n1] cx1] eqn:E1.
      destruct (lower b cx1 n1) as [[[s2 r2] n2] cx2] eqn:E2. inv_pair H.
      simpl in HN. destruct HN as (HNa & HNb).
      pose proof (two_ops a b IHa IHb _ _ _ s tr _ _ _ _ _ _ _ _ _ E1 E2 HI HD HNa HNb) as T.
      destruct (shape_expr _ _ _ _ _ _ _ _ _ E1) as (L1 & X1).
      destruct (shape_expr _ _ _ _ _ _ _ _ _ E2) as (L2 & X2).
      unfold Lower.sound, exec_block. rewrite seval_EConcat.
      destruct (seval w true r a tr) as [v1 tr1|f1]; [|intros Hf; apply T; auto].
      destruct (seval w true r b tr1) as [v2 tr2|f2]; [|intros Hf; apply T; auto].
      destruct T as (s' & R & V1 & V2 & F & St1 & St2).
      rewrite app_assoc.
      destruct (call_named w FConcat [v1; v2] tr2) as [v tr3|f] eqn:B; simpl.
      + exists (upd s' (tmp n2) (Some v)). split.
        * rewrite (run_app_next _ _ _ _ _ _ R). simpl. rewrite V1, V2. simpl in B. rewrite B. reflexivity.
        * split. apply upd_same. split.
          apply frame_upd_r; try lia. eapply frame_widen; eauto.
          apply low_tmp; auto.
      + intros Hf. rewrite (run_app_next _ _ _ _ _ _ R). simpl. rewrite V1, V2. simpl in B. rewrite B. reflexivity.
  Qed.

  (* ------------------------------------------------------------------ one operand, then one statement *)
  Lemma case_EField : forall a i, P_expr a -> P_expr (EField a i).
  Proof.
    intros a i IHa cx n r s tr D ss re n' cx' H HI HD HN. simpl in H.
    destruct (lower a cx n) as [[[s1 r1] n1] cx1] eqn:E1. inv_pair H.
    pose proof (IHa _ _ _ s tr _ _ _ _ _ E1 HI HD HN) as So1.
    destruct (shape_expr _ _ _ _ _ _ _ _ _ E1) as (L1 & X1).
    unfold Lower.sound, exec_block in *. rewrite seval_EField. destruct (seval w true r a tr) as [v1 tr1|f1].
    - destruct So1 as (s1' & R1 & V1 & F1 & St1).
      destruct (field_sem v1 i) as [v'|] eqn:Hn; [|stuck].
      exists (upd s1' (tmp n1) (Some v')). split.
      + rewrite (run_app_next _ _ _ _ _ _ R1). simpl. rewrite V1, Hn. reflexivity.
      + split. simpl. apply upd_same. split.
        apply frame_upd_r; try lia. eapply frame_widen; eauto.
        apply stable_tmp. lia.
    - intros Hf. apply run_app_fail. auto.
  Qed.

  Lemma case_EMethod : forall a f, P_expr a -> P_expr (EMethod a f).
  Proof.
    intros a f IHa cx n r s tr D ss re n' cx' H HI HD HN. simpl in H.
    destruct (lower a cx n) as [[[s1 r1] n1] cx1] eqn:E1. inv_pair H.
    pose proof (IHa _ _ _ s tr _ _ _ _ _ E1 HI HD HN) as So1.
    destruct (shape_expr _ _ _ _ _ _ _ _ _ E1) as (L1 & X1).
    unfold Lower.sound, exec_block in *. rewrite seval_EMethod. destruct (seval w true r a tr) as [v1 tr1|f1].
    - destruct So1 as (s1' & R1 & V1 & F1 & St1).
      exists (upd s1' (tmp n1) (Some (VClo f v1))). split.
      + rewrite (run_app_next _ _ _ _ _ _ R1). simpl. rewrite V1. reflexivity.
      + split. simpl. apply upd_same. split.
        apply frame_upd_r; try lia. eapply frame_widen; eauto.
        apply stable_tmp. lia.
    - intros Hf. apply run_app_fail. auto.
  Qed.

  (* ------------------------------------------------------------------ && and || *)
  Lemma truth_htruth : forall v b, truth v = Some b -> htruth v = b.
  Proof. intros v b H. destruct v as [z| | | | |]; try discriminate. destruct z as [|p|p]; simpl in *; try discriminate. congruence. destruct p; simpl in *; try discriminate. congruence. Qed.

  Lemma inv_S : forall r cx s n, inv r cx s n -> inv r cx s (S n).
  Proof. intros. eapply inv_frame; eauto. apply frame_refl. Qed.

  Lemma and_nonlit : forall t s1 r1 s2 r2, (forall v, r1 <> HInt v) ->
    and_result Pinned t s1 r1 s2 r2 = (s1 ++ [HIf r1 s2 [] [(t, r2, ZERO)]], HVar t).
  Proof. intros t s1 r1 s2 r2 H. destruct r1; try reflexivity. exfalso. eapply H; eauto. Qed.
  Lemma or_nonlit : forall t s1 r1 s2 r2, (forall v, r1 <> HInt v) ->
    or_result Pinned t s1 r1 s2 r2 = (s1 ++ [HIf r1 [] s2 [(t, ONE, r2)]], HVar t).
  Proof. intros t s1 r1 s2 r2 H. destruct r1; try reflexivity. exfalso. eapply H; eauto. Qed.

  Lemma lit_or_not : forall r1 : hexpr, (exists v, r1 = HInt v) \/ (forall v, r1 <> HInt v).
  Proof. destruct r1; try (right; intros v; discriminate). left; eauto. Qed.

  Lemma case_EAnd : forall a b, P_expr a -> P_expr b -> P_expr (EAnd a b).
  Proof.
    intros a b IHa IHb cx n r s tr D ss re n' cx' H HI HD HN. simpl in H.
    destruct (lower a cx (S n)) as [[[s1 r1] n1] cx1] eqn:E1.
    destruct (lower b cx1 n1) as [[[s2 r2] n2] cx2] eqn:E2.
    destruct (and_result Pinned (tmp n) s1 r1 s2 r2) as [ss0 re0] eqn:AR. inv_pair H.
    simpl in HN. destruct HN as (HNa & HNb).
    pose proof (IHa _ _ _ s tr _ _ _ _ _ E1 (inv_S _ _ _ _ HI) HD HNa) as So1. unfold Lower.sound, exec_block in So1.
    destruct (shape_expr _ _ _ _ _ _ _ _ _ E1) as (L1 & X1).
    destruct (shape_expr _ _ _ _ _ _ _ _ _ E2) as (L2 & X2).
    unfold Lower.sound, exec_block. rewrite seval_EAnd.
    destruct (seval w true r a tr) as [v1 tr1|f1].
    2:{ intros Hf. destruct (lit_or_not r1) as [(v & ->)|NL].
        - simpl in AR. destruct (negb (v =? 0)%Z); inv_pair AR; [apply run_app_fail|]; auto.
        - rewrite and_nonlit in AR by auto. inv_pair AR. apply run_app_fail; auto. }
    destruct So1 as (s1' & R1 & V1 & F1 & St1).
    assert (HI1 : inv r cx1 s1' n1).
    { eapply inv_after; [apply inv_S; exact HI|exact HD| |exact X1|exact F1|exact L1]. intros x Hx. eapply ns_bv; eauto. }
    pose proof (IHb _ _ _ s1' tr1 _ _ _ _ _ E2 HI1 HD HNb) as So2. unfold Lower.sound, exec_block in So2.
    assert (F1' : frame n n' s s1') by (eapply frame_widen; eauto; lia).
    destruct (lit_or_not r1) as [(v & ->)|NL].
    - (* the left operand is a literal: no branch *)
      simpl in V1. inv_pair V1. simpl in AR.
      destruct (v =? 0)%Z eqn:Ez; simpl in AR; inv_pair AR.
      + apply Z.eqb_eq in Ez. subst v. simpl.
        exists s1'. split; [exact R1|]. split; [reflexivity|]. split; [exact F1'|exact I].
      + destruct (truth (VInt v)) as [[|]|] eqn:T; [| |stuck].
        * destruct (seval w true r b tr1) as [v2 tr2|f2].
          -- destruct So2 as (s2' & R2 & V2 & F2 & St2).
             exists s2'. split. rewrite (run_app_next _ _ _ _ _ _ R1). exact R2.
             split; [exact V2|]. split; [|exact St2].
             eapply frame_comp; [exact F1|exact F2|lia|lia|lia|lia].
          -- intros Hf. rewrite (run_app_next _ _ _ _ _ _ R1). auto.
        * exfalso. destruct v; simpl in T; try discriminate. destruct p; discriminate.
    - (* a branch on the left operand; the right one runs inside it *)
      rewrite and_nonlit in AR by auto. inv_pair AR.
      destruct (truth v1) as [[|]|] eqn:T; [| |stuck].
      + destruct (seval w true r b tr1) as [v2 tr2|f2].
        * destruct So2 as (s2' & R2 & V2 & F2 & St2).
          exists (upd s2' (tmp n) (Some v2)). split.
          -- rewrite (run_app_next _ _ _ _ _ _ R1). simpl. rewrite V1, (truth_htruth _ _ T), R2. simpl. rewrite V2. reflexivity.
          -- split. apply upd_same. split; [|apply stable_tmp; lia].
             apply frame_upd_r; try lia.
             eapply frame_comp; [exact F1|exact F2|lia|lia|lia|lia].
        * intros Hf. rewrite (run_app_next _ _ _ _ _ _ R1). simpl. rewrite V1, (truth_htruth _ _ T), (So2 Hf). reflexivity.
      + exists (upd s1' (tmp n) (Some (VInt 0))). split.
        * rewrite (run_app_next _ _ _ _ _ _ R1). simpl. rewrite V1, (truth_htruth _ _ T). reflexivity.
        * split. apply upd_same. split; [|apply stable_tmp; lia].
          apply frame_upd_r; try lia. exact F1'.
  Qed.

  Lemma case_EOr : forall a b, P_expr a -> P_expr b -> P_expr (EOr a b).
  Proof.
    intros a b IHa IHb cx n r s tr D ss re n' cx' H HI HD HN. simpl in H.
    destruct (lower a cx (S n)) as [[[s1 r1] n1] cx1] eqn:E1.
    destruct (lower b cx1 n1) as [[[s2 r2] n2] cx2] eqn:E2.
    destruct (or_result Pinned (tmp n) s1 r1 s2 r2) as [ss0 re0] eqn:AR. inv_pair H.
    simpl in HN. destruct HN as (HNa & HNb).
    pose proof (IHa _ _ _ s tr _ _ _ _ _ E1 (inv_S _ _ _ _ HI) HD HNa) as So1. unfold Lower.sound, exec_block in So1.
    destruct (shape_expr _ _ _ _ _ _ _ _ _ E1) as (L1 & X1).
    destruct (shape_expr _ _ _ _ _ _ _ _ _ E2) as (L2 & X2).
    unfold Lower.sound, exec_block. rewrite seval_EOr.
    destruct (seval w true r a tr) as [v1 tr1|f1].
    2:{ intros Hf. destruct (lit_or_not r1) as [(v & ->)|NL].
        - simpl in AR. destruct (negb (v =? 0)%Z); inv_pair AR; [|apply run_app_fail]; auto.
        - rewrite or_nonlit in AR by auto. inv_pair AR. apply run_app_fail; auto. }
    destruct So1 as (s1' & R1 & V1 & F1 & St1).
    assert (HI1 : inv r cx1 s1' n1).
    { eapply inv_after; [apply inv_S; exact HI|exact HD| |exact X1|exact F1|exact L1]. intros x Hx. eapply ns_bv; eauto. }
    pose proof (IHb _ _ _ s1' tr1 _ _ _ _ _ E2 HI1 HD HNb) as So2. unfold Lower.sound, exec_block in So2.
    assert (F1' : frame n n' s s1') by (eapply frame_widen; eauto; lia).
    destruct (lit_or_not r1) as [(v & ->)|NL].
    - simpl in V1. inv_pair V1. simpl in AR.
      destruct (v =? 0)%Z eqn:Ez; simpl in AR; inv_pair AR.
      + apply Z.eqb_eq in Ez. subst v. simpl.
        destruct (seval w true r b tr1) as [v2 tr2|f2].
        * destruct So2 as (s2' & R2 & V2 & F2 & St2).
          exists s2'. split. rewrite (run_app_next _ _ _ _ _ _ R1). exact R2.
          split; [exact V2|]. split; [|exact St2].
          eapply frame_comp; [exact F1|exact F2|lia|lia|lia|lia].
        * intros Hf. rewrite (run_app_next _ _ _ _ _ _ R1). auto.
      + destruct (truth (VInt v)) as [[|]|] eqn:T; [| |stuck].
        * exists s1'. split; [exact R1|]. split; [reflexivity|]. split; [exact F1'|exact I].
        * exfalso. destruct v; simpl in T; try discriminate. destruct p; discriminate.
    - rewrite or_nonlit in AR by auto. inv_pair AR.
      destruct (truth v1) as [[|]|] eqn:T; [| |stuck].
      + exists (upd s1' (tmp n) (Some (VInt 1))). split.
        * rewrite (run_app_next _ _ _ _ _ _ R1). simpl. rewrite V1, (truth_htruth _ _ T). reflexivity.
        * split. apply upd_same. split; [|apply stable_tmp; lia].
          apply frame_upd_r; try lia. exact F1'.
      + destruct (seval w true r b tr1) as [v2 tr2|f2].
        * destruct So2 as (s2' & R2 & V2 & F2 & St2).
          exists (upd s2' (tmp n) (Some v2)). split.
          -- rewrite (run_app_next _ _ _ _ _ _ R1). simpl. rewrite V1, (truth_htruth _ _ T), R2. simpl. rewrite V2. reflexivity.
          -- split. apply upd_same. split; [|apply stable_tmp; lia].
             apply frame_upd_r; try lia.
             eapply frame_comp; [exact F1|exact F2|lia|lia|lia|lia].
        * intros Hf. rewrite (run_app_next _ _ _ _ _ _ R1). simpl. rewrite V1, (truth_htruth _ _ T), (So2 Hf). reflexivity.
  Qed.

  (* ------------------------------------------------------------------ calls: receiver / callee, then the arguments *)
  Lemma op_args : forall a es, P_expr a -> P_args es ->
    forall cx n r s tr D s1 r1 n1 cx1 s2 rs n2 cx2,
      lower a cx n = (s1, r1, n1, cx1) -> lower_args es cx1 n1 = (s2, rs, n2, cx2) ->
      inv r cx s n -> dom_in r D -> ns D a -> nss D es ->
      match seval w true r a tr with
      | SVal v1 tr1 =>
          match seval_args w true r es tr1 with
          | LVal vs tr2 =>
              exists s', run (s1 ++ s2) s tr = HNext s' tr2 /\ heval s' r1 = Some v1 /\ hevals s' rs = Some vs /\
                         frame n n2 s s' /\ stable n2 r1
          | LFail f => f <> FStuck -> forall rest, run (s1 ++ s2 ++ rest) s tr = HFail f
          end
      | SFail f => f <> FStuck -> forall rest, run (s1 ++ rest) s tr = HFail f
      end.
  Proof.
    intros a es IHa IHes cx n r s tr D s1 r1 n1 cx1 s2 rs n2 cx2 E1 E2 HI HD HNa HNb.
    pose proof (IHa _ _ _ s tr _ _ _ _ _ E1 HI HD HNa) as So1. unfold Lower.sound, exec_block in So1.
    destruct (shape_expr _ _ _ _ _ _ _ _ _ E1) as (L1 & X1).
    destruct (shape_args _ _ _ _ _ _ _ _ _ E2) as (L2 & X2).
    destruct (seval w true r a tr) as [v1 tr1|f1].
    - destruct So1 as (s1' & R1 & V1 & F1 & St1).
      assert (HI1 : inv r cx1 s1' n1).
      { eapply inv_after; eauto. intros x Hx. eapply ns_bv; eauto. }
      pose proof (IHes _ _ _ s1' tr1 _ _ _ _ _ E2 HI1 HD HNb) as So2. unfold Lower.sound_l, exec_block in So2.
      destruct (seval_args w true r es tr1) as [vs tr2|f2].
      + destruct So2 as (s2' & R2 & V2 & F2 & St2).
        exists s2'. split. rewrite (run_app_next _ _ _ _ _ _ R1). exact R2.
        split. rewrite (heval_stable tmp _ _ _ _ _ St1 F2). exact V1.
        split. exact V2.
        split. eapply frame_trans; eauto.
        eapply stable_mono; eauto.
      + intros Hf rest. rewrite (run_app_next _ _ _ _ _ _ R1). apply run_app_fail. auto.
    - intros Hf rest. apply run_app_fail. auto.
  Qed.

  Lemma case_ECallM : forall o f args void, P_expr o -> P_args args -> P_expr (ECallM o f args void).
  Proof.
    intros o f args void IHo IHa cx n r s tr D ss re n' cx' H HI HD HN. simpl in H.
    destruct (lower o cx (S n)) as [[[s1 r1] n1] cx1] eqn:E1.
    destruct (lower_args args cx1 n1) as [[[s2 rs] n2] cx2] eqn:E2. inv_pair H.
    simpl in HN. destruct HN as (HNa & HNb).
    pose proof (op_args o args IHo IHa _ _ _ s tr _ _ _ _ _ _ _ _ _ E1 E2 (inv_S _ _ _ _ HI) HD HNa HNb) as T.
    destruct (shape_expr _ _ _ _ _ _ _ _ _ E1) as (L1 & X1).
    destruct (shape_args _ _ _ _ _ _ _ _ _ E2) as (L2 & X2).
    unfold Lower.sound, exec_block. rewrite seval_ECallM. unfold with_order.
    destruct (seval w true r o tr) as [v1 tr1|f1]; [|intros Hf; apply T; auto].
    destruct (seval_args w true r args tr1) as [vs tr2|f2]; [|intros Hf; apply T; auto].
    destruct T as (s' & R & V1 & V2 & F & St1).
    rewrite app_assoc.
    destruct (call_named w f (v1 :: vs) tr2) as [v tr3|ff] eqn:B; simpl.
    - destruct void.
      + exists s'. split.
        * rewrite (run_app_next _ _ _ _ _ _ R). simpl. rewrite V1, V2, B. reflexivity.
        * split; [reflexivity|]. split; [|exact I]. eapply frame_widen; eauto.
      + exists (upd s' (tmp n) (Some v)). split.
        * rewrite (run_app_next _ _ _ _ _ _ R). simpl. rewrite V1, V2, B. reflexivity.
        * split. apply upd_same. split; [|apply stable_tmp; lia].
          apply frame_upd_r; try lia. eapply frame_widen; eauto.
    - intros Hf. rewrite (run_app_next _ _ _ _ _ _ R). simpl. rewrite V1, V2, B. reflexivity.
  Qed.

  Lemma case_ECallC : forall c args void, P_expr c -> P_args args -> P_expr (ECallC c args void).
  Proof.
    intros c args void IHo IHa cx n r s tr D ss re n' cx' H HI HD HN. simpl in H.
    destruct (lower c cx (S n)) as [[[s1 r1] n1] cx1] eqn:E1.
    destruct (lower_args args cx1 n1) as [[[s2 rs] n2] cx2] eqn:E2. inv_pair H.
    simpl in HN. destruct HN as (HNa & HNb).
    pose proof (op_args c args IHo IHa _ _ _ s tr _ _ _ _ _ _ _ _ _ E1 E2 (inv_S _ _ _ _ HI) HD HNa HNb) as T.
    destruct (shape_expr _ _ _ _ _ _ _ _ _ E1) as (L1 & X1).
    destruct (shape_args _ _ _ _ _ _ _ _ _ E2) as (L2 & X2).
    unfold Lower.sound, exec_block. rewrite seval_ECallC. unfold with_order.
    destruct (seval w true r c tr) as [v1 tr1|f1]; [|intros Hf; apply T; auto].
    destruct (seval_args w true r args tr1) as [vs tr2|f2]; [|intros Hf; apply T; auto].
    destruct T as (s' & R & V1 & V2 & F & St1).
    rewrite app_assoc.
    destruct r1 as [z| |t|fx]; simpl in V1.
    - inv_pair V1. simpl. stuck.
    - inv_pair V1. simpl. stuck.
    - inv_pair V1. simpl. stuck.
    - destruct (apply_value w v1 vs tr2) as [v tr3|ff] eqn:B; simpl.
      + destruct void.
        * exists s'. split.
          -- rewrite (run_app_next _ _ _ _ _ _ R). simpl. rewrite V1, V2, B. reflexivity.
          -- split; [reflexivity|]. split; [|exact I]. eapply frame_widen; eauto.
        * exists (upd s' (tmp n) (Some v)). split.
          -- rewrite (run_app_next _ _ _ _ _ _ R). simpl. rewrite V1, V2, B. reflexivity.
          -- split. apply upd_same. split; [|apply stable_tmp; lia].
             apply frame_upd_r; try lia. eapply frame_widen; eauto.
      + intros Hf. rewrite (run_app_next _ _ _ _ _ _ R). simpl. rewrite V1, V2, B. reflexivity.
  Qed.

  Lemma case_ETuple : forall c es, P_args es -> P_expr (ETuple c es).
  Proof.
    intros c es IHa cx n r s tr D ss re n' cx' H HI HD HN. simpl in H.
    destruct (lower_args es cx (S n)) as [[[s2 rs] n2] cx2] eqn:E2. inv_pair H.
    simpl in HN.
    pose proof (IHa _ _ _ s tr _ _ _ _ _ E2 (inv_S _ _ _ _ HI) HD HN) as So. unfold Lower.sound_l, exec_block in So.
    destruct (shape_args _ _ _ _ _ _ _ _ _ E2) as (L2 & X2).
    unfold Lower.sound, exec_block. rewrite seval_ETuple.
    destruct (seval_args w true r es tr) as [vs tr2|f2].
    - destruct So as (s' & R & V & F & St). simpl.
      exists (upd s' (tmp n) (Some (VStruct vs))). split.
      + rewrite (run_app_next _ _ _ _ _ _ R). simpl. rewrite V. reflexivity.
      + split. apply upd_same. split; [|apply stable_tmp; lia].
        apply frame_upd_r; try lia. eapply frame_widen; eauto.
    - intros Hf. apply run_app_fail. auto.
  Qed.

  (* ------------------------------------------------------------------ if / else *)
  Lemma inv_push : forall r cx s n, inv r cx s n -> inv r (push cx) s n.
  Proof. intros r cx s n HI x v Hx. destruct (HI x v Hx) as (y & Hr & Hs & Hl). exists y. auto. Qed.

  Lemma is_lit_true : forall rc z, is_lit rc z = true -> rc = HInt z.
  Proof. intros rc z H. destruct rc; simpl in H; try discriminate. apply Z.eqb_eq in H. congruence. Qed.

  Lemma case_EIf : forall c e1 e2, P_expr c -> P_expr e1 -> P_expr e2 -> P_expr (EIf c e1 e2).
  Proof.
    intros c e1 e2 IHc IH1 IH2 cx n r s tr D ss re n' cx' H HI HD HN. simpl in H.
    destruct (lower c (push cx) n) as [[[sc rc] n1] cx1] eqn:Ec.
    simpl in HN. destruct HN as (HNc & HN1 & HN2).
    pose proof (IHc _ _ _ s tr _ _ _ _ _ Ec (inv_push _ _ _ _ HI) HD HNc) as Soc. unfold Lower.sound, exec_block in Soc.
    destruct (shape_expr _ _ _ _ _ _ _ _ _ Ec) as (Lc & Xc).
    unfold Lower.sound, exec_block. rewrite seval_EIf.
    destruct (seval w true r c tr) as [v tr1|f].
    2:{ intros Hf.
        destruct (is_lit rc 1).
        { destruct (lower e1 cx1 n1) as [[[s1 r1] n2] cx2]. inv_pair H. apply run_app_fail; auto. }
        destruct (is_lit rc 0).
        { destruct (lower e2 cx1 n1) as [[[s1 r1] n2] cx2]. inv_pair H. apply run_app_fail; auto. }
        destruct (lower e1 cx1 (S n1)) as [[[s1 r1] n2] cx2].
        destruct (lower e2 cx2 n2) as [[[s2 r2] n3] cx3]. inv_pair H. apply run_app_fail; auto. }
    destruct Soc as (sc' & Rc & Vc & Fc & Stc).
    assert (HIc : inv r cx1 sc' n1).
    { eapply inv_after; [apply inv_push; exact HI|exact HD| |exact Xc|exact Fc|exact Lc].
      intros x Hx. eapply ns_bv; eauto. }
    destruct (is_lit rc 1) eqn:L1.
    { (* the condition is the literal 1: the first block, no IfElse *)
      apply is_lit_true in L1. subst rc. simpl in Vc. inv_pair Vc. simpl.
      destruct (lower e1 cx1 n1) as [[[s1 r1] n2] cx2] eqn:E1. inv_pair H.
      pose proof (IH1 _ _ _ sc' tr1 _ _ _ _ _ E1 HIc HD HN1) as So1. unfold Lower.sound, exec_block in So1.
      destruct (shape_expr _ _ _ _ _ _ _ _ _ E1) as (L1 & X1).
      destruct (seval w true r e1 tr1) as [v1 tr2|f1].
      - destruct So1 as (s1' & R1 & V1 & F1 & St1).
        exists s1'. split. rewrite (run_app_next _ _ _ _ _ _ Rc). exact R1.
        split; [exact V1|]. split; [|exact St1]. eapply frame_trans; eauto.
      - intros Hf. rewrite (run_app_next _ _ _ _ _ _ Rc). auto. }
    destruct (is_lit rc 0) eqn:L0.
    { apply is_lit_true in L0. subst rc. simpl in Vc. inv_pair Vc. simpl.
      destruct (lower e2 cx1 n1) as [[[s1 r1] n2] cx2] eqn:E1. inv_pair H.
      pose proof (IH2 _ _ _ sc' tr1 _ _ _ _ _ E1 HIc HD HN2) as So1. unfold Lower.sound, exec_block in So1.
      destruct (shape_expr _ _ _ _ _ _ _ _ _ E1) as (L1' & X1).
      destruct (seval w true r e2 tr1) as [v1 tr2|f1].
      - destruct So1 as (s1' & R1 & V1 & F1 & St1).
        exists s1'. split. rewrite (run_app_next _ _ _ _ _ _ Rc). exact R1.
        split; [exact V1|]. split; [|exact St1]. eapply frame_trans; eauto.
      - intros Hf. rewrite (run_app_next _ _ _ _ _ _ Rc). auto. }
    (* the general case: IfElse with one final assignment *)
    destruct (lower e1 cx1 (S n1)) as [[[s1 r1] n2] cx2] eqn:E1.
    destruct (lower e2 cx2 n2) as [[[s2 r2] n3] cx3] eqn:E2. inv_pair H.
    destruct (shape_expr _ _ _ _ _ _ _ _ _ E1) as (L1' & X1).
    destruct (shape_expr _ _ _ _ _ _ _ _ _ E2) as (L2' & X2).
    destruct (truth v) as [[|]|] eqn:T; [| |stuck].
    - pose proof (IH1 _ _ _ sc' tr1 _ _ _ _ _ E1 (inv_S _ _ _ _ HIc) HD HN1) as So1. unfold Lower.sound, exec_block in So1.
      destruct (seval w true r e1 tr1) as [v1 tr2|f1].
      + destruct So1 as (s1' & R1 & V1 & F1 & St1).
        exists (upd s1' (tmp n1) (Some v1)). split.
        * rewrite (run_app_next _ _ _ _ _ _ Rc). simpl. rewrite Vc, (truth_htruth _ _ T), R1. simpl. rewrite V1. reflexivity.
        * split. apply upd_same. split; [|apply stable_tmp; lia].
          apply frame_upd_r; try lia. eapply frame_comp; [exact Fc|exact F1|lia|lia|lia|lia].
      + intros Hf. rewrite (run_app_next _ _ _ _ _ _ Rc). simpl. rewrite Vc, (truth_htruth _ _ T), (So1 Hf). reflexivity.
    - assert (HI2 : inv r cx2 sc' n2).
      { eapply inv_after; [exact HIc|exact HD| |exact X1|apply frame_refl|lia].
        intros x Hx. eapply ns_bv; eauto. }
      pose proof (IH2 _ _ _ sc' tr1 _ _ _ _ _ E2 HI2 HD HN2) as So2. unfold Lower.sound, exec_block in So2.
      destruct (seval w true r e2 tr1) as [v2 tr2|f2].
      + destruct So2 as (s2' & R2 & V2 & F2 & St2).
        exists (upd s2' (tmp n1) (Some v2)). split.
        * rewrite (run_app_next _ _ _ _ _ _ Rc). simpl. rewrite Vc, (truth_htruth _ _ T), R2. simpl. rewrite V2. reflexivity.
        * split. apply upd_same. split; [|apply stable_tmp; lia].
          apply frame_upd_r; try lia. eapply frame_comp; [exact Fc|exact F2|lia|lia|lia|lia].
      + intros Hf. rewrite (run_app_next _ _ _ _ _ _ Rc). simpl. rewrite Vc, (truth_htruth _ _ T), (So2 Hf). reflexivity.
  Qed.

  (* ------------------------------------------------------------------ blocks *)
  Lemma case_EBlock : forall b, P_blk b -> P_expr (EBlock b).
  Proof.
    intros b IHb cx n r s tr D ss re n' cx' H HI HD HN. simpl in H.
    destruct (lower_blk b (push cx) n) as [[[s1 r1] n1] cx1] eqn:E1. inv_pair H.
    rewrite seval_EBlock. eapply IHb; [exact E1|unfold push; congruence|apply inv_push; exact HI|exact HD|exact HN].
  Qed.

  Lemma case_BEndU : P_blk BEndU.
  Proof.
    intros cx n r s tr D ss re n' cx' H Hne HI HD HN. simpl in H. inv_pair H. simpl.
    exists s. split; [reflexivity|]. split; [reflexivity|]. split; [apply frame_refl|exact I].
  Qed.

  Lemma case_BEndE : forall e, P_expr e -> P_blk (BEndE e).
  Proof.
    intros e IHe cx n r s tr D ss re n' cx' H Hne HI HD HN. simpl in H. rewrite seval_blk_BEndE. eapply IHe; eauto.
  Qed.

  Lemma extE_nonempty : forall B cx cx1, extE B cx cx1 -> cx <> [] -> cx1 <> [].
  Proof. intros B cx cx1 (ex & -> & _) H. destruct ex; simpl; auto. congruence. Qed.

  Lemma case_BExp : forall e b, P_expr e -> P_blk b -> P_blk (BExp e b).
  Proof.
    intros e b IHe IHb cx n r s tr D ss re n' cx' H Hne HI HD HN. simpl in H.
    destruct (lower e cx n) as [[[s1 r1] n1] cx1] eqn:E1.
    destruct (lower_blk b cx1 n1) as [[[s2 r2] n2] cx2] eqn:E2. inv_pair H.
    simpl in HN. destruct HN as (HNe & HNb).
    pose proof (IHe _ _ _ s tr _ _ _ _ _ E1 HI HD HNe) as So1. unfold Lower.sound, exec_block in So1.
    destruct (shape_expr _ _ _ _ _ _ _ _ _ E1) as (L1 & X1).
    pose proof (extE_nonempty _ _ _ X1 Hne) as Hne1.
    destruct (shape_blk _ _ _ _ _ _ _ _ _ E2 Hne1) as (L2 & X2).
    unfold Lower.sound, exec_block. rewrite seval_blk_BExp.
    destruct (seval w true r e tr) as [v1 tr1|f1].
    - destruct So1 as (s1' & R1 & V1 & F1 & St1).
      assert (HI1 : inv r cx1 s1' n1).
      { eapply inv_after; eauto. intros x Hx. eapply ns_bv; eauto. }
      pose proof (IHb _ _ _ s1' tr1 _ _ _ _ _ E2 Hne1 HI1 HD HNb) as So2. unfold Lower.sound, exec_block in So2.
      destruct (seval_blk w true r b tr1) as [v2 tr2|f2].
      + destruct So2 as (s2' & R2 & V2 & F2 & St2).
        exists s2'. split. rewrite (run_app_next _ _ _ _ _ _ R1). exact R2.
        split; [exact V2|]. split; [|exact St2]. eapply frame_trans; eauto.
      + intros Hf. rewrite (run_app_next _ _ _ _ _ _ R1). auto.
    - intros Hf. apply run_app_fail. auto.
  Qed.

  Lemma case_BLet : forall x e b, P_expr e -> P_blk b -> P_blk (BLet x e b).
  Proof.
    intros x e b IHe IHb cx n r s tr D ss re n' cx' H Hne HI HD HN.
    destruct x as [x|].
    - (* let x = e *)
      simpl in H.
      destruct (lower e cx n) as [[[s1 r1] n1] cx1] eqn:E1.
      destruct (lower_blk b (insert cx1 x (tmp n1)) (S n1)) as [[[s2 r2] n2] cx2] eqn:E2. inv_pair H.
      simpl in HN. destruct HN as (HNe & HNx & HNb).
      pose proof (IHe _ _ _ s tr _ _ _ _ _ E1 HI HD HNe) as So1. unfold Lower.sound, exec_block in So1.
      destruct (shape_expr _ _ _ _ _ _ _ _ _ E1) as (L1 & X1).
      pose proof (extE_nonempty _ _ _ X1 Hne) as Hne1.
      assert (Hne2 : insert cx1 x (tmp n1) <> []) by (destruct cx1; simpl; congruence).
      destruct (shape_blk _ _ _ _ _ _ _ _ _ E2 Hne2) as (L2 & X2).
      unfold Lower.sound, exec_block. rewrite seval_blk_BLet.
      destruct (seval w true r e tr) as [v1 tr1|f1].
      + destruct So1 as (s1' & R1 & V1 & F1 & St1).
        set (t := tmp n1) in *.
        set (s1'' := upd (upd s1' t None) t (Some v1)).
        assert (Hr1 : heval (upd s1' t None) r1 = Some v1).
        { destruct r1; simpl in *; auto. rewrite upd_other; auto. intros ->. eapply St1; eauto. }
        assert (HI1 : inv (upd r x (Some v1)) (insert cx1 x t) s1'' (S n1)).
        { intros y vy Hy. unfold upd in Hy. destruct (N.eqb y x) eqn:Eyx.
          - apply N.eqb_eq in Eyx. subst y. inv_pair Hy. exists t. split.
            apply resolve_insert_same; auto. split. unfold s1''. apply upd_same.
            apply (low_tmp tmp tmp_inj). lia.
          - apply N.eqb_neq in Eyx.
            assert (HIe : inv r cx1 s1' n1).
            { eapply inv_after; eauto. intros z Hz. eapply ns_bv; eauto. }
            destruct (HIe y vy Hy) as (y' & Hr & Hs & Hl). exists y'. split.
            rewrite resolve_insert_other; auto. split.
            + unfold s1''. rewrite !upd_other; auto; intros ->; eapply Hl; eauto.
            + eapply low_mono; eauto. }
        assert (HD1 : dom_in (upd r x (Some v1)) (x :: D)).
        { intros y Hy. unfold upd in Hy. destruct (N.eqb y x) eqn:Eyx.
          apply N.eqb_eq in Eyx. left; auto. right. apply HD; auto. }
        pose proof (IHb _ _ _ s1'' tr1 _ _ _ _ _ E2 Hne2 HI1 HD1 HNb) as So2. unfold Lower.sound, exec_block in So2.
        destruct (seval_blk w true (upd r x (Some v1)) b tr1) as [v2 tr2|f2].
        * destruct So2 as (s2' & R2 & V2 & F2 & St2).
          exists s2'. split.
          -- rewrite (run_app_next _ _ _ _ _ _ R1). simpl. rewrite Hr1. exact R2.
          -- split; [exact V2|]. split; [|exact St2].
             eapply frame_comp with (s1 := s1''); [| exact F2 | | | | ]; try lia.
             instantiate (1 := S n1). instantiate (1 := n).
             unfold s1''. apply frame_upd_r; try lia. apply frame_upd_r; try lia. eapply frame_widen; eauto.
             lia. lia.
        * intros Hf. rewrite (run_app_next _ _ _ _ _ _ R1). simpl. rewrite Hr1. auto.
      + intros Hf. apply run_app_fail. auto.
    - (* let _ = e *)
      simpl in H.
      destruct (lower e cx n) as [[[s1 r1] n1] cx1] eqn:E1.
      destruct (lower_blk b cx1 n1) as [[[s2 r2] n2] cx2] eqn:E2. inv_pair H.
      simpl in HN. destruct HN as (HNe & HNb).
      pose proof (IHe _ _ _ s tr _ _ _ _ _ E1 HI HD HNe) as So1. unfold Lower.sound, exec_block in So1.
      destruct (shape_expr _ _ _ _ _ _ _ _ _ E1) as (L1 & X1).
      pose proof (extE_nonempty _ _ _ X1 Hne) as Hne1.
      destruct (shape_blk _ _ _ _ _ _ _ _ _ E2 Hne1) as (L2 & X2).
      unfold Lower.sound, exec_block. rewrite seval_blk_BLet.
      destruct (seval w true r e tr) as [v1 tr1|f1].
      + destruct So1 as (s1' & R1 & V1 & F1 & St1).
        assert (HI1 : inv r cx1 s1' n1).
        { eapply inv_after; eauto. intros x Hx. eapply ns_bv; eauto. }
        pose proof (IHb _ _ _ s1' tr1 _ _ _ _ _ E2 Hne1 HI1 HD HNb) as So2. unfold Lower.sound, exec_block in So2.
        destruct (seval_blk w true r b tr1) as [v2 tr2|f2].
        * destruct So2 as (s2' & R2 & V2 & F2 & St2).
          exists s2'. split. rewrite (run_app_next _ _ _ _ _ _ R1). exact R2.
          split; [exact V2|]. split; [|exact St2]. eapply frame_trans; eauto.
        * intros Hf. rewrite (run_app_next _ _ _ _ _ _ R1). auto.
      + intros Hf. apply run_app_fail. auto.
  Qed.

  (* ------------------------------------------------------------------ let (p0, .., pm) = e *)
  Lemma index_of_In : forall x bs, In x bs -> exists i, index_of x bs = Some i /\ (i < length bs)%nat.
  Proof.
    induction bs as [|y t IH]; intros H; simpl in *. tauto.
    destruct (N.eqb x y) eqn:E. exists O. split; auto. lia.
    destruct H as [->|H]. rewrite N.eqb_refl in E. discriminate.
    destruct (IH H) as (i & Hi & Hl). rewrite Hi. exists (S i). split; auto. lia.
  Qed.
  Lemma index_of_inj : forall bs x y i, index_of x bs = Some i -> index_of y bs = Some i -> x = y.
  Proof.
    induction bs as [|z t IH]; intros x y i Hx Hy; simpl in *. discriminate.
    destruct (N.eqb x z) eqn:Ex; destruct (N.eqb y z) eqn:Ey.
    - apply N.eqb_eq in Ex, Ey. congruence.
    - inv_pair Hx. destruct (index_of y t); discriminate.
    - inv_pair Hy. destruct (index_of x t); discriminate.
    - destruct (index_of x t) eqn:Ix; [|discriminate]. destruct (index_of y t) eqn:Iy; [|discriminate].
      inv_pair Hx. inv_pair Hy. eapply IH; eauto.
  Qed.

  Lemma resolve_insert_all_other : forall bs cx n y, ~ In y bs -> resolve (insert_all tmp cx bs n) y = resolve cx y.
  Proof.
    induction bs as [|x t IH]; intros cx n y H; simpl; auto.
    rewrite IH by (intros Hin; apply H; right; auto).
    apply resolve_insert_other. intros ->. apply H. left; auto.
  Qed.
  Lemma resolve_insert_all_in : forall bs cx n y i,
    cx <> [] -> NoDup bs -> index_of y bs = Some i -> resolve (insert_all tmp cx bs n) y = Some (tmp (n + i)).
  Proof.
    induction bs as [|x t IH]; intros cx n y i Hne Hnd Hi; simpl in *. discriminate.
    inversion Hnd; subst.
    destruct (N.eqb y x) eqn:E.
    - apply N.eqb_eq in E. subst y. inv_pair Hi. rewrite resolve_insert_all_other by auto.
      rewrite resolve_insert_same by auto. f_equal. f_equal. lia.
    - destruct (index_of y t) as [j|] eqn:Ij; [|discriminate]. inv_pair Hi.
      rewrite (IH _ (S n) y j); auto. f_equal. f_equal. lia. apply insert_nonempty; auto.
  Qed.

  Lemma run_decls : forall base l s tr,
    exists s', run (map (fun j => HDecl (tmp (base + j))) l) s tr = HNext s' tr /\
               forall y, (forall j, In j l -> y <> tmp (base + j)) -> s' y = s y.
  Proof.
    induction l as [|j t IH]; intros s tr; simpl.
    - exists s. auto.
    - destruct (IH (upd s (tmp (base + j)) None) tr) as (s' & R & W).
      exists s'. split; auto. intros y Hy. rewrite W by (intros j' Hj'; apply Hy; auto).
      apply upd_other. apply Hy. auto.
  Qed.

  Lemma bind_els_other : forall els r vs r' x, bind_els r els vs = Some r' -> ~ In (Some x) els -> r' x = r x.
  Proof.
    induction els as [|el t IH]; intros r vs r' x H Hx; simpl in H.
    - inv_pair H. reflexivity.
    - destruct vs as [|v vt]; [discriminate|].
      rewrite (IH _ _ _ x H) by (intros Hin; apply Hx; right; auto).
      destruct el as [y|]; auto. apply upd_other. intros ->. apply Hx. left; auto.
  Qed.

  Lemma some_in_dec : forall (x : N) (els : list (option N)), {In (Some x) els} + {~ In (Some x) els}.
  Proof. intros. apply in_dec. decide equality. apply N.eq_dec. Qed.

  Lemma skipn_cons_nth : forall (vs : list value) i w0 wt, skipn i vs = w0 :: wt -> nth_error vs i = Some w0 /\ skipn (S i) vs = wt.
  Proof.
    induction vs as [|v t IH]; intros i w0 wt H.
    - destruct i; discriminate.
    - destruct i; simpl in *. inv_pair H. auto. apply IH; auto.
  Qed.

  (* the statements of the tuple pattern: every variable of the pattern ends up in its late-init variable, with the
     value the source binding gives it (the last element wins for a repeated name); only the late-init variables
     and the temporaries of the element loads are written *)
  Lemma tuple_run : forall bs n1 re base m vs tr,
    (forall y, re = HVar y -> low n1 y) -> (base = n1 + length bs)%nat ->
    forall els i r r' s,
      heval s re = Some (VStruct vs) -> bind_els r els (skipn i vs) = Some r' -> (i + length els = m)%nat ->
      (forall x, In (Some x) els -> In x bs) ->
      exists s', run (tuple_stmts tmp re (bn_of tmp bs n1) els i base m) s tr = HNext s' tr /\
        (forall y, (forall j, (i <= j)%nat -> (j < m)%nat -> y <> tmp (base + (m - 1 - j))) ->
                   (forall u, In (Some u) els -> y <> bn_of tmp bs n1 u) -> s' y = s y) /\
        (forall x, In (Some x) els -> s' (bn_of tmp bs n1 x) = r' x).
  Proof.
    intros bs n1 re base m vs tr Hst Hbase.
    induction els as [|el t IH]; intros i r r' s Hre Hb Hm Hin; simpl in *.
    - exists s. split; auto. split; auto. intros x [].
    - destruct (skipn i vs) as [|w0 wt] eqn:Sk; [discriminate|].
      apply skipn_cons_nth in Sk as (Hnth & Sk').
      set (xi := tmp (base + (m - 1 - i))) in *.
      assert (Hxi : forall y, re = HVar y -> y <> xi).
      { intros y Hy E. apply (Hst y Hy (base + (m - 1 - i))%nat). lia. auto. }
      assert (Hbn : forall u, In u bs -> forall y, re = HVar y -> y <> bn_of tmp bs n1 u).
      { intros u Hu y Hy E. destruct (index_of_In _ _ Hu) as (j & Hj & Hl). unfold bn_of in E. rewrite Hj in E.
        apply (Hst y Hy (n1 + j)%nat). lia. auto. }
      assert (Hbnxi : forall u, In u bs -> bn_of tmp bs n1 u <> xi).
      { intros u Hu E. destruct (index_of_In _ _ Hu) as (j & Hj & Hl). unfold bn_of in E. rewrite Hj in E.
        apply tmp_inj in E. lia. }
      rewrite Hre. simpl. rewrite Hnth.
      destruct el as [v|]; simpl.
      + rewrite upd_same.
        set (sb := upd (upd s xi (Some w0)) (bn_of tmp bs n1 v) (Some w0)).
        assert (Hv : In v bs) by (apply Hin; left; auto).
        assert (Hre' : heval sb re = Some (VStruct vs)).
        { destruct re; simpl in *; auto. unfold sb. rewrite !upd_other; auto. }
        destruct (IH (S i) (upd r v (Some w0)) r' sb Hre') as (s' & R & W & B); auto. rewrite Sk'. exact Hb. lia.
        exists s'. split; [exact R|]. split.
        * intros y Hy1 Hy2. rewrite W.
          -- unfold sb. rewrite !upd_other; auto. apply Hy1; lia.
          -- intros j Hj1 Hj2. apply Hy1; lia.
          -- intros u Hu. apply Hy2. auto.
        * intros x [Hx|Hx].
          -- inv_pair Hx.
             destruct (some_in_dec x t) as [Hin'|Hnin]; [apply B; auto|].
             rewrite (bind_els_other _ _ _ _ x Hb Hnin). rewrite upd_same.
             rewrite W. unfold sb. apply upd_same.
             ++ intros j Hj1 Hj2 E. destruct (index_of_In _ _ Hv) as (jj & Hjj & Hl). unfold bn_of in E. rewrite Hjj in E.
                apply tmp_inj in E. lia.
             ++ intros u Hu E. assert (Hub : In u bs) by auto.
                destruct (index_of_In _ _ Hv) as (jx & Hjx & _). destruct (index_of_In _ _ Hub) as (ju & Hju & _).
                unfold bn_of in E. rewrite Hjx, Hju in E. apply tmp_inj in E.
                assert (ju = jx) by lia. subst ju. assert (u = x) by (eapply index_of_inj; eauto). subst u. auto.
          -- apply B; auto.
      + set (sb := upd s xi (Some w0)).
        assert (Hre' : heval sb re = Some (VStruct vs)).
        { destruct re; simpl in *; auto. unfold sb. rewrite upd_other; auto. }
        destruct (IH (S i) r r' sb Hre') as (s' & R & W & B); auto. rewrite Sk'. exact Hb. lia.
        exists s'. split; [exact R|]. split.
        * intros y Hy1 Hy2. rewrite W.
          -- unfold sb. rewrite upd_other; auto. apply Hy1; lia.
          -- intros j Hj1 Hj2. apply Hy1; lia.
          -- intros u Hu. apply Hy2. auto.
        * intros x [Hx|Hx]; [discriminate|]. apply B; auto.
  Qed.

  Lemma case_BLetT : forall bs els e b, P_expr e -> P_blk b -> P_blk (BLetT bs els e b).
  Proof.
    intros bs els e b IHe IHb cx n r s tr D ss re n' cx' H Hne HI HD HN. simpl in H.
    destruct (lower e cx n) as [[[s1 r1] n1] cx1] eqn:E1.
    destruct (lower_blk b (insert_all tmp cx1 bs n1) (n1 + length bs + length els)) as [[[s2 r2] n2] cx2] eqn:E2. inv_pair H.
    simpl in HN. destruct HN as (HNe & Hnd & Hels & Hbs & HNb).
    pose proof (IHe _ _ _ s tr _ _ _ _ _ E1 HI HD HNe) as So1. unfold Lower.sound, exec_block in So1.
    destruct (shape_expr _ _ _ _ _ _ _ _ _ E1) as (L1 & X1).
    pose proof (extE_nonempty _ _ _ X1 Hne) as Hne1.
    assert (Hne2 : insert_all tmp cx1 bs n1 <> []).
    { eapply extB_nonempty. apply extB_insert_all with (B := bs); auto. apply incl_refl. }
    destruct (shape_blk _ _ _ _ _ _ _ _ _ E2 Hne2) as (L2 & X2).
    unfold Lower.sound, exec_block. rewrite seval_blk_BLetT.
    destruct (seval w true r e tr) as [v1 tr1|f1]; [|intros Hf; apply run_app_fail; auto].
    destruct So1 as (s1' & R1 & V1 & F1 & St1).
    destruct (bind_tuple r els v1) as [r'|] eqn:BT; [|stuck].
    destruct v1 as [|?|vs|? ?|? ?|?]; try discriminate. simpl in BT.
    set (k := length bs) in *. set (m := length els) in *.
    (* the declarations *)
    destruct (run_decls n1 (seq 0 k) s1' tr1) as (sd & Rd & Wd).
    assert (Fd : frame n1 (n1 + k) s1' sd).
    { intros y Hy. apply Wd. intros j Hj E. apply in_seq in Hj. apply (Hy (n1 + j)%nat); auto; lia. }
    assert (Vd : heval sd r1 = Some (VStruct vs)).
    { rewrite (heval_stable tmp _ _ _ _ _ St1 Fd). exact V1. }
    (* the pattern *)
    destruct (tuple_run bs n1 r1 (n1 + k) m vs tr1) with (els := els) (i := O) (r := r) (r' := r') (s := sd)
      as (sp & Rp & Wp & Bp); auto.
    { intros y ->. exact St1. }
    { intros x Hx. apply Hels; auto. }
    assert (Fp : frame n1 (n1 + k + m) sd sp).
    { intros y Hy. apply Wp.
      - intros j Hj1 Hj2 E. apply (Hy (n1 + k + (m - 1 - j))%nat); auto; lia.
      - intros u Hu E. assert (Hub : In u bs) by (apply Hels; auto).
        destruct (index_of_In _ _ Hub) as (j & Hj & Hl). unfold bn_of in E. rewrite Hj in E.
        apply (Hy (n1 + j)%nat); auto; fold k in Hl; lia. }
    (* the invariant for the rest of the block *)
    assert (HIe : inv r cx1 s1' n1).
    { eapply inv_after; eauto. intros z Hz. eapply ns_bv; eauto. }
    assert (HI2 : inv r' (insert_all tmp cx1 bs n1) sp (n1 + k + m)).
    { intros y vy Hy.
      destruct (some_in_dec y els) as [Hin|Hnin].
      - assert (Hyb : In y bs) by (apply Hels; auto).
        destruct (index_of_In _ _ Hyb) as (j & Hj & Hl).
        exists (tmp (n1 + j)). split. apply resolve_insert_all_in; auto.
        split. rewrite <- Hy, <- (Bp y Hin). unfold bn_of. rewrite Hj. reflexivity.
        apply (low_tmp tmp tmp_inj). fold k in Hl. lia.
      - rewrite (bind_els_other _ _ _ _ y BT Hnin) in Hy.
        assert (HyD : In y D) by (apply HD; congruence).
        destruct (HIe y vy Hy) as (y' & Hr & Hs & Hl). exists y'. split.
        rewrite resolve_insert_all_other; auto. intros Hyb. eapply Hbs; eauto.
        split. rewrite (Fp y'), (Fd y'); [exact Hs|auto|eapply low_mono; eauto; lia].
        eapply low_mono; eauto. lia. }
    assert (HD2 : dom_in r' (bs ++ D)).
    { intros y Hy. apply in_or_app.
      destruct (some_in_dec y els) as [Hin|Hnin].
      left. apply Hels; auto. right. apply HD. rewrite <- (bind_els_other _ _ _ _ y BT Hnin). auto. }
    pose proof (IHb _ _ _ sp tr1 _ _ _ _ _ E2 Hne2 HI2 HD2 HNb) as So2. unfold Lower.sound, exec_block in So2.
    destruct (seval_blk w true r' b tr1) as [v2 tr2|f2].
    - destruct So2 as (s2' & R2 & V2 & F2 & St2).
      exists s2'. split.
      + rewrite (run_app_next _ _ _ _ _ _ R1). rewrite (run_app_next _ _ _ _ _ _ Rd).
        rewrite (run_app_next _ _ _ _ _ _ Rp). exact R2.
      + split; [exact V2|]. split; [|exact St2].
        eapply frame_comp with (s1 := sp); [|exact F2| | | |]; try lia.
        instantiate (1 := (n1 + k + m)%nat). instantiate (1 := n).
        eapply frame_comp with (s1 := sd); [|exact Fp| | | |]; try lia.
        instantiate (1 := (n1 + k)%nat). instantiate (1 := n).
        eapply frame_comp; [exact F1|exact Fd| | | |]; lia.
        lia. lia. lia. lia.
    - intros Hf. rewrite (run_app_next _ _ _ _ _ _ R1). rewrite (run_app_next _ _ _ _ _ _ Rd).
      rewrite (run_app_next _ _ _ _ _ _ Rp). auto.
  Qed.

  (* ------------------------------------------------------------------ lambda (the statements at the place of the expression) *)
  Lemma hevals_resolve : forall r cx s n caps vs,
    inv r cx s n -> lookups r caps = Some vs -> hevals s (map (resolve_variable cx) caps) = Some vs.
  Proof.
    intros r cx s n. induction caps as [|c t IH]; intros vs HI H; simpl in *.
    - inv_pair H. reflexivity.
    - destruct (r c) as [v|] eqn:Hc; [|discriminate]. destruct (lookups r t) as [vt|] eqn:Ht; [|discriminate]. inv_pair H.
      destruct (inv_resolve tmp _ _ _ _ _ _ HI Hc) as (y & Hr & Hs & _). rewrite Hr. simpl. rewrite Hs.
      rewrite (IH vt); auto.
  Qed.

  Lemma lookups_nonempty : forall r c t vs, lookups r (c :: t) = Some vs -> context_of vs = VStruct vs.
  Proof.
    intros r c t vs H. simpl in H. destruct (r c); [|discriminate]. destruct (lookups r t); [|discriminate].
    inv_pair H. reflexivity.
  Qed.

  Lemma case_ELambda : forall l caps params body, P_expr (ELambda l caps params body).
  Proof.
    intros l caps params body cx n r s tr D ss re n' cx' H HI HD HN.
    destruct (shape_expr _ _ _ _ _ _ _ _ _ H) as (L & _).
    unfold Lower.sound, exec_block. rewrite seval_ELambda.
    simpl in H. destruct caps as [|c0 ct].
    - destruct (lower body (lambda_cx tmp [] params (S n)) (if memb this_name [] then S (S n) else S n))
        as [[[s1 r1] n3] cx3] eqn:E1. inv_pair H.
      destruct (shape_expr _ _ _ _ _ _ _ _ _ E1) as (L3 & _). simpl in L3.
      simpl. exists (upd s (tmp n) (Some (VClo (FLam l) (VInt 0)))). split; [reflexivity|].
      split. apply upd_same. split; [|apply stable_tmp; lia].
      apply frame_upd; lia.
    - destruct (lower body (lambda_cx tmp (c0 :: ct) params (S (S n))) (if memb this_name (c0 :: ct) then S (S (S n)) else S (S n)))
        as [[[s1 r1] n3] cx3] eqn:E1. inv_pair H.
      destruct (shape_expr _ _ _ _ _ _ _ _ _ E1) as (L3 & _).
      assert (L3' : (S (S n) <= n')%nat) by (destruct (memb this_name (c0 :: ct)); lia).
      destruct (lookups r (c0 :: ct)) as [vs|] eqn:Lk; [|stuck].
      rewrite (lookups_nonempty _ _ _ _ Lk).
      pose proof (hevals_resolve _ _ _ _ _ _ HI Lk) as Hv.
      exists (upd (upd s (tmp (S n)) (Some (VStruct vs))) (tmp n) (Some (VClo (FLam l) (VStruct vs)))). split.
      + simpl run. simpl in Hv. rewrite Hv. simpl. rewrite upd_same. reflexivity.
      + split. apply upd_same. split; [|apply stable_tmp; lia].
        apply frame_upd_r; try lia. apply frame_upd; lia.
  Qed.

  (* ------------------------------------------------------------------ pattern sites: let p, if let, match *)
  Lemma slookup_in : forall b x w0, slookup b x = Some w0 -> In x (map fst b).
  Proof.
    induction b as [|[y v] t IH]; intros x w0 H; simpl in *. discriminate.
    destruct (slookup t x) eqn:E. right. eapply IH; eauto.
    destruct (N.eqb x y) eqn:Exy; [|discriminate]. apply N.eqb_eq in Exy. left; auto.
  Qed.
  Lemma bind_all_slookup : forall b r x, bind_all r b x = match slookup b x with Some w0 => Some w0 | None => r x end.
  Proof.
    induction b as [|[y v] t IH]; intros r x; simpl. reflexivity.
    rewrite IH. destruct (slookup t x); auto. unfold upd. destruct (N.eqb x y); reflexivity.
  Qed.

  Lemma smatch_list_dom : forall ps,
    Forall (fun p => forall v b, smatch p v = Some b -> incl (map fst b) (binders p)) ps ->
    forall vs b, smatch_list smatch ps vs = Some b -> incl (map fst b) (flat_map binders ps).
  Proof.
    induction 1 as [|p t Hp Ht IH]; intros vs b H; simpl in *.
    - inv_pair H. intros x [].
    - destruct vs as [|v r]; [discriminate|]. destruct (smatch p v) as [b1|] eqn:E1; [|discriminate].
      destruct (smatch_list smatch t r) as [b2|] eqn:E2; [|discriminate]. inv_pair H.
      rewrite map_app. intros x Hx. apply in_app_or in Hx as [Hx|Hx]; apply in_or_app; [left; eapply Hp|right; eapply IH]; eauto.
  Qed.
  Lemma smatch_dom : forall p v b, smatch p v = Some b -> incl (map fst b) (binders p).
  Proof.
    induction p using pat_ind'; intros v b Hm; simpl in *.
    - inv_pair Hm. intros x [].
    - inv_pair Hm. intros y Hy. exact Hy.
    - destruct v; try discriminate. eapply smatch_list_dom; eauto.
    - destruct v as [| |vs| | |]; try discriminate. revert b Hm. induction H as [|el t Hp Ht IH]; intros b Hm; simpl in *.
      + inv_pair Hm. intros x [].
      + destruct (nth_error vs (fst el)) as [w0|]; [|discriminate]. destruct (smatch (snd el) w0) as [b1|] eqn:E1; [|discriminate].
        destruct (smatch_els smatch vs t) as [b2|] eqn:E2; [|discriminate]. inv_pair Hm.
        rewrite map_app. intros x Hx. apply in_app_or in Hx as [Hx|Hx]; apply in_or_app; [left; eapply Hp|right; eapply IH]; eauto.
    - destruct v; try discriminate. destruct (Nat.eqb tag0 tag); [|discriminate]. eapply smatch_list_dom; eauto.
    - revert b Hm. induction H as [|q t Hq Ht IH]; intros b Hm; simpl in *. discriminate.
      destruct (smatch q v) as [b1|] eqn:E1.
      + inv_pair Hm. intros x Hx. apply in_or_app; left. eapply Hq; eauto.
      + intros x Hx. apply in_or_app; right. eapply IH; eauto.
  Qed.

  (* the invariant after a pattern site whose pattern matched: the variables of the pattern resolve to their late-init
     variables, which hold the matched values; the others are as before *)
  Lemma inv_after_guard : forall r cxg s s1 ng n2 D p bs b v,
    inv r cxg s ng -> dom_in r D -> (forall x, In x bs -> ~ In x D) -> NoDup bs -> incl (binders p) bs -> cxg <> [] ->
    smatch p v = Some b ->
    (forall y, low ng y -> s1 y = s y) ->
    (forall x w', slookup b x = Some w' -> s1 (bn_of tmp bs ng x) = Some w') ->
    (ng + length bs <= n2)%nat ->
    inv (bind_all r b) (insert_all tmp cxg bs ng) s1 n2 /\ dom_in (bind_all r b) (bs ++ D).
  Proof.
    intros r cxg s s1 ng n2 D p bs b v HI HD Hbs Hnd Hincl Hne Hm Hfr Hb Hn. split.
    - intros x vx Hx. rewrite bind_all_slookup in Hx. destruct (slookup b x) as [w0|] eqn:Lk.
      + inv_pair Hx. assert (Hxb : In x bs) by (apply Hincl; eapply smatch_dom; eauto; eapply slookup_in; eauto).
        destruct (index_of_In _ _ Hxb) as (j & Hj & Hl).
        exists (tmp (ng + j)). split. apply resolve_insert_all_in; auto.
        split. rewrite <- (Hb x vx Lk). unfold bn_of. rewrite Hj. reflexivity.
        apply (low_tmp tmp tmp_inj). lia.
      + assert (HxD : In x D) by (apply HD; congruence).
        destruct (HI x vx Hx) as (y & Hr & Hs & Hl). exists y. split.
        rewrite resolve_insert_all_other; auto. intros Hxb. eapply Hbs; eauto.
        split. rewrite Hfr; auto. eapply low_mono; eauto. lia.
    - intros x Hx. rewrite bind_all_slookup in Hx. apply in_or_app. destruct (slookup b x) as [w0|] eqn:Lk.
      + left. apply Hincl. eapply smatch_dom; eauto. eapply slookup_in; eauto.
      + right. apply HD. auto.
  Qed.

  (* ... and when the bindings are only in the scope stack (the pattern did not match, or the else branch) *)
  Lemma inv_keys_only : forall r cxg s s1 ng n2 D bs,
    inv r cxg s ng -> dom_in r D -> (forall x, In x bs -> ~ In x D) ->
    (forall y, low ng y -> s1 y = s y) -> (ng <= n2)%nat ->
    inv r (insert_all tmp cxg bs ng) s1 n2.
  Proof.
    intros r cxg s s1 ng n2 D bs HI HD Hbs Hfr Hn x vx Hx.
    assert (HxD : In x D) by (apply HD; congruence).
    destruct (HI x vx Hx) as (y & Hr & Hs & Hl). exists y. split.
    rewrite resolve_insert_all_other; auto. intros Hxb. eapply Hbs; eauto.
    split. rewrite Hfr; auto. eapply low_mono; eauto.
  Qed.

  Lemma case_BLetP : forall p bs e b, P_expr e -> P_blk b -> P_blk (BLetP p bs e b).
  Proof.
    intros p bs e b IHe IHb cx n r s tr D ss re n' cx' H Hne HI HD HN. simpl in H.
    destruct (lower e cx n) as [[[s1 r1] n1] cx1] eqn:E1.
    destruct (guard tmp p bs r1 n1) as [[gs gc] n2] eqn:G.
    destruct (lower_blk b (insert_all tmp cx1 bs n1) n2) as [[[s2 r2] n3] cx2] eqn:E2. inv_pair H.
    simpl in HN. destruct HN as (HNe & (Hwf & Hnd & Hincl & Hbs & Htop) & HNb).
    pose proof (IHe _ _ _ s tr _ _ _ _ _ E1 HI HD HNe) as So1. unfold Lower.sound, exec_block in So1.
    destruct (shape_expr _ _ _ _ _ _ _ _ _ E1) as (L1 & X1).
    pose proof (extE_nonempty _ _ _ X1 Hne) as Hne1.
    pose proof (guard_cnt _ _ _ _ _ _ _ _ G) as LG.
    assert (Hne2 : insert_all tmp cx1 bs n1 <> []).
    { eapply extB_nonempty. apply extB_insert_all with (B := bs); auto. apply incl_refl. }
    destruct (shape_blk _ _ _ _ _ _ _ _ _ E2 Hne2) as (L2 & X2).
    unfold Lower.sound, exec_block. rewrite seval_blk_BLetP.
    destruct (seval w true r e tr) as [v1 tr1|f1]; [|intros Hf; apply run_app_fail; auto].
    destruct So1 as (s1' & R1 & V1 & F1 & St1).
    destruct (sshape p v1) eqn:Hsh; [|stuck].
    destruct (guard_sound w tmp tmp_inj _ _ _ _ _ s1' tr1 _ _ _ G Hwf Hnd Hincl Htop V1 Hsh St1) as (sg & Rg & Fg & Mg).
    destruct (smatch p v1) as [bd|] eqn:Hm; [|stuck].
    destruct Mg as (_ & Bg).
    assert (HIe : inv r cx1 s1' n1).
    { eapply inv_after; eauto. intros z Hz. eapply ns_bv; eauto. }
    destruct (inv_after_guard _ _ _ sg _ n2 _ _ _ _ _ HIe HD Hbs Hnd Hincl Hne1 Hm Fg Bg LG) as (HI2 & HD2).
    pose proof (IHb _ _ _ sg tr1 _ _ _ _ _ E2 Hne2 HI2 HD2 HNb) as So2. unfold Lower.sound, exec_block in So2.
    destruct (seval_blk w true (bind_all r bd) b tr1) as [v2 tr2|f2].
    - destruct So2 as (s2' & R2 & V2 & F2 & St2).
      exists s2'. split.
      + rewrite (run_app_next _ _ _ _ _ _ R1). rewrite (run_app_next _ _ _ _ _ _ Rg). exact R2.
      + split; [exact V2|]. split; [|exact St2].
        intros y Hy. rewrite F2, Fg, F1; auto; eapply (low_mono tmp); eauto; lia.
    - intros Hf. rewrite (run_app_next _ _ _ _ _ _ R1). rewrite (run_app_next _ _ _ _ _ _ Rg). auto.
  Qed.

  Lemma case_EIfLet : forall p bs e e1 e2, P_expr e -> P_expr e1 -> P_expr e2 -> P_expr (EIfLet p bs e e1 e2).
  Proof.
    intros p bs e e1 e2 IHc IH1 IH2 cx n r s tr D ss re n' cx' H HI HD HN. simpl in H.
    destruct (lower e (push cx) n) as [[[se rs] n1] cx1] eqn:Ec.
    destruct (guard tmp p bs rs n1) as [[gs gc] n2] eqn:G.
    simpl in HN. destruct HN as (HNc & (Hwf & Hnd & Hincl & Hbs & Htop) & HN1 & HN2).
    pose proof (IHc _ _ _ s tr _ _ _ _ _ Ec (inv_push _ _ _ _ HI) HD HNc) as Soc. unfold Lower.sound, exec_block in Soc.
    destruct (shape_expr _ _ _ _ _ _ _ _ _ Ec) as (Lc & Xc).
    pose proof (guard_cnt _ _ _ _ _ _ _ _ G) as LG.
    assert (Hne1 : cx1 <> []) by (eapply extE_nonempty; eauto; unfold push; congruence).
    unfold Lower.sound, exec_block. rewrite seval_EIfLet.
    destruct (seval w true r e tr) as [v tr1|f].
    2:{ intros Hf.
        destruct (is_lit gc 1).
        { destruct (lower e1 (insert_all tmp cx1 bs n1) n2) as [[[s1 r1] n3] cx3]. inv_pair H. apply run_app_fail; auto. }
        destruct (is_lit gc 0).
        { destruct (lower e2 (insert_all tmp cx1 bs n1) n2) as [[[s1 r1] n3] cx3]. inv_pair H. apply run_app_fail; auto. }
        destruct (lower e1 (insert_all tmp cx1 bs n1) (S n2)) as [[[s1 r1] n3] cx3].
        destruct (lower e2 cx3 n3) as [[[s2 r2] n4] cx4]. inv_pair H. apply run_app_fail; auto. }
    destruct Soc as (sc' & Rc & Vc & Fc & Stc).
    destruct (sshape p v) eqn:Hsh; [|stuck].
    destruct (guard_sound w tmp tmp_inj _ _ _ _ _ sc' tr1 _ _ _ G Hwf Hnd Hincl Htop Vc Hsh Stc) as (sg & Rg & Fg & Mg).
    assert (HIc : inv r cx1 sc' n1).
    { eapply inv_after; [apply inv_push; exact HI|exact HD| |exact Xc|exact Fc|exact Lc].
      intros x Hx. eapply ns_bv; eauto. }
    assert (Fcg : frame n n2 s sg).
    { intros y Hy. rewrite Fg, Fc; auto. eapply (low_mono tmp); eauto. }
    (* the two environments in which a branch may run *)
    assert (HIthen : forall bd, smatch p v = Some bd ->
              (forall x w', slookup bd x = Some w' -> sg (bn_of tmp bs n1 x) = Some w') ->
              forall m, (n2 <= m)%nat -> inv (bind_all r bd) (insert_all tmp cx1 bs n1) sg m /\ dom_in (bind_all r bd) (bs ++ D)).
    { intros bd Hm Bg m Hm2. eapply inv_after_guard; eauto. lia. }
    assert (HIelse : forall cxe m, (forall x, ~ In x (bs ++ bv e1) -> resolve cxe x = resolve cx1 x) -> (n1 <= m)%nat ->
              inv r cxe sg m).
    { intros cxe m Hres Hm2 x vx Hx. assert (HxD : In x D) by (apply HD; congruence).
      destruct (HIc x vx Hx) as (y & Hr & Hs & Hl). exists y. split.
      - rewrite Hres; auto. intros Hin. apply in_app_or in Hin as [Hin|Hin]. eapply Hbs; eauto.
        eapply (ns_bv e1 (bs ++ D)); eauto. apply in_or_app; auto.
      - split. rewrite Fg; auto. eapply low_mono; eauto. }
    assert (Dweak : dom_in r (bs ++ D)).
    { intros x Hx. apply in_or_app. right. auto. }
    destruct (is_lit gc 1) eqn:L1.
    { apply is_lit_true in L1. subst gc.
      destruct (lower e1 (insert_all tmp cx1 bs n1) n2) as [[[s1 r1] n3] cx3] eqn:E1. inv_pair H.
      destruct (shape_expr _ _ _ _ _ _ _ _ _ E1) as (Lb & X1).
      destruct (smatch p v) as [bd|] eqn:Hm.
      - destruct Mg as (_ & Bg). destruct (HIthen bd eq_refl Bg n2 (Nat.le_refl _)) as (HI2 & HD2).
        pose proof (IH1 _ _ _ sg tr1 _ _ _ _ _ E1 HI2 HD2 HN1) as So1. unfold Lower.sound, exec_block in So1.
        destruct (seval w true (bind_all r bd) e1 tr1) as [v1 tr2|f1].
        + destruct So1 as (s1' & R1 & V1 & F1 & St1).
          exists s1'. split. rewrite (run_app_next _ _ _ _ _ _ Rc), (run_app_next _ _ _ _ _ _ Rg). exact R1.
          split; [exact V1|]. split; [|exact St1]. eapply frame_trans; eauto. lia.
        + intros Hf. rewrite (run_app_next _ _ _ _ _ _ Rc), (run_app_next _ _ _ _ _ _ Rg). auto.
      - simpl in Mg. discriminate. }
    destruct (is_lit gc 0) eqn:L0.
    { apply is_lit_true in L0. subst gc.
      destruct (lower e2 (insert_all tmp cx1 bs n1) n2) as [[[s1 r1] n3] cx3] eqn:E1. inv_pair H.
      destruct (shape_expr _ _ _ _ _ _ _ _ _ E1) as (Lb & X1).
      destruct (smatch p v) as [bd|] eqn:Hm.
      - destruct Mg as (Mg & _). simpl in Mg. discriminate.
      - assert (HI2 : inv r (insert_all tmp cx1 bs n1) sg n2).
        { apply HIelse; [|lia]. intros x Hx. apply resolve_insert_all_other. intros Hin. apply Hx. apply in_or_app; auto. }
        pose proof (IH2 _ _ _ sg tr1 _ _ _ _ _ E1 HI2 Dweak HN2) as So1. unfold Lower.sound, exec_block in So1.
        destruct (seval w true r e2 tr1) as [v1 tr2|f1].
        + destruct So1 as (s1' & R1 & V1 & F1 & St1).
          exists s1'. split. rewrite (run_app_next _ _ _ _ _ _ Rc), (run_app_next _ _ _ _ _ _ Rg). exact R1.
          split; [exact V1|]. split; [|exact St1]. eapply frame_trans; eauto. lia.
        + intros Hf. rewrite (run_app_next _ _ _ _ _ _ Rc), (run_app_next _ _ _ _ _ _ Rg). auto. }
    (* the general case *)
    destruct (lower e1 (insert_all tmp cx1 bs n1) (S n2)) as [[[s1 r1] n3] cx3] eqn:E1.
    destruct (lower e2 cx3 n3) as [[[s2 r2] n4] cx4] eqn:E2. inv_pair H.
    destruct (shape_expr _ _ _ _ _ _ _ _ _ E1) as (L1' & X1).
    destruct (shape_expr _ _ _ _ _ _ _ _ _ E2) as (L2' & X2).
    destruct (smatch p v) as [bd|] eqn:Hm.
    - destruct Mg as (Cg & Bg). destruct (HIthen bd eq_refl Bg (S n2)) as (HI2 & HD2). lia.
      pose proof (IH1 _ _ _ sg tr1 _ _ _ _ _ E1 HI2 HD2 HN1) as So1. unfold Lower.sound, exec_block in So1.
      destruct (seval w true (bind_all r bd) e1 tr1) as [v1 tr2|f1].
      + destruct So1 as (s1' & R1 & V1 & F1 & St1).
        exists (upd s1' (tmp n2) (Some v1)). split.
        * rewrite (run_app_next _ _ _ _ _ _ Rc), (run_app_next _ _ _ _ _ _ Rg). simpl. rewrite Cg. simpl. rewrite R1. simpl. rewrite V1. reflexivity.
        * split. apply upd_same. split; [|apply stable_tmp; lia].
          apply frame_upd_r; try lia. eapply frame_comp; [exact Fcg|exact F1|lia|lia|lia|lia].
      + intros Hf. rewrite (run_app_next _ _ _ _ _ _ Rc), (run_app_next _ _ _ _ _ _ Rg). simpl. rewrite Cg. simpl. rewrite (So1 Hf). reflexivity.
    - assert (HI2 : inv r cx3 sg n3).
      { apply HIelse; [|lia]. intros x Hx.
        rewrite (resolve_extE _ _ _ x X1) by (intros Hin; apply Hx; apply in_or_app; auto).
        apply resolve_insert_all_other. intros Hin. apply Hx. apply in_or_app; auto. }
      pose proof (IH2 _ _ _ sg tr1 _ _ _ _ _ E2 HI2 Dweak HN2) as So2. unfold Lower.sound, exec_block in So2.
      destruct (seval w true r e2 tr1) as [v2 tr2|f2].
      + destruct So2 as (s2' & R2 & V2 & F2 & St2).
        exists (upd s2' (tmp n2) (Some v2)). split.
        * rewrite (run_app_next _ _ _ _ _ _ Rc), (run_app_next _ _ _ _ _ _ Rg). simpl. rewrite Mg. simpl. rewrite R2. simpl. rewrite V2. reflexivity.
        * split. apply upd_same. split; [|apply stable_tmp; lia].
          apply frame_upd_r; try lia. eapply frame_comp; [exact Fcg|exact F2|lia|lia|lia|lia].
      + intros Hf. rewrite (run_app_next _ _ _ _ _ _ Rc), (run_app_next _ _ _ _ _ _ Rg). simpl. rewrite Mg. simpl. rewrite (So2 Hf). reflexivity.
  Qed.

  Lemma case_ANil : P_arms ANil.
  Proof.
    intros re coll cx n r s tr D v ss rr n' cx' H HI HD HN Hre Hst. unfold Lower.sound. simpl. stuck.
  Qed.

  Lemma case_ACons : forall p bs body t, P_expr body -> P_arms t -> P_arms (ACons p bs body t).
  Proof.
    intros p bs body t IHb IHt re coll cx n r s tr D v ss rr n' cx' H HI HD HN Hre Hst. simpl in H.
    destruct (lower_arms t re coll cx n) as [[[acc_s acc_e] n1] cx1] eqn:E1.
    destruct (guard tmp p bs re (S n1)) as [[gs gc] n2] eqn:G.
    destruct (lower body (insert_all tmp (push cx1) bs (S n1)) n2) as [[[sb rb] n3] cx3] eqn:E2. inv_pair H.
    simpl in HN. destruct HN as ((Hwf & Hnd & Hincl & Hbs & Htop) & HNb & HNt).
    destruct (shape_arms _ _ _ _ _ _ _ _ _ _ _ E1) as (L1 & X1).
    destruct (shape_expr _ _ _ _ _ _ _ _ _ E2) as (L2 & X2).
    pose proof (guard_cnt _ _ _ _ _ _ _ _ G) as LG.
    unfold Lower.sound, exec_block. rewrite seval_arms_ACons.
    destruct (sshape p v) eqn:Hsh; [|stuck].
    assert (Hst1 : stable (S n1) re) by (eapply stable_mono; eauto; lia).
    destruct (guard_sound w tmp tmp_inj _ _ _ _ _ s tr _ _ _ G Hwf Hnd Hincl Htop Hre Hsh Hst1) as (sg & Rg & Fg & Mg).
    destruct (smatch p v) as [bd|] eqn:Hm.
    - (* this arm: the body *)
      destruct Mg as (Cg & Bg).
      assert (HI1 : inv r (push cx1) s (S n1)).
      { apply inv_push. eapply inv_after; [exact HI|exact HD| |exact X1|apply frame_refl|lia].
        intros x Hx. eapply nsa_bva; eauto. }
      destruct (inv_after_guard _ _ _ sg _ n2 _ _ _ _ _ HI1 HD Hbs Hnd Hincl (ltac:(unfold push; congruence)) Hm Fg Bg LG) as (HI2 & HD2).
      pose proof (IHb _ _ _ sg tr _ _ _ _ _ E2 HI2 HD2 HNb) as Sob. unfold Lower.sound, exec_block in Sob.
      destruct (seval w true (bind_all r bd) body tr) as [vb tr2|fb].
      + destruct Sob as (sb' & Rb & Vb & Fb & Stb).
        exists (upd sb' (tmp n1) (Some vb)). split.
        * rewrite (run_app_next _ _ _ _ _ _ Rg). simpl. rewrite Cg. simpl. rewrite Rb. simpl. rewrite Vb. reflexivity.
        * split. apply upd_same. split; [|apply stable_tmp; lia].
          apply frame_upd_r; try lia. intros y Hy. rewrite Fb, Fg; auto; eapply (low_mono tmp); eauto; lia.
      + intros Hf. rewrite (run_app_next _ _ _ _ _ _ Rg). simpl. rewrite Cg. simpl. rewrite (Sob Hf). reflexivity.
    - (* the later arms, from the environment the pattern statements leave *)
      assert (HIg : inv r cx sg n).
      { eapply inv_frame; [exact HI| |apply Nat.le_refl]. intros y Hy. apply Fg. eapply (low_mono tmp); eauto; lia. }
      assert (Hreg : heval sg re = Some v).
      { destruct re; simpl in *; auto. rewrite Fg; auto. }
      pose proof (IHt _ _ _ _ _ sg tr _ _ _ _ _ _ E1 HIg HD HNt Hreg Hst) as Sot. unfold Lower.sound, exec_block in Sot.
      destruct (seval_arms w true r t v tr) as [vt tr2|ft].
      + destruct Sot as (st' & Rt & Vt & Ft & Stt).
        exists (upd st' (tmp n1) (Some vt)). split.
        * rewrite (run_app_next _ _ _ _ _ _ Rg). simpl. rewrite Mg. simpl. rewrite Rt. simpl. rewrite Vt. reflexivity.
        * split. apply upd_same. split; [|apply stable_tmp; lia].
          apply frame_upd_r; try lia. intros y Hy. rewrite Ft, Fg; auto. eapply (low_mono tmp); eauto; lia.
      + intros Hf. rewrite (run_app_next _ _ _ _ _ _ Rg). simpl. rewrite Mg. simpl. rewrite (Sot Hf). reflexivity.
  Qed.

  Lemma case_EMatch : forall e cs, P_expr e -> P_arms cs -> P_expr (EMatch e cs).
  Proof.
    intros e cs IHe IHc cx n r s tr D ss re n' cx' H HI HD HN. simpl in H.
    destruct (lower e cx n) as [[[se rs] n1] cx1] eqn:E1.
    destruct (lower_arms cs rs (tmp n1) cx1 (S n1)) as [[[sa ra] n2] cx2] eqn:E2. inv_pair H.
    simpl in HN. destruct HN as (HNe & HNc).
    pose proof (IHe _ _ _ s tr _ _ _ _ _ E1 HI HD HNe) as So1. unfold Lower.sound, exec_block in So1.
    destruct (shape_expr _ _ _ _ _ _ _ _ _ E1) as (L1 & X1).
    destruct (shape_arms _ _ _ _ _ _ _ _ _ _ _ E2) as (L2 & X2).
    unfold Lower.sound, exec_block. rewrite seval_EMatch.
    destruct (seval w true r e tr) as [v tr1|f]; [|intros Hf; apply run_app_fail; auto].
    destruct So1 as (s1' & R1 & V1 & F1 & St1).
    assert (HI1 : inv r cx1 s1' (S n1)).
    { eapply inv_after; [exact HI|exact HD| |exact X1|exact F1|lia]. intros x Hx. eapply ns_bv; eauto. }
    assert (St1' : stable (S n1) rs) by (eapply stable_mono; eauto).
    pose proof (IHc _ _ _ _ _ s1' tr1 _ _ _ _ _ _ E2 HI1 HD HNc V1 St1') as So2. unfold Lower.sound, exec_block in So2.
    destruct (seval_arms w true r cs v tr1) as [v2 tr2|f2].
    - destruct So2 as (s2' & R2 & V2 & F2 & St2).
      exists s2'. split. rewrite (run_app_next _ _ _ _ _ _ R1). exact R2.
      split; [exact V2|]. split; [|exact St2]. eapply frame_comp; [exact F1|exact F2|lia|lia|lia|lia].
    - intros Hf. rewrite (run_app_next _ _ _ _ _ _ R1). auto.
  Qed.

  (* ------------------------------------------------------------------ assembly *)
  Theorem lower_sound_all : (forall e, P_expr e) /\ (forall es, P_args es) /\ (forall cs, P_arms cs) /\ (forall b, P_blk b).
  Proof.
    apply syntax_mind; intros.
    - apply case_EInt.
    - apply case_EBool.
    - apply case_EStr.
    - apply case_EVar.
    - apply case_EClass.
    - apply case_EUn; auto.
    - apply case_EBin; auto.
    - apply case_EAnd; auto.
    - apply case_EOr; auto.
    - apply case_EConcat; auto.
    - apply case_ECallM; auto.
    - apply case_ECallC; auto.
    - apply case_EMethod; auto.
    - apply case_EField; auto.
    - apply case_ETuple; auto.
    - apply case_EIf; auto.
    - apply case_EBlock; auto.
    - apply case_EMatch; auto.
    - apply case_EIfLet; auto.
    - apply case_ELambda.
    - apply case_ENil.
    - apply case_ECons; auto.
    - apply case_ANil.
    - apply case_ACons; auto.
    - apply case_BEndU.
    - apply case_BEndE; auto.
    - apply case_BLet; auto.
    - apply case_BLetT; auto.
    - apply case_BLetP; auto.
    - apply case_BExp; auto.
  Qed.


  Lemma sound_agrees : forall s tr n n' ss re o, sound s tr n n' ss re o -> agrees o (run_lowered w ss re s tr).
  Proof.
    intros s tr n n' ss re o H. unfold agrees, run_lowered. destruct o as [v tr'|f]; simpl in H.
    - destruct H as (s' & R & V & _). rewrite R, V. reflexivity.
    - destruct f; auto; rewrite H; auto; discriminate.
  Qed.

  Theorem lower_correct : forall e cx n r s tr D ss re n' cx',
    lower e cx n = (ss, re, n', cx') -> inv r cx s n -> dom_in r D -> ns D e ->
    agrees (seval w true r e tr) (run_lowered w ss re s tr).
  Proof.
    intros. eapply sound_agrees. eapply (proj1 lower_sound_all); eauto.
  Qed.

  (* a whole function body: the parameters hold the argument values under their own names, none of them is a
     temporary *)
  Lemma assoc_self : forall x (ps : list name), In x ps -> assoc x (map (fun p => (p, p)) ps) = Some x.
  Proof.
    induction ps as [|p t IH]; intros H; simpl in *. tauto.
    destruct (N.eqb x p) eqn:E. apply N.eqb_eq in E. congruence.
    destruct H as [->|H]; auto. rewrite N.eqb_refl in E. discriminate.
  Qed.

  Lemma inv_initial : forall params r,
    (forall x, r x <> None -> In x params) -> (forall p i, In p params -> tmp i <> p) ->
    inv r (initial_cx params) r 0.
  Proof.
    intros params r HD HT x v Hx. exists x.
    assert (Hin : In x params) by (apply HD; congruence).
    split. unfold initial_cx. simpl. rewrite <- map_rev. rewrite assoc_self; auto. apply in_rev. rewrite rev_involutive. auto.
    split; auto. intros i _. apply HT; auto.
  Qed.

  Theorem lower_body_correct : forall params body r ss re n,
    lower_body Pinned tmp params body = (ss, re, n) ->
    (forall x, r x <> None -> In x params) -> (forall p i, In p params -> tmp i <> p) -> ns params body ->
    forall tr, agrees (seval w true r body tr) (run_lowered w ss re r tr).
  Proof.
    intros params body r ss re n H HD HT HN tr. unfold lower_body in H.
    destruct (lower body (initial_cx params) 0) as [[[s1 r1] n1] cx1] eqn:E. inv_pair H.
    eapply lower_correct; eauto. apply inv_initial; auto.
  Qed.

  (* ------------------------------------------------------------------ short circuit *)
  Lemma and_short_circuit : forall a b cx n r s tr D ss re n' cx' tr1,
    lower (EAnd a b) cx n = (ss, re, n', cx') -> inv r cx s n -> dom_in r D -> ns D (EAnd a b) ->
    (seval w true r a tr = SVal (VInt 0) tr1 -> run_lowered w ss re s tr = SVal (VInt 0) tr1) /\
    (seval w true r a tr = SVal (VInt 1) tr1 -> agrees (seval w true r b tr1) (run_lowered w ss re s tr)).
  Proof.
    intros a b cx n r s tr D ss re n' cx' tr1 H HI HD HN.
    pose proof (lower_correct _ _ _ _ _ tr _ _ _ _ _ H HI HD HN) as A. rewrite seval_EAnd in A.
    split; intros E; rewrite E in A; simpl in A; auto.
  Qed.

  Lemma or_short_circuit : forall a b cx n r s tr D ss re n' cx' tr1,
    lower (EOr a b) cx n = (ss, re, n', cx') -> inv r cx s n -> dom_in r D -> ns D (EOr a b) ->
    (seval w true r a tr = SVal (VInt 1) tr1 -> run_lowered w ss re s tr = SVal (VInt 1) tr1) /\
    (seval w true r a tr = SVal (VInt 0) tr1 -> agrees (seval w true r b tr1) (run_lowered w ss re s tr)).
  Proof.
    intros a b cx n r s tr D ss re n' cx' tr1 H HI HD HN.
    pose proof (lower_correct _ _ _ _ _ tr _ _ _ _ _ H HI HD HN) as A. rewrite seval_EOr in A.
    split; intros E; rewrite E in A; simpl in A; auto.
  Qed.

  (* ------------------------------------------------------------------ the synthetic function of a lambda *)
  Lemma run_loads : forall n1 vs tr caps i s,
    s this_name = Some (VStruct vs) -> ~ In this_name (map (body_name tmp n1) caps) ->
    (i + length caps <= length vs)%nat ->
    exists s', run (loads tmp n1 caps i) s tr = HNext s' tr /\
      (forall y, ~ In y (map (body_name tmp n1) caps) -> s' y = s y) /\
      (NoDup (map (body_name tmp n1) caps) ->
       forall j c, nth_error caps j = Some c -> s' (body_name tmp n1 c) = nth_error vs (i + j)).
  Proof.
    intros n1 vs tr. induction caps as [|c t IH]; intros i s Hthis Hnot Hlen; simpl in *.
    - exists s. split; auto. split; auto. intros _ j c H. destruct j; discriminate.
    - rewrite Hthis. simpl.
      destruct (nth_error vs i) as [v|] eqn:Hn.
      2:{ apply nth_error_None in Hn. lia. }
      set (s1 := upd s (body_name tmp n1 c) (Some v)).
      assert (Hthis1 : s1 this_name = Some (VStruct vs)).
      { unfold s1. rewrite upd_other; [exact Hthis|]. intros E. apply Hnot. left. symmetry. exact E. }
      destruct (IH (S i) s1 Hthis1) as (s' & R & W & B).
      { intros Hin. apply Hnot. right; auto. } { lia. }
      exists s'. split; [exact R|]. split.
      + intros y Hy. rewrite W by (intros Hin; apply Hy; right; auto).
        unfold s1. apply upd_other. intros ->. apply Hy. left; auto.
      + intros Hnd j c' Hj. inversion Hnd; subst.
        destruct j as [|j]; simpl in Hj.
        * inv_pair Hj. rewrite W by auto. unfold s1. rewrite upd_same. rewrite Nat.add_0_r. auto.
        * rewrite (B H2 j c' Hj). f_equal. lia.
  Qed.

  Lemma assoc_self_in : forall x (ps : list name), In x ps -> assoc x (rev (map (fun p => (p, p)) ps)) = Some x.
  Proof.
    intros x ps H. rewrite <- map_rev. apply assoc_self. apply in_rev. rewrite rev_involutive. auto.
  Qed.

  (* Called with the context record as `_this` and the arguments under the parameter names, the synthetic function
     computes what the body of the lambda computes in the source environment that binds the captured variables to
     the fields of the context and the parameters to the arguments. *)
  Theorem lambda_fn_correct : forall caps params body n1 ps ss re n3 vs r s0,
    lambda_fn Pinned tmp caps params body n1 = (ps, ss, re, n3) ->
    NoDup caps -> length vs = length caps ->
    ~ In this_name params -> (forall c, In c caps -> ~ In c params) ->
    (forall i x, In x (this_name :: params ++ caps) -> tmp i <> x) ->
    s0 this_name = Some (VStruct vs) ->
    (forall j c, nth_error caps j = Some c -> r c = nth_error vs j) ->
    (forall p, In p params -> r p = s0 p) ->
    (forall x, r x <> None -> In x (params ++ caps)) ->
    ns (params ++ caps) body ->
    forall tr, ps = this_name :: params /\ agrees (seval w true r body tr) (run_lowered w ss re s0 tr).
  Proof.
    intros caps params body n1 ps ss re n3 vs r s0 H Hnd Hlen Hthisp Hdisj Htmp Hthis Hcaps Hpar Hdom HN tr.
    unfold lambda_fn in H.
    destruct (lower body (lambda_cx tmp caps params n1) (if memb this_name caps then S n1 else n1))
      as [[[sb rb] nb] cxb] eqn:E. inv_pair H. split; [reflexivity|].
    set (n2 := if memb this_name caps then S n1 else n1) in *.
    (* body names are distinct and none is `_this` *)
    assert (Hbn_this : ~ In this_name (map (body_name tmp n1) caps)).
    { intros Hin. apply in_map_iff in Hin as (c & Hc & Hin). unfold body_name in Hc.
      destruct (N.eqb c this_name) eqn:Ec.
      - apply (Htmp n1 this_name); auto. left; auto.
      - apply N.eqb_neq in Ec. congruence. }
    assert (Hbn_inj : forall a b, In a caps -> In b caps -> body_name tmp n1 a = body_name tmp n1 b -> a = b).
    { intros a b Ha Hb E'. unfold body_name in E'.
      destruct (N.eqb a this_name) eqn:Ea; destruct (N.eqb b this_name) eqn:Eb.
      - apply N.eqb_eq in Ea, Eb. congruence.
      - exfalso. apply (Htmp n1 b); auto. right. apply in_or_app; auto.
      - exfalso. apply (Htmp n1 a); auto. right. apply in_or_app; auto.
      - auto. }
    assert (Hbn_nd : NoDup (map (body_name tmp n1) caps)).
    { clear - Hnd Hbn_inj. induction caps as [|c t IH]; simpl. constructor.
      inversion Hnd; subst. constructor.
      - intros Hin. apply in_map_iff in Hin as (c' & Hc' & Hin).
        assert (c' = c) by (apply Hbn_inj; simpl; auto). subst. auto.
      - apply IH; auto. intros a b Ha Hb. apply Hbn_inj; simpl; auto. }
    destruct (run_loads n1 vs tr caps O s0 Hthis Hbn_this) as (s1 & R & W & B). lia.
    specialize (B Hbn_nd).
    (* the invariant of the body's manager *)
    assert (HI : inv r (lambda_cx tmp caps params n1) s1 n2).
    { intros x v Hx.
      assert (Hxd : In x (params ++ caps)) by (apply Hdom; congruence).
      apply in_app_or in Hxd as [Hxp|Hxc].
      - (* a parameter *)
        exists x. assert (Hxthis : x <> this_name) by (intros ->; auto).
        split.
        + unfold lambda_cx. destruct (memb this_name caps).
          * rewrite resolve_insert_other by auto. simpl. rewrite assoc_self_in; auto. apply in_or_app; auto.
          * simpl. rewrite assoc_self_in; auto. apply in_or_app; auto.
        + split.
          * rewrite W. rewrite <- Hpar; auto.
            intros Hin. apply in_map_iff in Hin as (c & Hc & Hin). unfold body_name in Hc.
            destruct (N.eqb c this_name). apply (Htmp n1 x); auto. right. apply in_or_app; auto.
            subst c. eapply Hdisj; eauto.
          * intros i _. apply Htmp. right. apply in_or_app; auto.
      - (* a captured variable *)
        destruct (In_nth_error _ _ Hxc) as (j & Hj).
        exists (body_name tmp n1 x). split.
        + unfold lambda_cx. destruct (N.eqb x this_name) eqn:Ex.
          * apply N.eqb_eq in Ex. subst x.
            assert (Hm : memb this_name caps = true) by (apply memb_In; auto). rewrite Hm.
            unfold body_name. rewrite N.eqb_refl. apply resolve_insert_same. discriminate.
          * assert (Hbx : body_name tmp n1 x = x) by (unfold body_name; rewrite Ex; reflexivity). rewrite Hbx.
            apply N.eqb_neq in Ex.
            assert (Hself : assoc x (rev (map (fun p => (p, p)) (params ++ map (body_name tmp n1) caps))) = Some x).
            { apply assoc_self_in. apply in_or_app; right. apply in_map_iff. exists x. split; auto. }
            destruct (memb this_name caps).
            -- rewrite resolve_insert_other by auto. simpl. rewrite Hself. reflexivity.
            -- simpl. rewrite Hself. reflexivity.
        + split.
          * rewrite (B j x Hj). simpl. rewrite <- (Hcaps j x Hj). auto.
          * unfold body_name, n2. destruct (N.eqb x this_name) eqn:Ex.
            -- apply N.eqb_eq in Ex. subst x.
               assert (Hm : memb this_name caps = true) by (apply memb_In; auto). rewrite Hm.
               apply (low_tmp tmp tmp_inj). lia.
            -- intros i _. apply Htmp. right. apply in_or_app; auto. }
    pose proof (lower_correct _ _ _ _ _ tr _ _ _ _ _ E HI Hdom HN) as A.
    unfold run_lowered, exec_block in *. rewrite run_app, R. exact A.
  Qed.
End Main.
