(* C01 (expression-lowering slice) - "the statements of every sub-expression that can be evaluated are present in
   the lowering, in evaluation order".
   `parts e cx n` lists the statement lists that `lower` obtains for the DIRECT sub-expressions of e (each lowered
   with the counter and scope stack it really gets), in evaluation order, leaving out exactly those the lowering
   itself shows dead: the right operand of `&&` / `||` when the left one lowers to a deciding literal, the branch
   of an `if` whose condition lowers to the other literal.  `flat` lists the primitive statements of a statement
   list in textual order (an IfElse contributes the statements of its branches, then itself without them).
   Theorem: flat (lower e) consists of the flat parts, in order, as contiguous blocks.  By induction the same holds
   at every depth (each part is itself a lowering).  The seeded shortcut C01-7 violates it. *)
From Coq Require Import ZArith NArith List Bool Lia.
Import ListNotations.
From SV Require Import Common.Int32 C01expr.Syntax C01expr.Lower.


Lemma flat_go : forall l,
  (fix go (l : list hstmt) : list hstmt := match l with [] => [] | x :: r => flat_stmt x ++ go r end) l = flat l.
Proof. induction l as [|a l IHl]; [reflexivity|]. rewrite IHl. reflexivity. Qed.
Lemma flat_stmt_if : forall c s1 s2 fas, flat_stmt (HIf c s1 s2 fas) = flat s1 ++ flat s2 ++ [HIf c [] [] fas].
Proof. intros. simpl. rewrite !flat_go. reflexivity. Qed.
Lemma flat_app : forall a b, flat (a ++ b) = flat a ++ flat b.
Proof. intros. unfold flat. apply flat_map_app. Qed.
Lemma flat_one : forall s, flat [s] = flat_stmt s.
Proof. intros. unfold flat. simpl. apply app_nil_r. Qed.


Lemma blocks_in : forall ps l p x, blocks ps l -> In p ps -> In x p -> In x l.
Proof.
  induction ps as [|q t IH]; intros l p x H Hp Hx; simpl in *. tauto.
  destruct H as (a & b & -> & Hb). apply in_or_app; right.
  destruct Hp as [->|Hp]. apply in_or_app; auto.
  apply in_or_app; right. eapply IH; eauto.
Qed.

Lemma blocks_prefix : forall ps l pre, blocks ps l -> blocks ps (pre ++ l).
Proof.
  intros [|p t] l pre H; simpl in *; auto.
  destruct H as (a & b & -> & Hb). exists (pre ++ a), b. split; auto. now rewrite app_assoc.
Qed.
Lemma blocks_suffix : forall ps l post, blocks ps l -> blocks ps (l ++ post).
Proof.
  induction ps as [|p t IH]; intros l post H; simpl in *; auto.
  destruct H as (a & b & -> & Hb). exists a, (b ++ post). split. now rewrite <- !app_assoc. apply IH; auto.
Qed.
Lemma blocks_cons : forall p ps l, blocks ps l -> blocks (p :: ps) (p ++ l).
Proof. intros. simpl. exists [], l. split; auto. Qed.
Lemma blocks_nil_all : forall l, blocks [] l.
Proof. intros; exact I. Qed.


Section Present.
  Variable tmp : nat -> name.
  Notation lower := (Lower.lower Pinned tmp).
  Notation lower_args := (Lower.lower_args Pinned tmp).
  Notation lower_blk := (Lower.lower_blk Pinned tmp).

  Lemma parts_args_present : forall es cx n,
    blocks (map flat (parts_args Pinned tmp es cx n)) (flat (stmts_of_l (lower_args es cx n))).
  Proof.
    induction es as [|e t IH]; intros cx n; simpl. exact I.
    destruct (lower e cx n) as [[[s1 r1] n1] cx1] eqn:E1.
    specialize (IH cx1 n1).
    destruct (lower_args t cx1 n1) as [[[s2 r2] n2] cx2] eqn:E2.
    unfold stmts_of_l in *; simpl in *. rewrite flat_app. exists [], (flat s2). split; auto.
  Qed.

  Lemma parts_blk_present : forall b cx n,
    blocks (map flat (parts_blk Pinned tmp b cx n)) (flat (stmts_of (lower_blk b cx n))).
  Proof.
    induction b as [| e | x e b IH | bs els e b IH | p bs e b IH | e b IH]; intros cx n; simpl.
    - exact I.
    - destruct (lower e cx n) as [[[s1 r1] n1] cx1] eqn:E1. unfold stmts_of; simpl.
      exists [], []. split; auto. now rewrite app_nil_r.
    - destruct x as [x|]; destruct (lower e cx n) as [[[s1 r1] n1] cx1] eqn:E1.
      + specialize (IH (insert cx1 x (tmp n1)) (S n1)).
        destruct (lower_blk b (insert cx1 x (tmp n1)) (S n1)) as [[[s2 r2] n2] cx2] eqn:E2.
        unfold stmts_of in *; simpl in *. rewrite !flat_app. exists [], (flat [HDecl (tmp n1); HAssign (tmp n1) r1] ++ flat s2).
        split; auto. apply blocks_prefix. auto.
      + specialize (IH cx1 n1).
        destruct (lower_blk b cx1 n1) as [[[s2 r2] n2] cx2] eqn:E2.
        unfold stmts_of in *; simpl in *. rewrite flat_app. exists [], (flat s2). split; auto.
    - destruct (lower e cx n) as [[[s1 r1] n1] cx1] eqn:E1.
      specialize (IH (insert_all tmp cx1 bs n1) (n1 + length bs + length els)%nat).
      destruct (lower_blk b (insert_all tmp cx1 bs n1) (n1 + length bs + length els)) as [[[s2 r2] n2] cx2] eqn:E2.
      unfold stmts_of in *; simpl in *. rewrite !flat_app. eexists [], _. split; [reflexivity|].
      apply blocks_prefix. apply blocks_prefix. auto.
    - destruct (lower e cx n) as [[[s1 r1] n1] cx1] eqn:E1.
      destruct (guard tmp p bs r1 n1) as [[gs gc] n2] eqn:G.
      specialize (IH (insert_all tmp cx1 bs n1) n2).
      destruct (lower_blk b (insert_all tmp cx1 bs n1) n2) as [[[s2 r2] n3] cx2] eqn:E2.
      unfold stmts_of in *; simpl in *. rewrite !flat_app. eexists [], _. split; [reflexivity|].
      apply blocks_prefix. auto.
    - destruct (lower e cx n) as [[[s1 r1] n1] cx1] eqn:E1.
      specialize (IH cx1 n1).
      destruct (lower_blk b cx1 n1) as [[[s2 r2] n2] cx2] eqn:E2.
      unfold stmts_of in *; simpl in *. rewrite flat_app. exists [], (flat s2). split; auto.
  Qed.

  Ltac one_part := unfold stmts_of; simpl; rewrite flat_app; simpl; eexists [], _; split; [reflexivity|exact I].
  Ltac two_parts :=
    unfold stmts_of; simpl; rewrite !flat_app; eexists [], _; split; [reflexivity|]; eexists [], _; split; [reflexivity|exact I].

  Theorem parts_present : forall e cx n,
    blocks (map flat (parts Pinned tmp e cx n)) (flat (stmts_of (lower e cx n))).
  Proof.
    destruct e; intros cx n; simpl; try exact I.
    - (* EUn *) destruct (lower e cx n) as [[[s1 r1] n1] cx1]. one_part.
    - (* EBin *)
      destruct (lower e1 cx n) as [[[s1 r1] n1] cx1]. destruct (lower e2 cx1 n1) as [[[s2 r2] n2] cx2]. two_parts.
    - (* EAnd *)
      destruct (lower e1 cx (S n)) as [[[s1 r1] n1] cx1]. destruct (lower e2 cx1 n1) as [[[s2 r2] n2] cx2].
      destruct r1 as [v| | |y]; simpl.
      + destruct (v =? 0)%Z; simpl; unfold stmts_of; simpl.
        * exists [], []. split; auto. now rewrite app_nil_r.
        * rewrite flat_app. exists [], (flat s2). split; auto. exists [], []. split; auto. now rewrite app_nil_r.
      + unfold stmts_of; simpl. rewrite flat_app, flat_one, flat_stmt_if. simpl.
        exists [], (flat s2 ++ [HIf HI31 [] [] [(tmp n, r2, ZERO)]]). split; auto.
        exists [], [HIf HI31 [] [] [(tmp n, r2, ZERO)]]. split; auto.
      + unfold stmts_of; simpl. rewrite flat_app, flat_one, flat_stmt_if. simpl.
        exists [], (flat s2 ++ [HIf (HStr s) [] [] [(tmp n, r2, ZERO)]]). split; auto.
        exists [], [HIf (HStr s) [] [] [(tmp n, r2, ZERO)]]. split; auto.
      + unfold stmts_of; simpl. rewrite flat_app, flat_one, flat_stmt_if. simpl.
        exists [], (flat s2 ++ [HIf (HVar y) [] [] [(tmp n, r2, ZERO)]]). split; auto.
        exists [], [HIf (HVar y) [] [] [(tmp n, r2, ZERO)]]. split; auto.
    - (* EOr *)
      destruct (lower e1 cx (S n)) as [[[s1 r1] n1] cx1]. destruct (lower e2 cx1 n1) as [[[s2 r2] n2] cx2].
      destruct r1 as [v| | |y]; simpl.
      + destruct (v =? 0)%Z; simpl; unfold stmts_of; simpl.
        * rewrite flat_app. exists [], (flat s2). split; auto. exists [], []. split; auto. now rewrite app_nil_r.
        * exists [], []. split; auto. now rewrite app_nil_r.
      + unfold stmts_of; simpl. rewrite flat_app, flat_one, flat_stmt_if. simpl.
        exists [], (flat s2 ++ [HIf HI31 [] [] [(tmp n, ONE, r2)]]). split; auto.
        exists [], [HIf HI31 [] [] [(tmp n, ONE, r2)]]. split; auto.
      + unfold stmts_of; simpl. rewrite flat_app, flat_one, flat_stmt_if. simpl.
        exists [], (flat s2 ++ [HIf (HStr s) [] [] [(tmp n, ONE, r2)]]). split; auto.
        exists [], [HIf (HStr s) [] [] [(tmp n, ONE, r2)]]. split; auto.
      + unfold stmts_of; simpl. rewrite flat_app, flat_one, flat_stmt_if. simpl.
        exists [], (flat s2 ++ [HIf (HVar y) [] [] [(tmp n, ONE, r2)]]). split; auto.
        exists [], [HIf (HVar y) [] [] [(tmp n, ONE, r2)]]. split; auto.
    - (* EConcat *)
      destruct (str_lits e1 e2) as [[x y]|]. exact I.
      destruct (lower e1 cx n) as [[[s1 r1] n1] cx1]. destruct (lower e2 cx1 n1) as [[[s2 r2] n2] cx2]. two_parts.
    - (* ECallM *)
      destruct (lower e cx (S n)) as [[[s0 r0] n1] cx1].
      pose proof (parts_args_present args cx1 n1) as PA.
      destruct (lower_args args cx1 n1) as [[[sa ra] n2] cx2].
      unfold stmts_of, stmts_of_l in *; simpl in *. rewrite !flat_app.
      exists [], (flat sa ++ flat [HCall (HCFn f) (r0 :: ra) (if void then None else Some (tmp n))]). split; auto.
      apply blocks_suffix; auto.
    - (* ECallC *)
      destruct (lower e cx (S n)) as [[[s0 r0] n1] cx1].
      pose proof (parts_args_present args cx1 n1) as PA.
      destruct (lower_args args cx1 n1) as [[[sa ra] n2] cx2].
      unfold stmts_of, stmts_of_l in *; simpl in *. rewrite !flat_app.
      eexists [], _. split; [reflexivity|]. apply blocks_suffix; auto.
    - (* EMethod *) destruct (lower e cx n) as [[[s1 r1] n1] cx1]. one_part.
    - (* EField *) destruct (lower e cx n) as [[[s1 r1] n1] cx1]. one_part.
    - (* ETuple *)
      pose proof (parts_args_present es cx (S n)) as PA.
      destruct (lower_args es cx (S n)) as [[[sa ra] n2] cx2].
      unfold stmts_of, stmts_of_l in *; simpl in *. rewrite flat_app. apply blocks_suffix; auto.
    - (* EIf *)
      destruct (lower e1 (push cx) n) as [[[sc rc] n1] cx1].
      destruct (is_lit rc 1).
      { destruct (lower e2 cx1 n1) as [[[s1 r1] n2] cx2]. unfold stmts_of; simpl; rewrite flat_app.
        exists [], (flat s1). split; auto. exists [], []. split; auto. now rewrite app_nil_r. }
      destruct (is_lit rc 0).
      { destruct (lower e3 cx1 n1) as [[[s1 r1] n2] cx2]. unfold stmts_of; simpl; rewrite flat_app.
        exists [], (flat s1). split; auto. exists [], []. split; auto. now rewrite app_nil_r. }
      destruct (lower e2 cx1 (S n1)) as [[[s1 r1] n2] cx2].
      destruct (lower e3 cx2 n2) as [[[s2 r2] n3] cx3].
      unfold stmts_of; simpl. rewrite flat_app, flat_one, flat_stmt_if.
      eexists [], _. split; [reflexivity|]. eexists [], _. split; [reflexivity|].
      eexists [], _. split; [reflexivity|exact I].
    - (* EBlock *)
      pose proof (parts_blk_present b (push cx) n) as PB.
      destruct (lower_blk b (push cx) n) as [[[s1 r1] n1] cx1]. exact PB.
    - (* EMatch *)
      destruct (lower e cx n) as [[[se rs] n1] cx1].
      destruct (Lower.lower_arms Pinned tmp cases rs (tmp n1) cx1 (S n1)) as [[[sa ra] n2] cx2].
      unfold stmts_of; simpl. rewrite flat_app. eexists [], _. split; [reflexivity|exact I].
    - (* EIfLet *)
      destruct (lower e1 (push cx) n) as [[[se rs] n1] cx1].
      destruct (guard tmp p bs rs n1) as [[gs gc] n2].
      destruct (is_lit gc 1).
      { destruct (lower e2 (insert_all tmp cx1 bs n1) n2) as [[[s1 r1] n3] cx3].
        unfold stmts_of; simpl. rewrite flat_app. eexists [], _. split; [reflexivity|exact I]. }
      destruct (is_lit gc 0).
      { destruct (lower e3 (insert_all tmp cx1 bs n1) n2) as [[[s1 r1] n3] cx3].
        unfold stmts_of; simpl. rewrite flat_app. eexists [], _. split; [reflexivity|exact I]. }
      destruct (lower e2 (insert_all tmp cx1 bs n1) (S n2)) as [[[s1 r1] n3] cx3].
      destruct (lower e3 cx3 n3) as [[[s2 r2] n4] cx4].
      unfold stmts_of; simpl. rewrite flat_app. eexists [], _. split; [reflexivity|exact I].
  Qed.
End Present.
