(* C01 (expression-lowering slice) - carrying C01pat's theorem on pattern statements over to the semantics of this
   slice.
   C01pat proves `lower_guard` (LateInitDeclarations + lower_matching_pattern) correct over a value type of its own
   (ints, structs, enum values) and a semantics of its own.  Here: values of this slice (also strings, function
   values, opaque references), HirSem.  The bridge:
   * `decode tab`: a C01pat value read as a value of this slice, an int z standing for `tab z` when the table has an
     entry ("label") and for itself otherwise;
   * a SIMULATION that holds for EVERY C01pat statement list: if the C01pat run from an environment ps ends normally in
     ps', the embedded statements run in HirSem from any environment that is `decode` of ps, without touching the
     history, and end in `decode` of ps' - provided the int literals of the statements are not labels and no label
     stands for the int 0 (conditions: 0 is false, anything else true, in both semantics);
   * every value v of this slice is `decode` of a C01pat value whose non-struct, non-enum parts are labels (positions),
     with the labels above any given bound; the other variables of the environment get labels of their own;
   * `smatch` / `sshape` (SrcSem) are `pmatch` / `shape_ok` through `decode`.
   Together: C01pat_lower_guard_correct, instantiated at the labelled value, gives `guard_sound` - the same statement
   about Lower.guard in HirSem. *)
From Coq Require Import ZArith NArith List Bool Lia.
Import ListNotations.
From SV Require Import Common.Int32 C01expr.Syntax C01expr.SrcSem C01expr.HirSem C01expr.Lower.
From SV Require C01pat.Sem C01pat.Lower C01pat.Proofs C01pat.Props.

Notation pvalue := C01pat.Syntax.value.
Notation PInt := C01pat.Syntax.VInt.
Notation PStructV := C01pat.Syntax.VStruct.
Notation PVariantV := C01pat.Syntax.VVariant.
Notation pexpr := C01pat.Syntax.expr.
Notation PEInt := C01pat.Syntax.EInt.
Notation PEVar := C01pat.Syntax.EVar.
Notation pstmt := C01pat.Syntax.stmt.
Notation penv := (name -> option C01pat.Syntax.value).

(* ------------------------------------------------------------------ induction on C01pat statements *)
Section StmtInd.
  Variable P : pstmt -> Prop.
  Hypothesis HIndex_ : forall x e i, P (SIndex x e i).
  Hypothesis HDestr_ : forall e tag bs s1 s2 fas, Forall P s1 -> Forall P s2 -> P (SDestr e tag bs s1 s2 fas).
  Hypothesis HIf_ : forall c s1 s2 fas, Forall P s1 -> Forall P s2 -> P (SIf c s1 s2 fas).
  Hypothesis HDecl_ : forall x, P (SDecl x).
  Hypothesis HAssign_ : forall x e, P (SAssign x e).
  Hypothesis HPanic_ : forall x, P (SPanic x).
  Fixpoint pstmt_ind' (s : pstmt) : P s :=
    let all := fix all (l : list pstmt) : Forall P l :=
      match l with [] => Forall_nil P | x :: t => Forall_cons x (pstmt_ind' x) (all t) end in
    match s with
    | SIndex x e i => HIndex_ x e i
    | SDestr e tag bs s1 s2 fas => HDestr_ e tag bs s1 s2 fas (all s1) (all s2)
    | SIf c s1 s2 fas => HIf_ c s1 s2 fas (all s1) (all s2)
    | SDecl x => HDecl_ x
    | SAssign x e => HAssign_ x e
    | SPanic x => HPanic_ x
    end.
End StmtInd.

(* the embedding, unfolded *)
Lemma emb_go : forall l,
  (fix go (l : list pstmt) : list hstmt := match l with [] => [] | x :: t => emb x :: go t end) l = embs l.
Proof. induction l as [|a l IH]; [reflexivity|]. simpl. rewrite IH. reflexivity. Qed.
Lemma emb_if : forall c s1 s2 fas, emb (SIf c s1 s2 fas) = HIf (emb_e c) (embs s1) (embs s2) (map emb_fa fas).
Proof. intros. simpl. rewrite !emb_go. reflexivity. Qed.
Lemma emb_destr : forall e tag bs s1 s2 fas,
  emb (SDestr e tag bs s1 s2 fas) = HDestr (emb_e e) tag bs (embs s1) (embs s2) (map emb_fa fas).
Proof. intros. simpl. rewrite !emb_go. reflexivity. Qed.

(* the int literals of statements *)
Definition lits_e (e : pexpr) : list Z := match e with PEInt z => [z] | PEVar _ => [] end.
Definition lits_fa (fa : name * pexpr * pexpr) : list Z := lits_e (snd (fst fa)) ++ lits_e (snd fa).
Fixpoint lits (s : pstmt) : list Z :=
  let fix go (l : list pstmt) : list Z := match l with [] => [] | x :: t => lits x ++ go t end in
  match s with
  | SIndex _ e _ => lits_e e
  | SDestr e _ _ s1 s2 fas => lits_e e ++ go s1 ++ go s2 ++ flat_map lits_fa fas
  | SIf c s1 s2 fas => lits_e c ++ go s1 ++ go s2 ++ flat_map lits_fa fas
  | SDecl _ => []
  | SAssign _ e => lits_e e
  | SPanic _ => []
  end.
Definition lits_l (ss : list pstmt) : list Z := flat_map lits ss.
Lemma lits_go : forall l,
  (fix go (l : list pstmt) : list Z := match l with [] => [] | x :: t => lits x ++ go t end) l = lits_l l.
Proof. induction l as [|a l IH]; [reflexivity|]. simpl. rewrite IH. reflexivity. Qed.
Lemma lits_if : forall c s1 s2 fas,
  lits (SIf c s1 s2 fas) = lits_e c ++ lits_l s1 ++ lits_l s2 ++ flat_map lits_fa fas.
Proof. intros. simpl. rewrite !lits_go. reflexivity. Qed.
Lemma lits_destr : forall e tag bs s1 s2 fas,
  lits (SDestr e tag bs s1 s2 fas) = lits_e e ++ lits_l s1 ++ lits_l s2 ++ flat_map lits_fa fas.
Proof. intros. simpl. rewrite !lits_go. reflexivity. Qed.

Section Decode.
  Variable tab : Z -> option value.

  Fixpoint decode (pv : pvalue) : value :=
    match pv with
    | PInt z => match tab z with Some w => w | None => VInt z end
    | PStructV l => VStruct ((fix go (l : list pvalue) : list value := match l with [] => [] | x :: r => decode x :: go r end) l)
    | PVariantV t l => VVariant t ((fix go (l : list pvalue) : list value := match l with [] => [] | x :: r => decode x :: go r end) l)
    end.
  Lemma decode_go : forall l,
    (fix go (l : list pvalue) : list value := match l with [] => [] | x :: r => decode x :: go r end) l = map decode l.
  Proof. induction l as [|a l IH]; [reflexivity|]. simpl. rewrite IH. reflexivity. Qed.
  Lemma decode_struct : forall l, decode (PStructV l) = VStruct (map decode l).
  Proof. intros. simpl. rewrite decode_go. reflexivity. Qed.
  Lemma decode_variant : forall t l, decode (PVariantV t l) = VVariant t (map decode l).
  Proof. intros. simpl. rewrite decode_go. reflexivity. Qed.

  (* the environments correspond: pointwise *)
  Definition rel (ps : name -> option pvalue) (s : name -> option value) : Prop :=
    forall y, s y = option_map decode (ps y).

  Lemma rel_upd : forall ps s x pv, rel ps s -> rel (C01pat.Sem.upd ps x (Some pv)) (upd s x (Some (decode pv))).
  Proof.
    intros ps s x pv H y. unfold C01pat.Sem.upd, upd. destruct (N.eqb y x); auto.
  Qed.
  Lemma rel_upd_none : forall ps s x, rel ps s -> rel (C01pat.Sem.upd ps x None) (upd s x None).
  Proof.
    intros ps s x H y. unfold C01pat.Sem.upd, upd. destruct (N.eqb y x); auto.
  Qed.

  Hypothesis tab0 : tab 0%Z = None.
  Hypothesis tab_nz : forall z w, tab z = Some w -> w <> VInt 0.

  Lemma heval_emb : forall ps s e, rel ps s -> (forall z, In z (lits_e e) -> tab z = None) ->
    heval s (emb_e e) = option_map decode (C01pat.Sem.eval e ps).
  Proof.
    intros ps s [z|x] H HL; simpl.
    - rewrite (HL z) by (left; auto). reflexivity.
    - apply H.
  Qed.

  Lemma htruth_decode : forall z, htruth (decode (PInt z)) = negb (Z.eqb z 0).
  Proof.
    intros z. simpl. destruct (tab z) as [w|] eqn:T.
    - destruct (Z.eqb z 0) eqn:E. apply Z.eqb_eq in E. subst. congruence.
      simpl. pose proof (tab_nz _ _ T) as Hnz. destruct w as [k| | | | |]; try reflexivity. destruct k; try reflexivity. congruence.
    - destruct z; reflexivity.
  Qed.

  Lemma sim_final_assign : forall first fas ps s ps',
    rel ps s -> (forall z, In z (flat_map lits_fa fas) -> tab z = None) ->
    C01pat.Sem.final_assign first fas ps = Some ps' ->
    exists s', final_assign first (map emb_fa fas) s = Some s' /\ rel ps' s'.
  Proof.
    intros first. induction fas as [|[[x e1] e2] t IH]; intros ps s ps' H HL Hf; simpl in *.
    - inversion Hf; subst. eauto.
    - destruct (C01pat.Sem.eval (if first then e1 else e2) ps) as [pw|] eqn:Ev; [|discriminate].
      assert (Hev : heval s (if first then emb_e e1 else emb_e e2) = Some (decode pw)).
      { destruct first; erewrite heval_emb; eauto; try (rewrite Ev; reflexivity);
          intros z Hz; apply HL; unfold lits_fa; simpl; rewrite !in_app_iff; auto. }
      rewrite Hev.
      apply (IH _ (upd s x (Some (decode pw)))) in Hf; auto.
      + apply rel_upd; auto.
      + intros z Hz. apply HL. apply in_or_app; auto.
  Qed.

  Lemma sim_bind_payload : forall bs vs ps s ps1,
    rel ps s -> C01pat.Sem.bind_payload bs vs ps = Some ps1 ->
    exists s1, bind_payload bs (map decode vs) s = Some s1 /\ rel ps1 s1.
  Proof.
    induction bs as [|b bt IH]; intros vs ps s ps1 H Hb; simpl in *.
    - inversion Hb; subst. eauto.
    - destruct vs as [|v vt]; [discriminate|]. simpl.
      destruct b as [x|]; eapply IH; eauto. apply rel_upd; auto.
  Qed.

  Section Sim.
    Variable w : world.
    Variable tr : trace.

    Definition sim_stmt (st : pstmt) : Prop :=
      forall ps s ps', rel ps s -> (forall z, In z (lits st) -> tab z = None) ->
        C01pat.Sem.run_stmt st ps = C01pat.Sem.Ok ps' ->
        exists s', exec w (emb st) s tr = HNext s' tr /\ rel ps' s'.

    Lemma sim_list : forall ss, Forall sim_stmt ss ->
      forall ps s ps', rel ps s -> (forall z, In z (lits_l ss) -> tab z = None) ->
        C01pat.Sem.run_block ss ps = C01pat.Sem.Ok ps' ->
        exists s', exec_list (exec w) (embs ss) s tr = HNext s' tr /\ rel ps' s'.
    Proof.
      induction 1 as [|st t Hst Ht IH]; intros ps s ps' H HL Hr; simpl in *.
      - inversion Hr; subst. eauto.
      - destruct (C01pat.Sem.run_stmt st ps) as [ps1| |] eqn:R1; try discriminate.
        destruct (Hst ps s ps1 H) as (s1 & E1 & H1); auto.
        { intros z Hz. apply HL. apply in_or_app; auto. }
        rewrite E1. eapply IH; eauto. intros z Hz. apply HL. apply in_or_app; auto.
    Qed.

    Lemma sim_finish : forall first fas ps1 s1 ps',
      rel ps1 s1 -> (forall z, In z (flat_map lits_fa fas) -> tab z = None) ->
      C01pat.Sem.finish first fas (C01pat.Sem.Ok ps1) = C01pat.Sem.Ok ps' ->
      exists s', finish first (map emb_fa fas) (HNext s1 tr) = HNext s' tr /\ rel ps' s'.
    Proof.
      intros first fas ps1 s1 ps' H HL Hf. simpl in *.
      destruct (C01pat.Sem.final_assign first fas ps1) as [pf|] eqn:F; [|discriminate]. inversion Hf; subst.
      destruct (sim_final_assign _ _ _ _ _ H HL F) as (s' & E & H'). rewrite E. eauto.
    Qed.

    Lemma sim_all : forall st, sim_stmt st.
    Proof.
      apply pstmt_ind'; unfold sim_stmt.
      - (* SIndex *)
        intros x e i ps s ps' H HL Hr. simpl in Hr.
        destruct (C01pat.Sem.eval e ps) as [[z|vs|t vs]|] eqn:Ev; try discriminate.
        destruct (nth_error vs i) as [pw|] eqn:Hn; [|discriminate]. inversion Hr; subst.
        simpl. rewrite (heval_emb _ _ _ H) by (intros z Hz; apply HL; auto). rewrite Ev. simpl.
        rewrite decode_go. unfold field_sem. rewrite (map_nth_error decode _ _ Hn).
        eexists. split; [reflexivity|]. apply rel_upd; auto.
      - (* SDestr *)
        intros e tag bs s1 s2 fas IH1 IH2 ps s ps' H HL Hr.
        rewrite C01pat.Proofs.run_destr in Hr. rewrite lits_destr in HL. rewrite emb_destr.
        destruct (C01pat.Sem.eval e ps) as [[z|vs|t vs]|] eqn:Ev; try discriminate.
        simpl exec. rewrite (heval_emb _ _ _ H) by (intros z Hz; apply HL; apply in_or_app; auto). rewrite Ev. simpl.
        rewrite decode_go.
        destruct (Nat.eqb t tag).
        + destruct (C01pat.Sem.bind_payload bs vs ps) as [ps1|] eqn:B; [|discriminate].
          destruct (sim_bind_payload _ _ _ _ _ H B) as (sb & Eb & Hb). rewrite Eb.
          destruct (C01pat.Sem.run_block s1 ps1) as [pr| |] eqn:R1; try discriminate.
          destruct (sim_list s1 IH1 ps1 sb pr Hb) as (sr & Er & Hr'); auto.
          { intros z Hz. apply HL. rewrite !in_app_iff. auto. }
          rewrite Er. eapply sim_finish; eauto. intros z Hz. apply HL. rewrite !in_app_iff. auto.
        + destruct (C01pat.Sem.run_block s2 ps) as [pr| |] eqn:R1; try discriminate.
          destruct (sim_list s2 IH2 ps s pr H) as (sr & Er & Hr'); auto.
          { intros z Hz. apply HL. rewrite !in_app_iff. auto. }
          rewrite Er. eapply sim_finish; eauto. intros z Hz. apply HL. rewrite !in_app_iff. auto.
      - (* SIf *)
        intros c s1 s2 fas IH1 IH2 ps s ps' H HL Hr.
        rewrite C01pat.Proofs.run_if in Hr. rewrite lits_if in HL. rewrite emb_if.
        destruct (C01pat.Sem.eval c ps) as [[z|vs|t vs]|] eqn:Ev; try discriminate.
        simpl exec. rewrite (heval_emb _ _ _ H) by (intros z' Hz; apply HL; apply in_or_app; auto). rewrite Ev.
        unfold option_map. rewrite htruth_decode. simpl in Hr.
        destruct (negb (Z.eqb z 0)).
        + destruct (C01pat.Sem.run_block s1 ps) as [pr| |] eqn:R1; try discriminate.
          destruct (sim_list s1 IH1 ps s pr H) as (sr & Er & Hr'); auto.
          { intros z' Hz. apply HL. rewrite !in_app_iff. auto. }
          rewrite Er. eapply sim_finish; eauto. intros z' Hz. apply HL. rewrite !in_app_iff. auto.
        + destruct (C01pat.Sem.run_block s2 ps) as [pr| |] eqn:R1; try discriminate.
          destruct (sim_list s2 IH2 ps s pr H) as (sr & Er & Hr'); auto.
          { intros z' Hz. apply HL. rewrite !in_app_iff. auto. }
          rewrite Er. eapply sim_finish; eauto. intros z' Hz. apply HL. rewrite !in_app_iff. auto.
      - (* SDecl *)
        intros x ps s ps' H HL Hr. simpl in *. inversion Hr; subst. eexists. split; [reflexivity|]. apply rel_upd_none; auto.
      - (* SAssign *)
        intros x e ps s ps' H HL Hr. simpl in *.
        destruct (C01pat.Sem.eval e ps) as [pw|] eqn:Ev; [|discriminate]. inversion Hr; subst.
        rewrite (heval_emb _ _ _ H) by (intros z Hz; apply HL; auto). rewrite Ev. simpl.
        eexists. split; [reflexivity|]. apply rel_upd; auto.
      - (* SPanic *)
        intros x ps s ps' H HL Hr. simpl in Hr. discriminate.
    Qed.

    (* the simulation, for every statement list *)
    Theorem simulation : forall ss ps s ps',
      rel ps s -> (forall z, In z (lits_l ss) -> tab z = None) ->
      C01pat.Sem.run_block ss ps = C01pat.Sem.Ok ps' ->
      exists s', exec_list (exec w) (embs ss) s tr = HNext s' tr /\ rel ps' s'.
    Proof.
      intros ss. apply sim_list. apply Forall_forall. intros st _. apply sim_all.
    Qed.
  End Sim.

  (* ------------------------------------------------------------------ pmatch / shape_ok through decode *)
  Definition leafy (w : value) : Prop := match w with VStruct _ | VVariant _ _ => False | _ => True end.
  (* every int of pv stands for a value that is neither a struct nor an enum value *)
  Fixpoint wfp (pv : pvalue) : Prop :=
    match pv with
    | PInt z => leafy (decode (PInt z))
    | PStructV l => (fix all (l : list pvalue) : Prop := match l with [] => True | x :: t => wfp x /\ all t end) l
    | PVariantV _ l => (fix all (l : list pvalue) : Prop := match l with [] => True | x :: t => wfp x /\ all t end) l
    end.
  Lemma wfp_all : forall l,
    (fix all (l : list pvalue) : Prop := match l with [] => True | x :: t => wfp x /\ all t end) l <-> Forall wfp l.
  Proof.
    induction l as [|a l IH]; simpl. split; auto. split.
    - intros (H1 & H2). constructor; auto. apply IH; auto.
    - intros H. inversion H; subst. split; auto. apply IH; auto.
  Qed.

  Definition dec_b (b : list (name * pvalue)) : list (name * value) := map (fun xw => (fst xw, decode (snd xw))) b.
  Lemma dec_b_app : forall a b, dec_b (a ++ b) = dec_b a ++ dec_b b.
  Proof. intros. unfold dec_b. apply map_app. Qed.

  Lemma leafy_not_struct : forall w, leafy w -> match w with VStruct _ | VVariant _ _ => False | _ => True end.
  Proof. auto. Qed.

  Lemma smatch_list_decode : forall ps,
    Forall (fun p => forall pv, wfp pv -> smatch p (decode pv) = option_map dec_b (C01pat.Sem.pmatch p pv)) ps ->
    forall l, Forall wfp l ->
      smatch_list smatch ps (map decode l) = option_map dec_b (C01pat.Sem.pmatch_list C01pat.Sem.pmatch ps l).
  Proof.
    induction 1 as [|p t Hp Ht IH]; intros l Hl; simpl. reflexivity.
    destruct l as [|v r]; simpl. reflexivity. inversion Hl; subst.
    rewrite Hp by auto. destruct (C01pat.Sem.pmatch p v) as [b|]; simpl; [|reflexivity].
    rewrite IH by auto. destruct (C01pat.Sem.pmatch_list C01pat.Sem.pmatch t r); simpl; [|reflexivity].
    rewrite dec_b_app. reflexivity.
  Qed.

  Lemma smatch_els_decode : forall els,
    Forall (fun el => forall pv, wfp pv -> smatch (snd el) (decode pv) = option_map dec_b (C01pat.Sem.pmatch (snd el) pv)) els ->
    forall l, Forall wfp l ->
      smatch_els smatch (map decode l) els = option_map dec_b (C01pat.Sem.pmatch_els C01pat.Sem.pmatch l els).
  Proof.
    induction 1 as [|el t Hp Ht IH]; intros l Hl; simpl. reflexivity.
    destruct (nth_error l (fst el)) as [pw|] eqn:Hn.
    - rewrite (map_nth_error decode _ _ Hn).
      assert (Hw : wfp pw) by (eapply Forall_forall; [exact Hl|eapply nth_error_In; eauto]).
      rewrite Hp by auto. destruct (C01pat.Sem.pmatch (snd el) pw) as [b|]; simpl; [|reflexivity].
      rewrite IH by auto. destruct (C01pat.Sem.pmatch_els C01pat.Sem.pmatch l t); simpl; [|reflexivity].
      rewrite dec_b_app. reflexivity.
    - assert (Hn' : nth_error (map decode l) (fst el) = None).
      { apply nth_error_None. rewrite map_length. apply nth_error_None. auto. }
      rewrite Hn'. reflexivity.
  Qed.

  Lemma leafy_smatch : forall p w, leafy w ->
    match p with PTuple _ | PObject _ | PVariant _ _ => smatch p w = None | _ => True end.
  Proof. intros [] w H; auto; destruct w; simpl in *; tauto || reflexivity. Qed.
  Lemma leafy_sshape : forall p w, leafy w ->
    match p with PTuple _ | PObject _ | PVariant _ _ => sshape p w = false | _ => True end.
  Proof. intros [] w H; auto; destruct w; simpl in *; tauto || reflexivity. Qed.

  Lemma smatch_decode : forall p pv, wfp pv -> smatch p (decode pv) = option_map dec_b (C01pat.Sem.pmatch p pv).
  Proof.
    induction p using pat_ind'; intros pv Hw.
    - reflexivity.
    - reflexivity.
    - (* PTuple *)
      destruct pv as [z|l|t l].
      + change (leafy (decode (PInt z))) in Hw. rewrite (leafy_smatch (PTuple ps) _ Hw). reflexivity.
      + rewrite decode_struct. simpl. apply smatch_list_decode; auto. apply wfp_all. exact Hw.
      + rewrite decode_variant. reflexivity.
    - (* PObject *)
      destruct pv as [z|l|t l].
      + change (leafy (decode (PInt z))) in Hw. rewrite (leafy_smatch (PObject els) _ Hw). reflexivity.
      + rewrite decode_struct. simpl. apply smatch_els_decode; auto. apply wfp_all. exact Hw.
      + rewrite decode_variant. reflexivity.
    - (* PVariant *)
      destruct pv as [z|l|t l].
      + change (leafy (decode (PInt z))) in Hw. rewrite (leafy_smatch (PVariant tag ps) _ Hw). reflexivity.
      + rewrite decode_struct. reflexivity.
      + rewrite decode_variant. simpl. destruct (Nat.eqb t tag); [|reflexivity].
        apply smatch_list_decode; auto. apply wfp_all. exact Hw.
    - (* POr *)
      simpl. induction H as [|q t Hq Ht IH]; simpl. reflexivity.
      rewrite Hq by auto. destruct (C01pat.Sem.pmatch q pv); simpl; auto.
  Qed.

  Lemma sshape_decode : forall p pv, wfp pv -> sshape p (decode pv) = true -> shape_ok p pv.
  Proof.
    induction p using pat_ind'; intros pv Hw Hs.
    - exact I.
    - exact I.
    - (* PTuple *)
      rewrite C01pat.Proofs.shape_tuple. destruct pv as [z|l|t l].
      + change (leafy (decode (PInt z))) in Hw. rewrite (leafy_sshape (PTuple ps) _ Hw) in Hs. discriminate.
      + rewrite decode_struct in Hs. simpl in Hs. apply wfp_all in Hw. clear - H Hw Hs.
        revert l Hw Hs. induction H as [|q t Hq Ht IH]; intros l Hw Hs; simpl. exact I.
        destruct l as [|v r]; simpl in Hs; [discriminate|]. inversion Hw; subst.
        apply andb_true_iff in Hs as (Hsa & Hsb). split; auto.
      + rewrite decode_variant in Hs. discriminate.
    - (* PObject *)
      rewrite C01pat.Proofs.shape_object. destruct pv as [z|l|t l].
      + change (leafy (decode (PInt z))) in Hw. rewrite (leafy_sshape (PObject els) _ Hw) in Hs. discriminate.
      + rewrite decode_struct in Hs. simpl in Hs. apply wfp_all in Hw. clear - H Hw Hs.
        induction H as [|el t Hq Ht IH]; simpl. exact I.
        simpl in Hs. apply andb_true_iff in Hs as (Hsa & Hsb).
        destruct (nth_error l (fst el)) as [pw|] eqn:Hn.
        * rewrite (map_nth_error decode _ _ Hn) in Hsa. split; auto. apply Hq; auto.
          eapply Forall_forall; [exact Hw|eapply nth_error_In; eauto].
        * assert (Hn' : nth_error (map decode l) (fst el) = None).
          { apply nth_error_None. rewrite map_length. apply nth_error_None. auto. }
          rewrite Hn' in Hsa. discriminate.
      + rewrite decode_variant in Hs. discriminate.
    - (* PVariant *)
      rewrite C01pat.Proofs.shape_variant. destruct pv as [z|l|t l].
      + change (leafy (decode (PInt z))) in Hw. rewrite (leafy_sshape (PVariant tag ps) _ Hw) in Hs. discriminate.
      + rewrite decode_struct in Hs. discriminate.
      + rewrite decode_variant in Hs. simpl in Hs. intros ->. rewrite Nat.eqb_refl in Hs.
        apply wfp_all in Hw. clear - H Hw Hs.
        revert l Hw Hs. induction H as [|q t' Hq Ht IH]; intros l Hw Hs; simpl.
        * destruct l; [exact I|discriminate].
        * destruct l as [|v r]; simpl in Hs; [discriminate|]. inversion Hw; subst.
          apply andb_true_iff in Hs as (Hsa & Hsb). split; auto.
    - (* POr *)
      rewrite C01pat.Proofs.shape_or. simpl in Hs. induction H as [|q t Hq Ht IH]; simpl. exact I.
      simpl in Hs. apply andb_true_iff in Hs as (Hsa & Hsb). split; auto.
  Qed.
End Decode.

(* ------------------------------------------------------------------ every value is the decoding of a labelled C01pat value *)
Section ValueInd.
  Variable P : value -> Prop.
  Hypothesis HI : forall z, P (VInt z).
  Hypothesis HS : forall s, P (VStr s).
  Hypothesis HT : forall vs, Forall P vs -> P (VStruct vs).
  Hypothesis HV : forall t vs, Forall P vs -> P (VVariant t vs).
  Hypothesis HC : forall f c, P (VClo f c).
  Hypothesis HR : forall r, P (VRef r).
  Fixpoint value_ind' (v : value) : P v :=
    let all := fix all (l : list value) : Forall P l :=
      match l with [] => Forall_nil P | x :: t => Forall_cons x (value_ind' x) (all t) end in
    match v with
    | VInt z => HI z
    | VStr s => HS s
    | VStruct vs => HT vs (all vs)
    | VVariant t vs => HV t vs (all vs)
    | VClo f c => HC f c
    | VRef r => HR r
    end.
End ValueInd.

Definition is_zero (w : value) : bool := match w with VInt 0 => true | _ => false end.

Section Enc.
  Variable B : Z.     (* the first label *)

  (* the k-th part of v that is neither a struct nor an enum value (nor the int 0) becomes the int B + k *)
  Fixpoint enc (v : value) (k : nat) {struct v} : pvalue * nat :=
    let encs := fix encs (l : list value) (k : nat) {struct l} : list pvalue * nat :=
      match l with
      | [] => ([], k)
      | x :: r => let '(px, k1) := enc x k in let '(pr, k2) := encs r k1 in (px :: pr, k2)
      end in
    match v with
    | VStruct vs => let '(l, k') := encs vs k in (PStructV l, k')
    | VVariant t vs => let '(l, k') := encs vs k in (PVariantV t l, k')
    | w => if is_zero w then (PInt 0, k) else (PInt (B + Z.of_nat k), S k)
    end.
  Fixpoint encs (l : list value) (k : nat) {struct l} : list pvalue * nat :=
    match l with
    | [] => ([], k)
    | x :: r => let '(px, k1) := enc x k in let '(pr, k2) := encs r k1 in (px :: pr, k2)
    end.
  Lemma enc_struct : forall vs k, enc (VStruct vs) k = let '(l, k') := encs vs k in (PStructV l, k').
  Proof.
    intros. simpl.
    assert (E : forall l k, (fix encs (l : list value) (k : nat) {struct l} : list pvalue * nat :=
              match l with [] => ([], k) | x :: r => let '(px, k1) := enc x k in let '(pr, k2) := encs r k1 in (px :: pr, k2) end) l k
            = encs l k).
    { induction l as [|a l IH]; intros k0; [reflexivity|]. simpl. destruct (enc a k0). rewrite IH. reflexivity. }
    rewrite E. reflexivity.
  Qed.
  Lemma enc_variant : forall t vs k, enc (VVariant t vs) k = let '(l, k') := encs vs k in (PVariantV t l, k').
  Proof.
    intros. simpl.
    assert (E : forall l k, (fix encs (l : list value) (k : nat) {struct l} : list pvalue * nat :=
              match l with [] => ([], k) | x :: r => let '(px, k1) := enc x k in let '(pr, k2) := encs r k1 in (px :: pr, k2) end) l k
            = encs l k).
    { induction l as [|a l IH]; intros k0; [reflexivity|]. simpl. destruct (enc a k0). rewrite IH. reflexivity. }
    rewrite E. reflexivity.
  Qed.

  (* the labelled parts, in the order of their labels *)
  Fixpoint leaves (v : value) : list value :=
    match v with
    | VStruct vs => (fix go (l : list value) : list value := match l with [] => [] | x :: r => leaves x ++ go r end) vs
    | VVariant _ vs => (fix go (l : list value) : list value := match l with [] => [] | x :: r => leaves x ++ go r end) vs
    | w => if is_zero w then [] else [w]
    end.
  Lemma leaves_go : forall l,
    (fix go (l : list value) : list value := match l with [] => [] | x :: r => leaves x ++ go r end) l = flat_map leaves l.
  Proof. induction l as [|a l IH]; [reflexivity|]. simpl. rewrite IH. reflexivity. Qed.

  Section Spec.
    Variable tab : Z -> option value.
    Hypothesis tab0 : tab 0%Z = None.

    (* what is asked of the table for the labels k, k+1, .. of a value with leaves lv *)
    Definition covers (lv : list value) (k : nat) : Prop :=
      forall j w, nth_error lv j = Some w -> tab (B + Z.of_nat (k + j)) = Some w.

    Lemma covers_app_l : forall a b k, covers (a ++ b) k -> covers a k.
    Proof. intros a b k H j w Hj. apply H. rewrite nth_error_app1; auto. apply nth_error_Some. congruence. Qed.
    Lemma covers_app_r : forall a b k, covers (a ++ b) k -> covers b (k + length a).
    Proof.
      intros a b k H j w Hj. replace (k + length a + j)%nat with (k + (length a + j))%nat by lia. apply H.
      rewrite nth_error_app2 by lia. replace (length a + j - length a)%nat with j by lia. auto.
    Qed.

    Definition enc_ok (v : value) : Prop :=
      forall k, snd (enc v k) = (k + length (leaves v))%nat /\
                (covers (leaves v) k -> decode tab (fst (enc v k)) = v /\ wfp tab (fst (enc v k))).

    Lemma leaf_ok : forall w, (match w with VStruct _ | VVariant _ _ => False | _ => True end) ->
      (forall k, enc w k = if is_zero w then (PInt 0, k) else (PInt (B + Z.of_nat k), S k)) ->
      leaves w = (if is_zero w then [] else [w]) -> enc_ok w.
    Proof.
      intros w Hl He Hlv k. rewrite He, Hlv. destruct (is_zero w) eqn:Z.
      - simpl. split; [lia|]. intros _. rewrite tab0.
        destruct w as [z| | | | |]; try discriminate. destruct z; try discriminate. split; [reflexivity|exact I].
      - simpl. split; [lia|]. intros Hc. specialize (Hc O w eq_refl). rewrite Nat.add_0_r in Hc. rewrite Hc.
        split; [reflexivity|]. destruct w; simpl in *; tauto.
    Qed.

    Lemma encs_ok : forall l, Forall enc_ok l ->
      forall k, snd (encs l k) = (k + length (flat_map leaves l))%nat /\
                (covers (flat_map leaves l) k -> map (decode tab) (fst (encs l k)) = l /\ Forall (wfp tab) (fst (encs l k))).
    Proof.
      induction 1 as [|x r Hx Hr IH]; intros k; simpl.
      - split; [lia|]. intros _. split; constructor.
      - destruct (Hx k) as (Ex & Dx). destruct (enc x k) as [px k1] eqn:E1. simpl in Ex, Dx. subst k1.
        destruct (IH (k + length (leaves x))%nat) as (Er & Dr).
        destruct (encs r (k + length (leaves x))) as [pr k2] eqn:E2. simpl in Er, Dr. subst k2. simpl.
        rewrite app_length. split; [lia|]. intros Hc.
        destruct (Dx (covers_app_l _ _ _ Hc)) as (D1 & W1).
        destruct (Dr (covers_app_r _ _ _ Hc)) as (D2 & W2).
        split. rewrite D1, D2. reflexivity. constructor; auto.
    Qed.

    Lemma enc_all : forall v, enc_ok v.
    Proof.
      apply value_ind'.
      - intros z. apply leaf_ok; simpl; auto.
      - intros s. apply leaf_ok; simpl; auto.
      - intros vs H k. rewrite enc_struct. destruct (encs_ok vs H k) as (E & D).
        destruct (encs vs k) as [l k'] eqn:EE. simpl in *. rewrite leaves_go. split; auto.
        intros Hc. destruct (D Hc) as (D1 & W1). rewrite decode_go, D1. split; auto.
        apply wfp_all. exact W1.
      - intros t vs H k. rewrite enc_variant. destruct (encs_ok vs H k) as (E & D).
        destruct (encs vs k) as [l k'] eqn:EE. simpl in *. rewrite leaves_go. split; auto.
        intros Hc. destruct (D Hc) as (D1 & W1). rewrite decode_go, D1. split; auto.
        apply wfp_all. exact W1.
      - intros f c. apply leaf_ok; simpl; auto.
      - intros r. apply leaf_ok; simpl; auto.
    Qed.
  End Spec.

  Lemma leaves_nonzero : forall v w, In w (leaves v) -> w <> VInt 0.
  Proof.
    apply (value_ind' (fun v => forall w, In w (leaves v) -> w <> VInt 0)); simpl.
    - intros z w H. destruct z; simpl in H; try tauto; destruct H as [<-|[]]; discriminate.
    - intros s w [<-|[]]. discriminate.
    - intros vs H w Hin. rewrite leaves_go in Hin. apply in_flat_map in Hin as (x & Hx & Hw).
      eapply Forall_forall in H; eauto.
    - intros t vs H w Hin. rewrite leaves_go in Hin. apply in_flat_map in Hin as (x & Hx & Hw).
      eapply Forall_forall in H; eauto.
    - intros f c w [<-|[]]. discriminate.
    - intros r w [<-|[]]. discriminate.
  Qed.

  (* the table for a scrutinee value with leaves lv and an environment s: labels B .. B+|lv|-1 are the leaves,
     label B + |lv| + y is what the variable y holds (unless that is the int 0) *)
  Definition table (lv : list value) (s : name -> option value) (z : Z) : option value :=
    if Z.ltb z B then None else
    let d := Z.to_nat (z - B) in
    if Nat.ltb d (length lv) then nth_error lv d
    else match s (N.of_nat (d - length lv)) with
         | Some w => if is_zero w then None else Some w
         | None => None
         end.
  Definition abs_env (lv : list value) (s : name -> option value) (y : name) : option pvalue :=
    match s y with
    | Some w => Some (if is_zero w then PInt 0 else PInt (B + Z.of_nat (length lv) + Z.of_N y))
    | None => None
    end.

  Lemma table_low : forall lv s z, (z < B)%Z -> table lv s z = None.
  Proof. intros. unfold table. apply Z.ltb_lt in H. rewrite H. reflexivity. Qed.
  Lemma table_leaf : forall lv s j w, (0 <= B)%Z -> nth_error lv j = Some w -> table lv s (B + Z.of_nat j) = Some w.
  Proof.
    intros lv s j w HB Hj. unfold table.
    assert (E : Z.ltb (B + Z.of_nat j) B = false) by (apply Z.ltb_ge; lia). rewrite E.
    replace (Z.to_nat (B + Z.of_nat j - B)) with j by lia.
    assert (L : Nat.ltb j (length lv) = true) by (apply Nat.ltb_lt; apply nth_error_Some; congruence). rewrite L. auto.
  Qed.
  Lemma table_nz : forall lv s, (forall w, In w lv -> w <> VInt 0) -> forall z w, table lv s z = Some w -> w <> VInt 0.
  Proof.
    intros lv s Hlv z w H. unfold table in H. destruct (Z.ltb z B); [discriminate|].
    destruct (Nat.ltb (Z.to_nat (z - B)) (length lv)).
    - apply Hlv. eapply nth_error_In; eauto.
    - destruct (s (N.of_nat (Z.to_nat (z - B) - length lv))) as [w'|]; [|discriminate].
      destruct (is_zero w') eqn:Zr; [discriminate|]. inversion H; subst. intros ->. discriminate.
  Qed.
  Lemma rel_abs : forall lv s, (0 < B)%Z -> rel (table lv s) (abs_env lv s) s.
  Proof.
    intros lv s HB y. unfold abs_env. destruct (s y) as [w|] eqn:Hy; [|reflexivity]. simpl.
    destruct (is_zero w) eqn:Zr.
    - simpl decode. rewrite table_low by lia. destruct w as [z| | | | |]; try discriminate. destruct z; try discriminate. reflexivity.
    - simpl decode. unfold table.
      assert (E : Z.ltb (B + Z.of_nat (length lv) + Z.of_N y) B = false) by (apply Z.ltb_ge; lia). rewrite E.
      replace (Z.to_nat (B + Z.of_nat (length lv) + Z.of_N y - B)) with (length lv + N.to_nat y)%nat by lia.
      assert (L : Nat.ltb (length lv + N.to_nat y) (length lv) = false) by (apply Nat.ltb_ge; lia). rewrite L.
      replace (length lv + N.to_nat y - length lv)%nat with (N.to_nat y) by lia. rewrite N2Nat.id, Hy, Zr. reflexivity.
  Qed.
End Enc.

(* ------------------------------------------------------------------ C01pat_lower_guard_correct, in HirSem *)
Definition bound (l : list Z) : Z := (fold_right Z.max 1 l + 1)%Z.
Lemma bound_gt : forall l z, In z l -> (z < bound l)%Z.
Proof.
  unfold bound. induction l as [|a l IH]; intros z H; simpl in *. tauto.
  destruct H as [->|H]. lia. specialize (IH z H). lia.
Qed.
Lemma bound_gt1 : forall l, (1 < bound l)%Z.
Proof. unfold bound. induction l as [|a l IH]; simpl; lia. Qed.

Lemma index_of_same : forall x bs, C01pat.Lower.index_of x bs = Lower.index_of x bs.
Proof. induction bs as [|y t IH]; [reflexivity|]. simpl. rewrite IH. reflexivity. Qed.
Lemma bn_of_same : forall tmp bs n x, C01pat.Lower.bn_of tmp bs n x = Lower.bn_of tmp bs n x.
Proof. intros. unfold C01pat.Lower.bn_of, Lower.bn_of. rewrite index_of_same. reflexivity. Qed.

Lemma slookup_dec : forall tab b x, slookup (dec_b tab b) x = option_map (decode tab) (C01pat.Sem.lookup b x).
Proof.
  intros tab. induction b as [|[y pw] t IH]; intros x; simpl. reflexivity.
  rewrite IH. destruct (C01pat.Sem.lookup t x); simpl. reflexivity. destruct (N.eqb x y); reflexivity.
Qed.

(* a structured pattern does not fit a value that is neither a struct nor an enum value *)
Lemma structured_leafy : forall p w, structured p = true -> (match w with VStruct _ | VVariant _ _ => False | _ => True end) ->
  sshape p w = false.
Proof.
  induction p using pat_ind'; intros w Hs Hw; simpl in Hs; try discriminate.
  - destruct w; simpl in *; tauto || reflexivity.
  - destruct w; simpl in *; tauto || reflexivity.
  - destruct w; simpl in *; tauto || reflexivity.
  - destruct ps as [|q t]; [discriminate|]. simpl in Hs. apply andb_true_iff in Hs as (H1 & _).
    inversion H; subst. simpl. rewrite (H3 w H1 Hw). reflexivity.
Qed.

Section Guard.
  Variable w : world.
  Variable tmp : nat -> name.
  Hypothesis tmp_inj : forall i j, tmp i = tmp j -> i = j.

  (* Lower.guard p bs r n = the LateInitDeclarations of the keys bs and the statements of the pattern p on the lowered
     scrutinee r, with the pattern's condition.  If r holds a value v of the shape p expects and is not overwritten
     by temporaries drawn from n on: the statements run to the end without touching the history, leave every name
     that is not such a temporary as it was, and
     - if p matches v with bindings b: the condition is 1 and the late-init variable of every bound x holds its value;
     - otherwise the condition is 0.
     This is C01pat_lower_guard_correct, instantiated at the labelled value and carried over by the simulation. *)
  Theorem guard_sound : forall p bs r n v s tr gs gc n1,
    guard tmp p bs r n = (gs, gc, n1) ->
    wf p -> NoDup bs -> incl (binders p) bs -> top_ok p = true ->
    heval s r = Some v -> sshape p v = true -> Lower.stable tmp n r ->
    exists s1, exec_list (exec w) gs s tr = HNext s1 tr /\
      (forall y, Lower.low tmp n y -> s1 y = s y) /\
      match smatch p v with
      | Some b => heval s1 gc = Some (VInt 1) /\ forall x w', slookup b x = Some w' -> s1 (Lower.bn_of tmp bs n x) = Some w'
      | None => heval s1 gc = Some (VInt 0)
      end.
  Proof.
    intros p bs r n v s tr gs gc n1 HG Hwf Hnd Hincl Htop Hr Hsh Hst.
    unfold guard in HG.
    set (e := pe r) in *.
    destruct (C01pat.Lower.lower_guard tmp p bs e n) as [[ss c] n1'] eqn:LG. inversion HG; subst gs gc n1'. clear HG.
    (* labels above every literal of the statements, of the scrutinee and of the condition *)
    set (B := bound (lits_l ss ++ lits_e e ++ lits_e c)).
    assert (HB1 : (1 < B)%Z) by apply bound_gt1.
    assert (HBl : forall z, In z (lits_l ss ++ lits_e e ++ lits_e c) -> (z < B)%Z) by (apply bound_gt).
    set (lv := leaves v).
    set (tab := table B lv s).
    assert (T0 : tab 0%Z = None) by (apply table_low; lia).
    assert (T1 : tab 1%Z = None) by (apply table_low; lia).
    assert (Tnz : forall z w', tab z = Some w' -> w' <> VInt 0).
    { apply table_nz. intros w' Hw'. eapply leaves_nonzero; eauto. }
    assert (Tl : forall z, In z (lits_l ss ++ lits_e e ++ lits_e c) -> tab z = None).
    { intros z Hz. apply table_low. auto. }
    (* the labelled scrutinee *)
    destruct (enc_all B tab T0 v O) as (_ & Henc).
    destruct Henc as (Hdec & Hwfp).
    { intros j w' Hj. simpl. apply table_leaf; auto. lia. }
    set (pv := fst (enc B v 0)) in *.
    (* the abstract environment and the abstract value of the scrutinee *)
    assert (Habs : exists ps pv', rel tab ps s /\ C01pat.Sem.eval e ps = Some pv' /\ C01pat.Lower.estable tmp n e /\
                                  (p = PWild \/ (decode tab pv' = v /\ wfp tab pv'))).
    { destruct r as [z| |t|y0]; simpl in Hr.
      - injection Hr as Hv. exists (abs_env B lv s), (PInt z). split. apply rel_abs; lia.
        split; [reflexivity|]. split; [exact I|]. right. simpl.
        rewrite (Tl z) by (rewrite !in_app_iff; right; left; left; auto). rewrite <- Hv. split; [reflexivity|exact I].
      - injection Hr as Hv. exists (abs_env B lv s), (PInt 0). split. apply rel_abs; lia.
        split; [reflexivity|]. split; [exact I|]. left. rewrite <- Hv in Hsh.
        destruct p; auto; simpl in Htop; rewrite structured_leafy in Hsh; simpl; auto; discriminate.
      - injection Hr as Hv. exists (abs_env B lv s), (PInt 0). split. apply rel_abs; lia.
        split; [reflexivity|]. split; [exact I|]. left. rewrite <- Hv in Hsh.
        destruct p; auto; simpl in Htop; rewrite structured_leafy in Hsh; simpl; auto; discriminate.
      - exists (C01pat.Sem.upd (abs_env B lv s) y0 (Some pv)), pv. split.
        + intros y. unfold C01pat.Sem.upd. destruct (N.eqb y y0) eqn:E.
          * apply N.eqb_eq in E. subst y. simpl. rewrite Hdec. exact Hr.
          * apply rel_abs. lia.
        + split. simpl. unfold C01pat.Sem.upd. rewrite N.eqb_refl. reflexivity.
          split. simpl. exact Hst. right. auto. }
    destruct Habs as (ps & pv' & Hrel & Hev & Hest & Hpv).
    assert (Hshape : shape_ok p pv').
    { destruct Hpv as [->|(Hd & Hw)]. exact I. apply (sshape_decode tab); auto. rewrite Hd. exact Hsh. }
    assert (Hsm : smatch p v = option_map (dec_b tab) (C01pat.Sem.pmatch p pv')).
    { destruct Hpv as [->|(Hd & Hw)]. reflexivity. rewrite <- Hd. apply smatch_decode; auto. }
    (* C01pat's theorem *)
    pose proof (C01pat.Props.C01pat_lower_guard_correct tmp tmp_inj p bs e n pv' ps Hwf Hshape Hnd Hincl Hev Hest) as TH.
    cbv zeta in TH. rewrite LG in TH. unfold C01pat.Lower.stmts_of, C01pat.Lower.cond_of in TH. simpl in TH.
    destruct TH as (ps1 & Hrun & Hframe & Hres).
    (* the simulation *)
    destruct (simulation tab T0 Tnz w tr ss ps s ps1 Hrel) as (s1 & Hex & Hrel1); auto.
    { intros z Hz. apply Tl. apply in_or_app; auto. }
    exists s1. split; [exact Hex|]. split.
    - intros y Hy. rewrite (Hrel1 y), (Hframe y Hy). symmetry. apply Hrel.
    - rewrite Hsm.
      assert (Hc : heval s1 (emb_e c) = option_map (decode tab) (C01pat.Sem.eval c ps1)).
      { apply heval_emb; auto. intros z Hz. apply Tl. rewrite !in_app_iff. auto. }
      destruct (C01pat.Sem.pmatch p pv') as [b|]; simpl.
      + destruct Hres as (Hc1 & Hb). split.
        * rewrite Hc, Hc1. simpl. rewrite T1. reflexivity.
        * intros x w' Hx. rewrite slookup_dec in Hx.
          destruct (C01pat.Sem.lookup b x) as [pw|] eqn:Lk; [|discriminate]. simpl in Hx. inversion Hx; subst w'.
          rewrite (Hrel1 _). rewrite <- bn_of_same. rewrite (Hb x pw Lk). reflexivity.
      + rewrite Hc, Hres. simpl. rewrite T0. reflexivity.
  Qed.

  (* the counter of a guard: it only grows, by at least the number of keys *)
  Lemma guard_counter : forall p bs r n gs gc n1, guard tmp p bs r n = (gs, gc, n1) -> (n + length bs <= n1)%nat.
  Proof.
    intros p bs r n gs gc n1 H. unfold guard, C01pat.Lower.lower_guard in H.
    pose proof (C01pat.Proofs.lower_pattern_mono tmp (C01pat.Lower.bn_of tmp bs n) p (pe r) (n + length bs)) as M.
    destruct (C01pat.Lower.lower_pattern tmp (C01pat.Lower.bn_of tmp bs n) p (pe r) (n + length bs)) as [[ps c] k].
    inversion H; subst. exact M.
  Qed.
End Guard.
