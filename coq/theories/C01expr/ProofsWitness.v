(* C01 (expression-lowering slice) - the refutations of Props.v, by vm_compute on the witnesses of Corr.v. *)
From Coq Require Import ZArith NArith List Bool Lia.
Import ListNotations.
From SV Require Import Common.Int32 C01expr.Syntax C01expr.SrcSem C01expr.HirSem C01expr.Lower C01expr.Corr
  C01expr.Proofs C01expr.ProofsParts.

Lemma env_x_dom : forall v x, env_x v x <> None -> In x [2%N].
Proof. intros v x H. unfold env_x in H. destruct (N.eqb x 2) eqn:E. apply N.eqb_eq in E. left; auto. congruence. Qed.
Lemma tmp0_not_2 : forall p i, In p [2%N] -> tmp0 i <> p.
Proof. intros p i [<-|[]]. unfold tmp0. lia. Qed.

Lemma seeded7_refuted :
  exists (w : world) params body r,
    (forall x, r x <> None -> In x params) /\ (forall p i, In p params -> tmp0 i <> p) /\ ns params body /\
    ~ agrees (seval w true r body []) (run_body Seeded7 w params body r).
Proof.
  exists w_one, [2%N], e_seeded7, (env_x (VInt 1)).
  split; [apply env_x_dom|]. split; [apply tmp0_not_2|]. split; [apply (proj1 nsB_all); reflexivity|].
  vm_compute. discriminate.
Qed.

Lemma seeded7_parts_refuted :
  exists e cx n, ~ blocks (map flat (parts Seeded7 tmp0 e cx n)) (flat (stmts_of (lower Seeded7 tmp0 e cx n))).
Proof.
  exists e_seeded7, [[(2%N, 2%N)]], O. intros H.
  vm_compute in H. destruct H as (a & b & E & a' & b' & E' & _).
  destruct a; [|discriminate]. destruct b; [|discriminate]. destruct a'; discriminate.
Qed.

Lemma args_first_refuted :
  exists (w : world) params body r,
    (forall x, r x <> None -> In x params) /\ (forall p i, In p params -> tmp0 i <> p) /\ ns params body /\
    ~ agrees (seval w false r body []) (run_body Pinned w params body r).
Proof.
  exists w_one, [2%N], e_order, (env_x (VInt 1)).
  split; [apply env_x_dom|]. split; [apply tmp0_not_2|]. split; [apply (proj1 nsB_all); reflexivity|].
  vm_compute. discriminate.
Qed.

Lemma rebinding_refuted :
  exists (w : world) params body r,
    (forall x, r x <> None -> In x params) /\ (forall p i, In p params -> tmp0 i <> p) /\
    ~ agrees (seval w true r body []) (run_body Pinned w params body r).
Proof.
  exists w_one, [], e_rebind, (fun _ => None).
  split; [intros x H; congruence|]. split; [intros p i []|].
  vm_compute. discriminate.
Qed.
