(* C01 (expression-lowering slice) - property theorems: the HIR statements that `ExpressionLoweringManager::lower`
   (crates/samlang-compiler/src/hir_lowering.rs 205-661, 1138-1170) emits for a source expression compute, in every
   environment and against every world, the value and the history of calls that the source semantics prescribes, or
   end the same way.
   Model: Syntax.v (source expressions, HIR fragment), SrcSem.v (big-step source semantics, calls answered by an
   oracle), HirSem.v (executable semantics of the statements), Lower.v (the lowering, statement by statement, with
   the counter of Heap::alloc_temp_str and the real scope stack; its last part is the vocabulary used below).
   `tmp k` is the k-th temporary: arbitrary, injective.  Fragment: literals, variables, class receivers, ! and unary -,
   arithmetic and comparisons, && and ||, ::, calls of class functions / methods / function values, method references,
   field access, tuples, if / else (chains), blocks with `let x` / `let _` / `let (x, _, y)` / expression statements.
   lambda expressions (context record, function value; the synthetic function has its own theorem), and - through
   C01pat's model of lower_matching_pattern and its theorem - match, `if let` and `let` with any pattern.
   Not in the fragment: a bare variable pattern at the top of a match arm / `if let` (Syntax.top_ok). *)
From Coq Require Import ZArith NArith List Bool Lia.
Import ListNotations.
From SV Require Import Common.Int32 C01expr.Syntax C01expr.SrcSem C01expr.HirSem C01expr.Lower C01expr.Corr
  C01expr.Proofs C01expr.ProofsPat C01expr.ProofsMain C01expr.ProofsParts C01expr.ProofsWitness.

(* MAIN THEOREM.  For every expression e of the fragment, every scope stack cx and counter n, every source
   environment r, HIR environment s and history tr such that every visible source variable resolves (through cx)
   to a HIR variable holding its value that is not a temporary still to be drawn (inv), provided no `let` inside e
   rebinds a visible name (ns; the checker's rule): if the source evaluation of e yields value v and history tr',
   the emitted statements run to the end with history tr', the result expression then evaluates to v, only
   temporaries drawn for e were written, and the result expression is not overwritten by anything drawn later;
   if the source evaluation ends in an arithmetic trap or in a call that does not return, the statements end the
   same way with the same history.  (Order of receiver / callee and arguments: callee first, as the compiler
   implements it.) *)
Theorem C01expr_lower_sound :
  forall (w : world) (tmp : nat -> N), (forall i j, tmp i = tmp j -> i = j) ->
  forall e cx n r s tr D ss re n' cx',
    lower Pinned tmp e cx n = (ss, re, n', cx') -> inv tmp r cx s n -> dom_in r D -> ns D e ->
    sound tmp w s tr n n' ss re (seval w true r e tr).
Proof. exact (fun w tmp inj => proj1 (lower_sound_all w tmp inj)). Qed.

(* the same for argument lists (left to right) and for the statements of a block *)
Theorem C01expr_lower_args_sound :
  forall (w : world) (tmp : nat -> N), (forall i j, tmp i = tmp j -> i = j) ->
  forall es cx n r s tr D ss rs n' cx',
    lower_args Pinned tmp es cx n = (ss, rs, n', cx') -> inv tmp r cx s n -> dom_in r D -> nss D es ->
    sound_l tmp w s tr n n' ss rs (seval_args w true r es tr).
Proof. exact (fun w tmp inj => proj1 (proj2 (lower_sound_all w tmp inj))). Qed.

Theorem C01expr_lower_blk_sound :
  forall (w : world) (tmp : nat -> N), (forall i j, tmp i = tmp j -> i = j) ->
  forall b cx n r s tr D ss re n' cx',
    lower_blk Pinned tmp b cx n = (ss, re, n', cx') -> cx <> [] -> inv tmp r cx s n -> dom_in r D -> nsb D b ->
    sound tmp w s tr n n' ss re (seval_blk w true r b tr).
Proof. exact (fun w tmp inj => proj2 (proj2 (proj2 (lower_sound_all w tmp inj)))). Qed.

(* the arms of a match, given the lowered scrutinee re holding the matched value v: first matching arm in written order
   (the statements are built from the last arm to the first; the fall-through Process.panic call is reached only when
   no arm matches, which the source semantics counts as ill-typed: the checker demands exhaustive matches) *)
Theorem C01expr_lower_arms_sound :
  forall (w : world) (tmp : nat -> N), (forall i j, tmp i = tmp j -> i = j) ->
  forall cs re coll cx n r s tr D v ss rr n' cx',
    lower_arms Pinned tmp cs re coll cx n = (ss, rr, n', cx') -> inv tmp r cx s n -> dom_in r D -> nsa D cs ->
    heval s re = Some v -> stable tmp n re ->
    sound tmp w s tr n n' ss rr (seval_arms w true r cs v tr).
Proof. exact (fun w tmp inj => proj1 (proj2 (proj2 (lower_sound_all w tmp inj)))). Qed.

(* ONE PATTERN SITE (a `let p`, the guard of an `if let`, a match arm).  Lower.guard = the embedding of
   C01pat.Lower.lower_guard (LateInitDeclarations of the keys + lower_matching_pattern) on the lowered scrutinee.
   This is C01pat_lower_guard_correct, instantiated (at the scrutinee value with its non-struct, non-enum parts
   replaced by labels) and carried over to HirSem and the values of this slice by a simulation that holds for every
   C01pat statement list (ProofsPat.simulation): the statements run to the end without touching the history, write
   only temporaries drawn from n on; if p matches v (SrcSem.smatch = C01pat's pmatch through the labelling) the
   condition is 1 and the late-init variable of every variable of p holds the value it is bound to; otherwise the
   condition is 0. *)
Theorem C01expr_guard_sound :
  forall (w : world) (tmp : nat -> N), (forall i j, tmp i = tmp j -> i = j) ->
  forall p bs r n v s tr gs gc n1,
    guard tmp p bs r n = (gs, gc, n1) ->
    wf p -> NoDup bs -> incl (binders p) bs -> top_ok p = true ->
    heval s r = Some v -> sshape p v = true -> stable tmp n r ->
    exists s1, exec_block w gs s tr = HNext s1 tr /\
      (forall y, low tmp n y -> s1 y = s y) /\
      match smatch p v with
      | Some b => heval s1 gc = Some (VInt 1) /\ forall x w', slookup b x = Some w' -> s1 (bn_of tmp bs n x) = Some w'
      | None => heval s1 gc = Some (VInt 0)
      end.
Proof. exact guard_sound. Qed.

(* A whole function body: parameters bound to themselves (ExpressionLoweringManager::new), none of them a
   temporary; running the lowered body from the argument environment gives what the source semantics gives. *)
Theorem C01expr_lower_body_correct :
  forall (w : world) (tmp : nat -> N), (forall i j, tmp i = tmp j -> i = j) ->
  forall params body r ss re n,
    lower_body Pinned tmp params body = (ss, re, n) ->
    (forall x, r x <> None -> In x params) -> (forall p i, In p params -> tmp i <> p) -> ns params body ->
    forall tr, agrees (seval w true r body tr) (run_lowered w ss re r tr).
Proof. exact lower_body_correct. Qed.

(* The synthetic function made for a lambda (create_synthetic_lambda_function: parameters `_this` = the context and
   the lambda's, one IndexedAccess per captured variable, then the lowered body): called with the context record and
   the arguments, it computes what the body of the lambda computes in the source environment that binds the captured
   variables to the fields of the context and the parameters to the arguments.  (At the place of the lambda expression
   itself the main theorem covers the StructInit / ClosureInit statements: the value is the function value
   `VClo (FLam l) context`.) *)
Theorem C01expr_lambda_fn_correct :
  forall (w : world) (tmp : nat -> N), (forall i j, tmp i = tmp j -> i = j) ->
  forall caps params body n1 ps ss re n3 vs r s0,
    lambda_fn Pinned tmp caps params body n1 = (ps, ss, re, n3) ->
    NoDup caps -> length vs = length caps ->
    ~ In this_name params -> (forall c, In c caps -> ~ In c params) ->
    (forall i x, In x (this_name :: params ++ caps) -> tmp i <> x) ->
    s0 this_name = Some (VStruct vs) ->
    (forall j c, nth_error caps j = Some c -> r c = nth_error vs j) ->
    (forall p, In p params -> r p = s0 p) ->
    (forall x, r x <> None -> In x (params ++ caps)) ->
    ns (params ++ caps) body ->
    forall tr, ps = this_name :: params /\ agrees (seval w true r body tr) (run_lowered w ss re s0 tr).
Proof. exact lambda_fn_correct. Qed.

(* Counter and scope stack, for BOTH versions of the code: the counter only grows; an expression leaves the stack as
   it was, except for scopes left on top (lower_if_else returning early without pop_scope) whose keys are names bound
   inside the expression; the statements of a block also add their own bindings to the top scope. *)
Theorem C01expr_counter_and_scopes :
  forall (ver : version) (tmp : nat -> N),
    (forall e cx n ss re n' cx', lower ver tmp e cx n = (ss, re, n', cx') -> (n <= n')%nat /\ extE (bv e) cx cx') /\
    (forall es cx n ss rs n' cx', lower_args ver tmp es cx n = (ss, rs, n', cx') -> (n <= n')%nat /\ extE (bvs es) cx cx') /\
    (forall cs re coll cx n ss rr n' cx', lower_arms ver tmp cs re coll cx n = (ss, rr, n', cx') -> (n <= n')%nat /\ extE (bva cs) cx cx') /\
    (forall b cx n ss re n' cx', lower_blk ver tmp b cx n = (ss, re, n', cx') -> cx <> [] -> (n <= n')%nat /\ extB (bvb b) cx cx').
Proof. exact shape_all. Qed.

(* Short circuit: the statements of `a && b` make exactly the calls of a when a yields false, and exactly the calls
   of a followed by those of b (with b's value) when a yields true; dually for `||`.  So the right operand is
   evaluated exactly when the left one does not decide. *)
Theorem C01expr_and_short_circuit :
  forall (w : world) (tmp : nat -> N), (forall i j, tmp i = tmp j -> i = j) ->
  forall a b cx n r s tr D ss re n' cx' tr1,
    lower Pinned tmp (EAnd a b) cx n = (ss, re, n', cx') -> inv tmp r cx s n -> dom_in r D -> ns D (EAnd a b) ->
    (seval w true r a tr = SVal (VInt 0) tr1 -> run_lowered w ss re s tr = SVal (VInt 0) tr1) /\
    (seval w true r a tr = SVal (VInt 1) tr1 -> agrees (seval w true r b tr1) (run_lowered w ss re s tr)).
Proof. exact and_short_circuit. Qed.

Theorem C01expr_or_short_circuit :
  forall (w : world) (tmp : nat -> N), (forall i j, tmp i = tmp j -> i = j) ->
  forall a b cx n r s tr D ss re n' cx' tr1,
    lower Pinned tmp (EOr a b) cx n = (ss, re, n', cx') -> inv tmp r cx s n -> dom_in r D -> ns D (EOr a b) ->
    (seval w true r a tr = SVal (VInt 1) tr1 -> run_lowered w ss re s tr = SVal (VInt 1) tr1) /\
    (seval w true r a tr = SVal (VInt 0) tr1 -> agrees (seval w true r b tr1) (run_lowered w ss re s tr)).
Proof. exact or_short_circuit. Qed.

(* The statements of every direct sub-expression that is not dead by the lowering's own constant test are present in
   the lowering, as contiguous blocks in evaluation order (and so, by induction, at every depth). *)
Theorem C01expr_parts_present :
  forall (tmp : nat -> N) e cx n,
    blocks (map flat (parts Pinned tmp e cx n)) (flat (stmts_of (lower Pinned tmp e cx n))).
Proof. exact parts_present. Qed.

(* ------------------------------------------------------------------ refutations *)
(* The seeded change /verif/seeded/C01-7 (Lower.Seeded7: `e && <literal>` / `e || <literal>` without a branch, keeping
   only the statements of the left operand): the body theorem is FALSE of it.  `x && (f() || true)` with x = true:
   the source semantics calls f, the lowered statements call nothing. *)
Theorem C01expr_seeded7_refuted :
  exists (w : world) params body r,
    (forall x, r x <> None -> In x params) /\ (forall p i, In p params -> tmp0 i <> p) /\ ns params body /\
    ~ agrees (seval w true r body []) (run_body Seeded7 w params body r).
Proof. exact seeded7_refuted. Qed.

(* ... and so is the presence of the right operand's statements *)
Theorem C01expr_seeded7_parts_refuted :
  exists e cx n, ~ blocks (map flat (parts Seeded7 tmp0 e cx n)) (flat (stmts_of (lower Seeded7 tmp0 e cx n))).
Proof. exact seeded7_parts_refuted. Qed.

(* The letter of spec.md 6.7.5 / 6.15(2) (arguments first, then the receiver / callee) is NOT what the lowering
   implements: `f1().f2(f3())` calls f1, f3, f2 (open finding C01-callee-evaluated-before-arguments). *)
Theorem C01expr_args_first_refuted :
  exists (w : world) params body r,
    (forall x, r x <> None -> In x params) /\ (forall p i, In p params -> tmp0 i <> p) /\ ns params body /\
    ~ agrees (seval w false r body []) (run_body Pinned w params body r).
Proof. exact args_first_refuted. Qed.

(* The hypothesis `ns` is necessary: with a rebinding, the scope that lower_if_else leaves on the stack (constant
   condition, early return without pop_scope) makes an outer variable read the inner binding.  The checker rejects
   such a program (name already bound), so no accepted source program reaches this. *)
Theorem C01expr_rebinding_refuted :
  exists (w : world) params body r,
    (forall x, r x <> None -> In x params) /\ (forall p i, In p params -> tmp0 i <> p) /\
    ~ agrees (seval w true r body []) (run_body Pinned w params body r).
Proof. exact rebinding_refuted. Qed.

(* ------------------------------------------------------------------ non-vacuity *)
(* a body that uses every form of the fragment: the hypotheses of the body theorem hold, the source run is not
   stuck, makes three calls, and the lowered statements (18 temporaries) give the same value and history *)
Example C01expr_nonvacuous_value :
  ns [2%N] e_rich /\
  seval w_one true (env_x (VInt 5)) e_rich [] =
    SVal (VInt 7) [(FUser 8, [VInt 0]); (FUser 6, [VStruct [VInt 8; VStr [97%N; 98%N]]; VInt (-8)]);
                   (FUser 5, [VInt 0; VStr [97%N; 98%N; 99%N]])] /\
  run_body Pinned w_one [2%N] e_rich (env_x (VInt 5)) = seval w_one true (env_x (VInt 5)) e_rich [] /\
  snd (lower_body Pinned tmp0 [2%N] e_rich) = 18%nat.
Proof. split; [apply (proj1 nsB_all); vm_compute; reflexivity|]. vm_compute. auto. Qed.

(* both sides trap (10 / x with x = 0 after three calls), both sides abort (a call that does not return) *)
Example C01expr_nonvacuous_trap :
  exists tr, tr <> [] /\ seval (fun _ _ _ => Some (VInt 0)) true (env_x (VInt 0)) e_rich [] = SFail (FTrap tr) /\
             run_body Pinned (fun _ _ _ => Some (VInt 0)) [2%N] e_rich (env_x (VInt 0)) = SFail (FTrap tr).
Proof. eexists. split; [|split; vm_compute; reflexivity]. discriminate. Qed.

Example C01expr_nonvacuous_abort :
  let w : world := fun _ f _ => match f with FUser 7 => None | _ => Some (VInt 1) end in
  exists tr, tr <> [] /\ seval w true (env_x (VInt (-1))) e_rich [] = SFail (FAbort tr) /\
             run_body Pinned w [2%N] e_rich (env_x (VInt (-1))) = SFail (FAbort tr).
Proof. eexists. split; [|split; vm_compute; reflexivity]. discriminate. Qed.

(* a `let` with a tuple pattern: hypotheses hold, same value and history *)
Example C01expr_nonvacuous_tuple_let :
  ns [2%N] e_tuplelet /\
  seval w_one true (env_x (VInt 5)) e_tuplelet [] = SVal (VInt (-1)) [(FUser 1, [VInt 0])] /\
  run_body Pinned w_one [2%N] e_tuplelet (env_x (VInt 5)) = SVal (VInt (-1)) [(FUser 1, [VInt 0])].
Proof. split; [apply (proj1 nsB_all); vm_compute; reflexivity|]. vm_compute. auto. Qed.

(* a lambda that captures x, bound and called: the statements build the context record and the function value, the
   call goes to the world, which here runs the model's synthetic function: 3 + 5 *)
Example C01expr_nonvacuous_lambda :
  seval w_lam true (env_x (VInt 5)) e_lambda [] = SVal (VInt 8) [(FLam 1, [VStruct [VInt 5]; VInt 3])] /\
  run_body Pinned w_lam [2%N] e_lambda (env_x (VInt 5)) = SVal (VInt 8) [(FLam 1, [VStruct [VInt 5]; VInt 3])].
Proof. vm_compute. auto. Qed.

(* patterns: a `let` with a tuple / variant pattern, a match with a variant and a wildcard arm, an `if let`: hypotheses
   hold; first arm (3 + 3 + 9), second arm (the call), and a scrutinee that the let pattern does not fit (stuck) *)
Example C01expr_nonvacuous_patterns :
  ns [2%N] e_pat /\
  seval w_one true (env_x (v_pat 0)) e_pat [] = SVal (VInt 15) [] /\
  run_body Pinned w_one [2%N] e_pat (env_x (v_pat 0)) = SVal (VInt 15) [] /\
  seval w_one true (env_x (v_pat 1)) e_pat [] = SVal (VInt 1) [(FUser 1, [VInt 0])] /\
  run_body Pinned w_one [2%N] e_pat (env_x (v_pat 1)) = SVal (VInt 1) [(FUser 1, [VInt 0])] /\
  seval w_one true (env_x (VInt 5)) e_pat [] = SFail FStuck.
Proof. split; [apply (proj1 nsB_all); vm_compute; reflexivity|]. vm_compute. auto 10. Qed.

(* the pinned code on the witness of the seeded change: f is called *)
Example C01expr_pinned_on_seeded_witness :
  run_body Pinned w_one [2%N] e_seeded7 (env_x (VInt 1)) = SVal (VInt 1) [(FUser 1, [VInt 0])] /\
  run_body Seeded7 w_one [2%N] e_seeded7 (env_x (VInt 1)) = SVal (VInt 1) [].
Proof. vm_compute. auto. Qed.

Print Assumptions C01expr_lower_sound.
Print Assumptions C01expr_lower_args_sound.
Print Assumptions C01expr_lower_blk_sound.
Print Assumptions C01expr_lower_arms_sound.
Print Assumptions C01expr_guard_sound.
Print Assumptions C01expr_lower_body_correct.
Print Assumptions C01expr_lambda_fn_correct.
Print Assumptions C01expr_counter_and_scopes.
Print Assumptions C01expr_and_short_circuit.
Print Assumptions C01expr_or_short_circuit.
Print Assumptions C01expr_parts_present.
Print Assumptions C01expr_seeded7_refuted.
Print Assumptions C01expr_seeded7_parts_refuted.
Print Assumptions C01expr_args_first_refuted.
Print Assumptions C01expr_rebinding_refuted.
