(* C01 (expression-lowering slice) - property theorems (under construction: see Proofs.v) *)
From Coq Require Import ZArith NArith List Bool.
Import ListNotations.
From SV Require Import Common.Int32 C01expr.Syntax C01expr.SrcSem C01expr.HirSem C01expr.Lower C01expr.Corr.
