(* C01 (expression-lowering slice) - big-step semantics of the source fragment (Syntax.expr), as a total function.
   Reference: packages/samlang-website/spec.md 6.15 (evaluation order), 6.9, 6.10, 6.13 and the decisions of the
   end-to-end monitor's interpreter /verif/harness/src/srcsem.rs (eval_binary, eval_if_else, eval_block, eval_call,
   eval_simple).

   DECISIONS
   * values: ints, booleans (false = 0, true = 1) and unit (0) are `VInt`; strings; struct / tuple instances with
     their fields; function values `VClo f ctx` (function name + context: a method reference carries its receiver);
     `VRef` for everything else a called function may hand back (enum instances, vectors, ..): never looked into here.
   * the world: an oracle that answers every call of a named function (user functions, println, the runtime
     library) as a function of the HISTORY of the earlier calls; `None` = the call does not return (Process.panic,
     a trap or a loop inside the callee).  The trace (newest first) of (function, arguments) IS the observable
     behaviour of evaluating an expression, with its value or the way it ended.  Two functions are not asked of the
     world: the constructor `init` of a struct class builds the instance (lower_constructors: one StructInit of the
     parameters), and Str.concat concatenates (theories/C04rt proves that of the runtime library).
   * a lambda expression yields the function value `VClo (FLam l) context`: l names its synthetic function, the
     context is the record of the captured values (the i31 zero when nothing is captured).  Calling it asks the
     world like any other call; that the synthetic function behaves like the body is Lower.lambda_fn's theorem.
   * a call passes the receiver as first argument: the value of the class for a class function (`EClass`, the i31
     zero at run time), the object for a method; a function value is called with its context first.
   * ORDER (6.15): operands left to right; `&&` / `||` evaluate the right operand only when the left one does not
     decide; condition, then only the chosen branch; block statements in order; arguments left to right.  Receiver
     / callee versus arguments: `callee_first = true` is the textual order (what the compiler implements and
     srcsem.rs calls CalleeFirst), `false` is the letter of spec 6.7.5 (ArgsFirst) - open finding
     C01-callee-evaluated-before-arguments.
   * arithmetic: Common/Int32.rt_binop (wrapping + - *, truncating / and %, traps on a zero divisor and MIN / -1);
     `-e` is `0 - e`.
   * ill-typed situations (a condition that is not 0 or 1, arithmetic on a string, a field of a non-struct, an
     unbound variable, calling a non-function) are `FStuck`: the checker excludes them and the theorems say
     nothing about them. *)
From Coq Require Import ZArith NArith List Bool.
Import ListNotations.
From SV Require Import Common.Int32 C01expr.Syntax.
Open Scope Z_scope.

Inductive value :=
| VInt (z : Z)
| VStr (s : list N)
| VStruct (vs : list value)
| VVariant (tag : nat) (vs : list value)      (* an instance of an enum class: variant number and payload *)
| VClo (f : fname) (ctx : value)
| VRef (r : N).

Definition event := (fname * list value)%type.
Definition trace := list event.                  (* newest first *)

Definition world := trace -> fname -> list value -> option value.

(* abnormal ends *)
Inductive fail :=
| FTrap (tr : trace)       (* arithmetic trap *)
| FAbort (tr : trace)      (* a call did not return *)
| FStuck.                  (* ill-typed *)

Inductive cres := CRet (v : value) (tr : trace) | CFail (f : fail).

Definition call_named (w : world) (f : fname) (vs : list value) (tr : trace) : cres :=
  match f with
  | FInit _ => match vs with _ :: fields => CRet (VStruct fields) tr | [] => CFail FStuck end
  | FConcat => match vs with [VStr a; VStr b] => CRet (VStr (a ++ b)) tr | _ => CFail FStuck end
  | FUser _ | FLam _ | FPanic =>
      match w tr f vs with
      | Some v => CRet v ((f, vs) :: tr)
      | None => CFail (FAbort ((f, vs) :: tr))
      end
  end.

(* calling a function value *)
Definition apply_value (w : world) (fv : value) (vs : list value) (tr : trace) : cres :=
  match fv with
  | VClo f ctx => call_named w f (ctx :: vs) tr
  | _ => CFail FStuck
  end.

Fixpoint str_eqb (a b : list N) : bool :=
  match a, b with
  | [], [] => true
  | x :: r, y :: r' => N.eqb x y && str_eqb r r'
  | _, _ => false
  end.

(* ints (and booleans, unit): the instruction of the target; two strings: == and != compare the characters (both back
   ends select the string comparison of the runtime library for operands of type Str; theories/C04rt) *)
Definition binop_sem (op : binop) (a b : value) (tr : trace) : cres :=
  match a, b with
  | VInt x, VInt y => match rt_binop op x y with Val z => CRet (VInt z) tr | TrapArith => CFail (FTrap tr) end
  | VStr x, VStr y =>
      match op with
      | EQ => CRet (VInt (b2z (str_eqb x y))) tr
      | NE => CRet (VInt (b2z (negb (str_eqb x y)))) tr
      | _ => CFail FStuck
      end
  | _, _ => CFail FStuck
  end.

Definition not_sem (a : value) : option value :=
  match a with
  | VInt 0 => Some (VInt 1)
  | VInt 1 => Some (VInt 0)
  | _ => None
  end.

Definition truth (a : value) : option bool :=
  match a with
  | VInt 0 => Some false
  | VInt 1 => Some true
  | _ => None
  end.

Definition field_sem (a : value) (i : nat) : option value :=
  match a with VStruct vs => nth_error vs i | _ => None end.

Notation senv := (name -> option value) (only parsing).
Definition upd (r : name -> option value) (x : name) (w : option value) : name -> option value :=
  fun y => if N.eqb y x then w else r y.

(* `let (p0, .., pm) = v`: element i takes field i *)
Fixpoint bind_els (r : name -> option value) (els : list (option name)) (vs : list value) : option (name -> option value) :=
  match els with
  | [] => Some r
  | el :: t =>
      match vs with
      | [] => None
      | v :: vt => bind_els (match el with Some x => upd r x (Some v) | None => r end) t vt
      end
  end.
Definition bind_tuple (r : name -> option value) (els : list (option name)) (v : value) : option (name -> option value) :=
  match v with VStruct vs => bind_els r els vs | _ => None end.

(* ------------------------------------------------------------------ patterns on these values *)
(* The declarative meaning of a pattern: C01pat/Sem.v `pmatch`, on the values of this file (the first alternative
   of an or-pattern that matches wins; bindings in the order written).  ProofsPat.v relates the two. *)
Section SLists.
  Variable pm : pat -> value -> option (list (name * value)).
  Fixpoint smatch_list (ps : list pat) (vs : list value) : option (list (name * value)) :=
    match ps with
    | [] => Some []
    | p :: t =>
        match vs with
        | [] => None
        | v :: r =>
            match pm p v with
            | None => None
            | Some b => match smatch_list t r with None => None | Some b' => Some (b ++ b') end
            end
        end
    end.
  Fixpoint smatch_els (vs : list value) (els : list (nat * pat)) : option (list (name * value)) :=
    match els with
    | [] => Some []
    | el :: t =>
        match nth_error vs (fst el) with
        | None => None
        | Some w =>
            match pm (snd el) w with
            | None => None
            | Some b => match smatch_els vs t with None => None | Some b' => Some (b ++ b') end
            end
        end
    end.
  Fixpoint smatch_or (v : value) (ps : list pat) : option (list (name * value)) :=
    match ps with
    | [] => None
    | p :: t => match pm p v with Some b => Some b | None => smatch_or v t end
    end.
End SLists.

Fixpoint smatch (p : pat) (v : value) {struct p} : option (list (name * value)) :=
  match p with
  | PWild => Some []
  | PVar x => Some [(x, v)]
  | PTuple ps => match v with VStruct vs => smatch_list smatch ps vs | _ => None end
  | PObject els => match v with VStruct vs => smatch_els smatch vs els | _ => None end
  | PVariant tag ps =>
      match v with
      | VVariant t vs => if Nat.eqb t tag then smatch_list smatch ps vs else None
      | _ => None
      end
  | POr ps => smatch_or smatch v ps
  end.

(* "v has the shape p expects" (C01pat/Corr.v shape_okb on these values): what the type checker guarantees of
   scrutinee and pattern; a scrutinee of another shape is an ill-typed situation (FStuck) *)
Fixpoint sshape (p : pat) (v : value) {struct p} : bool :=
  match p with
  | PWild | PVar _ => true
  | PTuple ps =>
      match v with
      | VStruct vs =>
          (fix go (l : list pat) (ws : list value) : bool :=
             match l, ws with
             | [], _ => true
             | q :: t, w :: r => sshape q w && go t r
             | _ :: _, [] => false
             end) ps vs
      | _ => false
      end
  | PObject els =>
      match v with
      | VStruct vs =>
          forallb (fun el => match nth_error vs (fst el) with Some w => sshape (snd el) w | None => false end) els
      | _ => false
      end
  | PVariant tag ps =>
      match v with
      | VVariant t vs =>
          if Nat.eqb t tag then
            (fix go (l : list pat) (ws : list value) : bool :=
               match l, ws with
               | [], [] => true
               | q :: t, w :: r => sshape q w && go t r
               | _, _ => false
               end) ps vs
          else true
      | _ => false
      end
  | POr ps => forallb (fun q => sshape q v) ps
  end.

(* the value a match binds to x: the LAST binding of x (C01pat/Sem.v `lookup`) *)
Fixpoint slookup (b : list (name * value)) (x : name) : option value :=
  match b with
  | [] => None
  | (y, w) :: t => match slookup t x with Some w' => Some w' | None => if N.eqb x y then Some w else None end
  end.

(* the environment extended with the bindings of a match, in order (a later binding of a name wins) *)
Fixpoint bind_all (r : name -> option value) (b : list (name * value)) : name -> option value :=
  match b with
  | [] => r
  | (x, w) :: t => bind_all (upd r x (Some w)) t
  end.

(* the values of the captured variables, in the order given *)
Fixpoint lookups (r : name -> option value) (xs : list name) : option (list value) :=
  match xs with
  | [] => Some []
  | x :: t => match r x, lookups r t with Some v, Some vs => Some (v :: vs) | _, _ => None end
  end.
(* the context of a function value made from a lambda: nothing captured = the i31 zero, else a record of the values *)
Definition context_of (vs : list value) : value := match vs with [] => VInt 0 | _ => VStruct vs end.

Inductive sres := SVal (v : value) (tr : trace) | SFail (f : fail).
Inductive lres := LVal (vs : list value) (tr : trace) | LFail (f : fail).

Definition of_cres (void : bool) (c : cres) : sres :=
  match c with
  | CRet v tr => SVal (if void then VInt 0 else v) tr          (* a call of type unit: the one value of unit *)
  | CFail f => SFail f
  end.

Section Sem.
  Variable w : world.
  Variable callee_first : bool.

  (* receiver / callee `ec` and arguments, in the order chosen; k continues with both *)
  Definition with_order (ev_c : trace -> sres) (ev_a : trace -> lres) (tr : trace)
             (k : value -> list value -> trace -> sres) : sres :=
    if callee_first then
      match ev_c tr with
      | SVal c tr1 => match ev_a tr1 with LVal vs tr2 => k c vs tr2 | LFail f => SFail f end
      | SFail f => SFail f
      end
    else
      match ev_a tr with
      | LVal vs tr1 => match ev_c tr1 with SVal c tr2 => k c vs tr2 | SFail f => SFail f end
      | LFail f => SFail f
      end.

  Fixpoint seval (r : name -> option value) (e : expr) (tr : trace) {struct e} : sres :=
    match e with
    | EInt z => SVal (VInt z) tr
    | EBool b => SVal (VInt (if b then 1 else 0)) tr
    | EStr s => SVal (VStr s) tr
    | EVar x => match r x with Some v => SVal v tr | None => SFail FStuck end
    | EClass => SVal (VInt 0) tr
    | EUn UNot a =>
        match seval r a tr with
        | SVal v tr1 => match not_sem v with Some v' => SVal v' tr1 | None => SFail FStuck end
        | o => o
        end
    | EUn UNeg a =>
        match seval r a tr with
        | SVal v tr1 => of_cres false (binop_sem MINUS (VInt 0) v tr1)
        | o => o
        end
    | EBin op a b =>
        match seval r a tr with
        | SVal v1 tr1 =>
            match seval r b tr1 with
            | SVal v2 tr2 => of_cres false (binop_sem op v1 v2 tr2)
            | o => o
            end
        | o => o
        end
    | EAnd a b =>
        match seval r a tr with
        | SVal v1 tr1 =>
            match truth v1 with
            | Some false => SVal (VInt 0) tr1           (* decided: b is not evaluated *)
            | Some true => seval r b tr1
            | None => SFail FStuck
            end
        | o => o
        end
    | EOr a b =>
        match seval r a tr with
        | SVal v1 tr1 =>
            match truth v1 with
            | Some true => SVal (VInt 1) tr1            (* decided: b is not evaluated *)
            | Some false => seval r b tr1
            | None => SFail FStuck
            end
        | o => o
        end
    | EConcat a b =>
        match seval r a tr with
        | SVal v1 tr1 =>
            match seval r b tr1 with
            | SVal v2 tr2 => of_cres false (call_named w FConcat [v1; v2] tr2)
            | o => o
            end
        | o => o
        end
    | ECallM o f args void =>
        with_order (seval r o) (seval_args r args) tr
                   (fun c vs tr2 => of_cres void (call_named w f (c :: vs) tr2))
    | ECallC c args void =>
        with_order (seval r c) (seval_args r args) tr
                   (fun fv vs tr2 => of_cres void (apply_value w fv vs tr2))
    | EMethod o f =>
        match seval r o tr with
        | SVal v tr1 => SVal (VClo f v) tr1
        | o => o
        end
    | EField o i =>
        match seval r o tr with
        | SVal v tr1 => match field_sem v i with Some x => SVal x tr1 | None => SFail FStuck end
        | o => o
        end
    | ETuple c es =>
        match seval_args r es tr with
        | LVal vs tr1 => of_cres false (call_named w (FInit c) (VInt 0 :: vs) tr1)
        | LFail f => SFail f
        end
    | EIf c e1 e2 =>
        match seval r c tr with
        | SVal v tr1 =>
            match truth v with
            | Some true => seval r e1 tr1
            | Some false => seval r e2 tr1
            | None => SFail FStuck
            end
        | o => o
        end
    | EBlock b => seval_blk r b tr
    | EMatch e cs =>
        match seval r e tr with
        | SVal v tr1 => seval_arms r cs v tr1
        | o => o
        end
    | EIfLet p _ e e1 e2 =>
        (* condition first; the bindings are in scope in the first branch only *)
        match seval r e tr with
        | SVal v tr1 =>
            if sshape p v then
              match smatch p v with
              | Some b => seval (bind_all r b) e1 tr1
              | None => seval r e2 tr1
              end
            else SFail FStuck
        | o => o
        end
    | ELambda l caps _ _ =>
        (* a function value: the synthetic function of this lambda and the captured values (the body runs when the
           value is called: answered by the world here, see Lower.lambda_fn for the body) *)
        match lookups r caps with
        | Some vs => SVal (VClo (FLam l) (context_of vs)) tr
        | None => SFail FStuck
        end
    end
  with seval_args (r : name -> option value) (es : exprs) (tr : trace) {struct es} : lres :=
    match es with
    | ENil => LVal [] tr
    | ECons e t =>
        match seval r e tr with
        | SVal v tr1 =>
            match seval_args r t tr1 with
            | LVal vs tr2 => LVal (v :: vs) tr2
            | o => o
            end
        | SFail f => LFail f
        end
    end
  with seval_arms (r : name -> option value) (cs : arms) (v : value) (tr : trace) {struct cs} : sres :=
    (* the arms in written order; the first whose pattern matches is taken; none: the checker demands exhaustive
       matches, so that is an ill-typed situation *)
    match cs with
    | ANil => SFail FStuck
    | ACons p _ body t =>
        if sshape p v then
          match smatch p v with
          | Some b => seval (bind_all r b) body tr
          | None => seval_arms r t v tr
          end
        else SFail FStuck
    end
  with seval_blk (r : name -> option value) (b : blk) (tr : trace) {struct b} : sres :=
    match b with
    | BEndU => SVal (VInt 0) tr
    | BEndE e => seval r e tr
    | BLet x e b =>
        match seval r e tr with
        | SVal v tr1 => seval_blk (match x with Some x => upd r x (Some v) | None => r end) b tr1
        | o => o
        end
    | BLetT _ els e b =>
        match seval r e tr with
        | SVal v tr1 =>
            match bind_tuple r els v with
            | Some r' => seval_blk r' b tr1
            | None => SFail FStuck
            end
        | o => o
        end
    | BLetP p _ e b =>
        (* `let` patterns are irrefutable for the checker: no match is an ill-typed situation *)
        match seval r e tr with
        | SVal v tr1 =>
            if sshape p v then
              match smatch p v with
              | Some bd => seval_blk (bind_all r bd) b tr1
              | None => SFail FStuck
              end
            else SFail FStuck
        | o => o
        end
    | BExp e b =>
        match seval r e tr with
        | SVal _ tr1 => seval_blk r b tr1
        | o => o
        end
    end.
End Sem.
