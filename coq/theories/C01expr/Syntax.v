(* C01 (expression-lowering slice) - syntax.
   Source side: the checked AST of crates/samlang-ast/src/source.rs `expr::E`, the forms that
   `ExpressionLoweringManager::lower` (crates/samlang-compiler/src/hir_lowering.rs 205-239) dispatches on,
   all of them; patterns are C01pat's `pat` (Match, `if let`, `let p`), with a bare variable pattern allowed only in
   `let x` (Syntax.top_ok).  What the lowering reads of the types is made explicit in the term:
     * a call carries `void` = "the type of the call expression is unit" (lower_fn_call, is_void_return);
     * a method access / call carries the HIR function name create_hir_function_name computes from the type of the
       receiver; a tuple carries the class whose `init` is called;
     * `this` is the variable `_this` (lower: `if id.name == PStr::THIS { resolve_variable(UNDERSCORE_THIS) }`).
   HIR side: crates/samlang-ast/src/hir.rs `Expression`, `Statement`, the forms the modelled functions emit.
   Types are erased (they do not influence which statements are emitted, apart from the items above). *)
From Coq Require Import ZArith NArith List Bool.
Import ListNotations.
From SV Require Import Common.Int32.
(* patterns are C01pat's (pat, binders, bindings_of, wf, wfb, shape_ok ..); the names this file defines afterwards
   (expr, EInt, EVar, ONE, ZERO, memb, ..) take precedence over the ones of that file *)
From SV Require Export C01pat.Syntax.

Notation name := N (only parsing).
(* a string literal as it is written between the quotes (bytes; escape sequences are not decoded here:
   the lowering never looks inside, `::` on two literals concatenates the written texts) *)
Notation str := (list N) (only parsing).

(* HIR function names.  FInit c: the constructor `init` of the struct class c (lower_constructors: its body is
   one StructInit of its parameters; tuples are instances of such classes).  FConcat: Str.concat of the runtime
   library (what `::` is lowered to).  FUser: every other function; answered by the world.  FLam l: the synthetic function made for the lambda expression l
   (create_synthetic_lambda_function); also answered by the world - that it behaves like the body is a theorem about
   Lower.lambda_fn.  FPanic: Process.panic (the fall-through of a lowered match calls it); answered by the world. *)
Inductive fname := FUser (f : N) | FInit (c : N) | FConcat | FLam (l : N) | FPanic.

Inductive unop := UNot | UNeg.

(* ------------------------------------------------------------------ source expressions *)
Inductive expr :=
| EInt (z : Z)                                  (* Literal Int *)
| EBool (b : bool)                              (* Literal Bool *)
| EStr (s : str)                                (* Literal String *)
| EVar (x : name)                               (* LocalId (`this` = the name of `_this`) *)
| EClass                                        (* ClassId: the receiver of a class function *)
| EUn (op : unop) (e : expr)
| EBin (op : binop) (e1 e2 : expr)              (* * / % + - < <= > >= == != *)
| EAnd (e1 e2 : expr)
| EOr (e1 e2 : expr)
| EConcat (e1 e2 : expr)
| ECallM (obj : expr) (f : fname) (args : exprs) (void : bool)   (* Call whose callee is MethodAccess(obj, f): C.f(args), o.m(args) *)
| ECallC (callee : expr) (args : exprs) (void : bool)            (* Call of any other callee: a function value *)
| EMethod (obj : expr) (f : fname)              (* MethodAccess used as a value *)
| EField (obj : expr) (i : nat)                 (* FieldAccess, i = field_order *)
| ETuple (c : N) (es : exprs)
| EIf (c : expr) (e1 e2 : expr)                 (* IfElse with an Expression condition; e1 is a block, e2 a block or an if *)
| EBlock (b : blk)
| EMatch (e : expr) (cases : arms)               (* Match: the arms in written order *)
| EIfLet (p : pat) (bs : list name) (e : expr) (e1 e2 : expr)
                                                (* IfElse with a Guard condition `if let p = e`; bs = the keys of
                                                   p.bindings() in the order the lowering iterates them *)
| ELambda (l : N) (caps : list name) (params : list name) (body : expr)
                                                (* Lambda: l identifies the expression (the tie gives it the number of
                                                   its synthetic function); caps = the keys of `captured` in the order
                                                   the lowering iterates them, `this` written `_this` *)
with exprs :=
| ENil
| ECons (e : expr) (es : exprs)
with arms :=
| ANil
| ACons (p : pat) (bs : list name) (body : expr) (rest : arms)
with blk :=                                     (* the statements of a block and its final expression *)
| BEndU                                         (* no final expression: unit *)
| BEndE (e : expr)
| BLet (x : option name) (e : expr) (b : blk)   (* `let x = e;` (Some x) / `let _ = e;` (None) *)
| BLetT (bs : list name) (els : list (option name)) (e : expr) (b : blk)
                                                (* `let (p0, .., pm) = e;` with every p a variable or `_`;
                                                   bs = the keys of pattern.bindings() in the order the lowering
                                                   iterates them (a BTreeMap) *)
| BLetP (p : pat) (bs : list name) (e : expr) (b : blk)
                                                (* `let p = e;` with any pattern (lowered through C01pat's lower_guard) *)
| BExp (e : expr) (b : blk).                    (* `e;` *)

Scheme expr_mind := Induction for expr Sort Prop
with exprs_mind := Induction for exprs Sort Prop
with arms_mind := Induction for arms Sort Prop
with blk_mind := Induction for blk Sort Prop.
Combined Scheme syntax_mind from expr_mind, exprs_mind, arms_mind, blk_mind.

Fixpoint exprs_of (l : list expr) : exprs :=
  match l with [] => ENil | e :: t => ECons e (exprs_of t) end.
Fixpoint list_of (es : exprs) : list expr :=
  match es with ENil => [] | ECons e t => e :: list_of t end.

(* ------------------------------------------------------------------ HIR fragment *)
Inductive hexpr :=
| HInt (z : Z)            (* IntLiteral *)
| HI31                    (* Int31Zero *)
| HStr (s : str)          (* StringName: the global that holds this text (hir_string_manager.rs: named by its content) *)
| HVar (x : name).        (* Variable *)
Definition ONE : hexpr := HInt 1.
Definition ZERO : hexpr := HInt 0.

Inductive hcallee := HCFn (f : fname) | HCVar (x : name).

(* final assignment (name, e1, e2): name := e1 after s1, name := e2 after s2 *)
Notation fassign := (name * hexpr * hexpr)%type (only parsing).

Inductive hstmt :=
| HBin (x : name) (op : binop) (e1 e2 : hexpr)                    (* Binary *)
| HNot (x : name) (e : hexpr)                                     (* Not *)
| HCall (c : hcallee) (args : list hexpr) (ret : option name)     (* Call, return_collector *)
| HIf (c : hexpr) (s1 s2 : list hstmt) (fas : list fassign)       (* IfElse *)
| HIndex (x : name) (e : hexpr) (i : nat)                         (* IndexedAccess *)
| HDecl (x : name)                                                (* LateInitDeclaration *)
| HAssign (x : name) (e : hexpr)                                  (* LateInitAssignment *)
| HClosure (x : name) (f : fname) (ctx : hexpr)                   (* ClosureInit *)
| HStruct (x : name) (es : list hexpr)                            (* StructInit (the context of a lambda) *)
| HDestr (e : hexpr) (tag : nat) (bs : list (option name)) (s1 s2 : list hstmt) (fas : list fassign)
                                                                  (* ConditionalDestructure *)
| HUnreachable.          (* the lowering itself panics here (`unwrap()` on a callee that is not a variable) *)

(* ------------------------------------------------------------------ names bound inside an expression *)
(* every name a `let` inside e binds (at any depth) *)
Fixpoint bv (e : expr) : list name :=
  match e with
  | EInt _ | EBool _ | EStr _ | EVar _ | EClass => []
  | EUn _ e => bv e
  | EBin _ e1 e2 | EAnd e1 e2 | EOr e1 e2 | EConcat e1 e2 => bv e1 ++ bv e2
  | ECallM o _ args _ => bv o ++ bvs args
  | ECallC c args _ => bv c ++ bvs args
  | EMethod o _ => bv o
  | EField o _ => bv o
  | ETuple _ es => bvs es
  | EIf c e1 e2 => bv c ++ bv e1 ++ bv e2
  | EBlock b => bvb b
  | EMatch e cs => bv e ++ bva cs
  | EIfLet _ bs e e1 e2 => bv e ++ bs ++ bv e1 ++ bv e2
  | ELambda _ _ _ _ => []          (* the body is lowered by a manager of its own: nothing reaches the enclosing scopes *)
  end
with bvs (es : exprs) : list name :=
  match es with ENil => [] | ECons e t => bv e ++ bvs t end
with bva (cs : arms) : list name :=
  match cs with ANil => [] | ACons _ bs body t => bva t ++ bs ++ bv body end
with bvb (b : blk) : list name :=
  match b with
  | BEndU => []
  | BEndE e => bv e
  | BLet x e b => bv e ++ (match x with Some x => [x] | None => [] end) ++ bvb b
  | BLetT bs _ e b => bv e ++ bs ++ bvb b
  | BLetP _ bs e b => bv e ++ bs ++ bvb b
  | BExp e b => bv e ++ bvb b
  end.

(* The pattern of a match arm, an `if let` or a `let p`: what the checker guarantees and C01pat's theorems ask for -
   or-alternatives bind the same names (wf), the keys are distinct and cover the variables; and, for this slice, the
   pattern is structured at the top or a wildcard (a bare variable pattern assigns the matched EXPRESSION, which the
   pattern model can only name when it is a variable or an int literal; `let x = e` has its own form BLet) *)
Fixpoint structured (p : pat) : bool :=
  match p with
  | PTuple _ | PObject _ | PVariant _ _ => true
  | POr ps => match ps with [] => false | _ => forallb structured ps end
  | PWild | PVar _ => false
  end.
Definition top_ok (p : pat) : bool := match p with PWild => true | _ => structured p end.
Definition site_ok (D : list name) (p : pat) (bs : list name) : Prop :=
  wf p /\ NoDup bs /\ incl (binders p) bs /\ (forall x, In x bs -> ~ In x D) /\ top_ok p = true.

(* No `let` rebinds a name that is in scope where it stands (D = the names in scope).  The checker enforces it
   (ssa_analysis.rs define_id: "name already bound" when the name is found in any enclosing scope); the tie
   evaluates it on every function body it translates.  It is what makes the scope bookkeeping of lower_if_else
   harmless: see Lower.v. *)
Fixpoint ns (D : list name) (e : expr) : Prop :=
  match e with
  | EInt _ | EBool _ | EStr _ | EVar _ | EClass => True
  | EUn _ e => ns D e
  | EBin _ e1 e2 | EAnd e1 e2 | EOr e1 e2 | EConcat e1 e2 => ns D e1 /\ ns D e2
  | ECallM o _ args _ => ns D o /\ nss D args
  | ECallC c args _ => ns D c /\ nss D args
  | EMethod o _ => ns D o
  | EField o _ => ns D o
  | ETuple _ es => nss D es
  | EIf c e1 e2 => ns D c /\ ns D e1 /\ ns D e2
  | EBlock b => nsb D b
  | EMatch e cs => ns D e /\ nsa D cs
  | EIfLet p bs e e1 e2 => ns D e /\ site_ok D p bs /\ ns (bs ++ D) e1 /\ ns (bs ++ D) e2
  | ELambda _ _ _ _ => True        (* the body has its own statement: nsL *)
  end
with nss (D : list name) (es : exprs) : Prop :=
  match es with ENil => True | ECons e t => ns D e /\ nss D t end
with nsa (D : list name) (cs : arms) : Prop :=
  match cs with ANil => True | ACons p bs body t => site_ok D p bs /\ ns (bs ++ D) body /\ nsa D t end
with nsb (D : list name) (b : blk) : Prop :=
  match b with
  | BEndU => True
  | BEndE e => ns D e
  | BLet (Some x) e b => ns D e /\ ~ In x D /\ nsb (x :: D) b
  | BLet None e b => ns D e /\ nsb D b
  | BLetT bs els e b =>
      (* the keys are distinct, are exactly the variables of the pattern, and none is visible *)
      ns D e /\ NoDup bs /\ (forall x, In (Some x) els <-> In x bs) /\ (forall x, In x bs -> ~ In x D) /\ nsb (bs ++ D) b
  | BLetP p bs e b => ns D e /\ site_ok D p bs /\ nsb (bs ++ D) b
  | BExp e b => ns D e /\ nsb D b
  end.

(* the name `_this` (checks/c01_expr.py numbers it 0) *)
Definition this_name : name := 0%N.

Definition memb (x : name) (l : list name) : bool := existsb (N.eqb x) l.
Fixpoint nodupb (l : list name) : bool := match l with [] => true | x :: t => negb (memb x t) && nodupb t end.
Definition el_names (els : list (option name)) : list name :=
  flat_map (fun el => match el with Some x => [x] | None => [] end) els.

Definition inclb (a b : list name) : bool := forallb (fun x => memb x b) a.
Definition site_okB (D : list name) (p : pat) (bs : list name) : bool :=
  wfb p && nodupb bs && inclb (binders p) bs && forallb (fun x => negb (memb x D)) bs && top_ok p.

Fixpoint nsB (D : list name) (e : expr) : bool :=
  match e with
  | EInt _ | EBool _ | EStr _ | EVar _ | EClass => true
  | EUn _ e => nsB D e
  | EBin _ e1 e2 | EAnd e1 e2 | EOr e1 e2 | EConcat e1 e2 => nsB D e1 && nsB D e2
  | ECallM o _ args _ => nsB D o && nssB D args
  | ECallC c args _ => nsB D c && nssB D args
  | EMethod o _ => nsB D o
  | EField o _ => nsB D o
  | ETuple _ es => nssB D es
  | EIf c e1 e2 => nsB D c && nsB D e1 && nsB D e2
  | EBlock b => nsbB D b
  | EMatch e cs => nsB D e && nsaB D cs
  | EIfLet p bs e e1 e2 => nsB D e && site_okB D p bs && nsB (bs ++ D) e1 && nsB (bs ++ D) e2
  | ELambda _ _ _ _ => true
  end
with nssB (D : list name) (es : exprs) : bool :=
  match es with ENil => true | ECons e t => nsB D e && nssB D t end
with nsaB (D : list name) (cs : arms) : bool :=
  match cs with ANil => true | ACons p bs body t => site_okB D p bs && nsB (bs ++ D) body && nsaB D t end
with nsbB (D : list name) (b : blk) : bool :=
  match b with
  | BEndU => true
  | BEndE e => nsB D e
  | BLet (Some x) e b => nsB D e && negb (memb x D) && nsbB (x :: D) b
  | BLet None e b => nsB D e && nsbB D b
  | BLetT bs els e b =>
      nsB D e && nodupb bs && forallb (fun x => memb x bs) (el_names els) && forallb (fun x => memb x (el_names els)) bs &&
      forallb (fun x => negb (memb x D)) bs && nsbB (bs ++ D) b
  | BLetP p bs e b => nsB D e && site_okB D p bs && nsbB (bs ++ D) b
  | BExp e b => nsB D e && nsbB D b
  end.
