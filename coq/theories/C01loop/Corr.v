(* C01 (loop-lowering slice) — definitions evaluated with vm_compute on the cases printed by `vh lir-dump`
   (checks/c01_loop.py), and the witnesses of the refutations in Props.v. *)
From Coq Require Import ZArith NArith List Bool.
Import ListNotations.
From SV Require Import Common.Int32 C01loop.Syntax C01loop.Sem C01loop.Lower.
Open Scope Z_scope.

(* ------------------------------------------------------------------ syntactic equality *)
Definition expr_eqb (a b : expr) : bool :=
  match a, b with
  | EInt x, EInt y => Z.eqb x y
  | EVar x, EVar y => N.eqb x y
  | _, _ => false
  end.
Definition binop_eqb (a b : binop) : bool :=
  match a, b with
  | MUL, MUL | DIV, DIV | MOD, MOD | PLUS, PLUS | MINUS, MINUS | LAND, LAND | LOR, LOR | SHL, SHL | SHR, SHR
  | XOR, XOR | LT, LT | LE, LE | GT, GT | GE, GE | EQ, EQ | NE, NE => true
  | _, _ => false
  end.
Fixpoint list_eqb {A} (eq : A -> A -> bool) (a b : list A) : bool :=
  match a, b with
  | [], [] => true
  | x :: r, y :: r' => eq x y && list_eqb eq r r'
  | _, _ => false
  end.
Definition opt_eqb (a b : option N) : bool :=
  match a, b with Some x, Some y => N.eqb x y | None, None => true | _, _ => false end.
Definition triple_eqb (a b : N * expr * expr) : bool :=
  N.eqb (fst (fst a)) (fst (fst b)) && expr_eqb (snd (fst a)) (snd (fst b)) && expr_eqb (snd a) (snd b).

Fixpoint stmt_eqb (a b : stmt) {struct a} : bool :=
  let fix go (x y : list stmt) : bool :=
    match x, y with
    | [], [] => true
    | s :: r, s' :: r' => stmt_eqb s s' && go r r'
    | _, _ => false
    end in
  match a, b with
  | SBin x op e1 e2, SBin x' op' e1' e2' => N.eqb x x' && binop_eqb op op' && expr_eqb e1 e1' && expr_eqb e2 e2'
  | SCast x e, SCast x' e' => N.eqb x x' && expr_eqb e e'
  | SOp x c args, SOp x' c' args' => opt_eqb x x' && N.eqb c c' && list_eqb expr_eqb args args'
  | SIf c s1 s2 fas, SIf c' s1' s2' fas' => expr_eqb c c' && go s1 s1' && go s2 s2' && list_eqb triple_eqb fas fas'
  | SSIf c i ss, SSIf c' i' ss' => expr_eqb c c' && Bool.eqb i i' && go ss ss'
  | SBreak e, SBreak e' => expr_eqb e e'
  | SWhile lvs ss bc, SWhile lvs' ss' bc' => list_eqb triple_eqb lvs lvs' && go ss ss' && opt_eqb bc bc'
  | _, _ => false
  end.

(* ------------------------------------------------------------------ a concrete world for the instances *)
(* hidden state: the list of operation results so far (newest first); an operation faults now and then *)
Definition tw (code : N) (args : list Z) (h : list Z) : list Z * option Z :=
  let v := fold_left (fun a x => (a * 31 + x) mod 65521) args (Z.of_N code + 7 * Z.of_nat (length h)) in
  if v mod 37 =? 0 then (v :: h, None) else (v :: h, Some (v mod 13 - 4)).

(* small initial values, so that counting loops end within the fuel *)
Definition inst_env (k : nat) : env := fun x => Z.of_N ((x * 7 + N.of_nat k * 13) mod 9) - 2.
Definition inst_fuel : nat := 48.
Definition inst_count : nat := 6.

Definition outcome_eqb_on (xs : list N) (o1 o2 : outcome (list Z)) : bool :=
  match o1, o2 with
  | ONormal m h, ONormal l h' => forallb (fun x => Z.eqb (m x) (l x)) xs && list_eqb Z.eqb h h'
  | OBreak v m h, OBreak v' l h' => Z.eqb v v' && forallb (fun x => Z.eqb (m x) (l x)) xs && list_eqb Z.eqb h h'
  | OTrap h, OTrap h' => list_eqb Z.eqb h h'
  | OFuel, OFuel => true
  | _, _ => false
  end.
Definition finished (o : outcome (list Z)) : bool := match o with OFuel => false | _ => true end.

(* the temporaries of one lowering, in the order in which the counter hands them out *)
Definition tmp_of (supply : list N) (k : nat) : N := nth k supply 0%N.

Definition count (p : nat -> bool) (n : nat) : N := N.of_nat (length (filter p (seq 0 n))).
Definition b2n (b : bool) : N := if b then 1%N else 0%N.

(* one real loop: mir = the MIR While, lir = what lir_lowering produced for it, supply = the names that
   occur in lir and not in mir (python sorts them by the counter value in `_t<k>`).
   row = [structure differs; wf; fresh; temporaries; instances equal; instances different;
          instances on which the lowering without temporaries differs; instances that finish] *)
Definition tie_case (c : stmt * stmt * list N) : list N :=
  let '(mir, lir, supply) := c in
  let tmp := tmp_of supply in
  let (model, n1) := lower_stmt tmp mir 0 in
  let xs := names_stmt mir in
  let nosave := fst (lower_stmt_with tmp policy_no_save mir 0) in
  let run_m k := sem_mir (list Z) tw inst_fuel mir (inst_env k) [] in
  [ b2n (negb (stmt_eqb model lir && Nat.eqb n1 (length supply)));
    b2n (wfb mir);
    b2n (nodupb supply && forallb (fun t => negb (mem t xs)) supply);
    N.of_nat (length supply);
    count (fun k => outcome_eqb_on xs (run_m k) (sem_lir (list Z) tw None inst_fuel lir (inst_env k) [])) inst_count;
    count (fun k => negb (outcome_eqb_on xs (run_m k) (sem_lir (list Z) tw None inst_fuel lir (inst_env k) []))) inst_count;
    count (fun k => negb (outcome_eqb_on xs (run_m k) (sem_lir (list Z) tw None inst_fuel nosave (inst_env k) []))) inst_count;
    count (fun k => finished (run_m k)) inst_count ].
Definition tie_cases (cs : list (stmt * stmt * list N)) : list (list N) := map tie_case cs.

(* ------------------------------------------------------------------ witnesses *)
(* names: a=1 b=2 n=3 c=4 n'=5 ret=6 a0=7 b0=8 n0=9 d=10 d0=11; temporaries 100, 101, ... *)
Definition tmp0 (k : nat) : N := (100 + N.of_nat k)%N.
Definition w0 (_ : N) (_ : list Z) (_ : unit) : unit * option Z := (tt, Some 0).
Definition count_down (ret : expr) : list stmt :=
  [SBin 4 LE (EVar 3) (EInt 0); SSIf (EVar 4) false [SBreak ret]; SBin 5 MINUS (EVar 3) (EInt 1)].

(* f(a, b, n) = if n <= 0 { b } else { f(b, a, n - 1) }: the swap `a, b := b, a` *)
Definition swap_loop : stmt :=
  SWhile [(1%N, EVar 7, EVar 2); (2%N, EVar 8, EVar 1); (3%N, EVar 9, EVar 5)] (count_down (EVar 2)) (Some 6%N).
(* a := b, b := d, d := a (a chain / rotation) *)
Definition rotate_loop : stmt :=
  SWhile [(1%N, EVar 7, EVar 2); (2%N, EVar 8, EVar 10); (10%N, EVar 11, EVar 1); (3%N, EVar 9, EVar 5)]
         (count_down (EVar 10)) (Some 6%N).
Definition env0 : env := fun x => match x with 7%N => 1 | 8%N => 2 | 9%N => 1 | 11%N => 3 | _ => 0 end.
Definition env1 : env := fun x => match x with 7%N => 5 | 8%N => 2 | 9%N => 1 | _ => 0 end.

(* outside wf: two loop variables with one name / a final assignment that reads an earlier one *)
Definition dup_loop : stmt :=
  SWhile [(1%N, EVar 7, EVar 3); (1%N, EVar 7, EVar 1); (3%N, EVar 9, EVar 5)] (count_down (EVar 1)) (Some 6%N).
Definition fas_stmt : stmt := SIf (EInt 1) [] [] [(1%N, EInt 10, EInt 0); (2%N, EVar 1, EInt 0)].

Definition result_at (x : N) (o : outcome unit) : option Z :=
  match o with ONormal r _ => Some (r x) | _ => None end.
