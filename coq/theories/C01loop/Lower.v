(* C01 (loop-lowering slice) — crates/samlang-compiler/src/lir_lowering.rs, `lower_stmt`, restricted to
   the fragment.  Every statement of the fragment lowers to exactly one statement; the only case that
   does something is `mir::Statement::While` (lines 217-259):

     let loop_variable_names = loop_variables.iter().map(|v| v.name).collect_vec();
     let mut saved_loop_values = Vec::new();
     let loop_variables = loop_variables.into_iter().map(|{name, type_, initial_value, loop_value}| {
         let mut loop_value = self.lower_expression(loop_value);
         let reads_other_loop_variable = match &loop_value {
           Variable(n, t) if *n != name && loop_variable_names.contains(n) => Some(t.clone()), _ => None };
         if let Some(t) = reads_other_loop_variable {
           let temp = self.heap.alloc_temp_str();
           saved_loop_values.push(Cast { name: temp, type_: t, assigned_expression: loop_value });
           loop_value = Variable(temp, t);
         }
         GenenalLoopVariable { name, type_, initial_value, loop_value } }).collect_vec();
     let mut statements = self.lower_stmt_block(statements);
     statements.append(&mut saved_loop_values);

   Temporaries come from the heap's counter: `tmp k` is the k-th name it hands out, the state is the
   counter.  The temporaries of a loop are drawn while its loop variables are mapped, i.e. BEFORE its
   body is lowered; an IfElse lowers s1 before s2. *)
From Coq Require Import ZArith NArith List Bool.
Import ListNotations.
From SV Require Import Common.Int32 C01loop.Syntax.

Section Lower.
  Variable tmp : nat -> N.

  (* `Variable(n, _) if *n != name && loop_variable_names.contains(n)` *)
  Definition reads_other_loop_variable (names : list N) (x : N) (v : expr) : bool :=
    match v with
    | EVar n => negb (N.eqb n x) && mem n names
    | EInt _ => false
    end.

  (* the closure mapped over the loop variables; result: (loop variables, saved_loop_values, counter) *)
  Fixpoint lower_lvs (names : list N) (lvs : list (N * expr * expr)) (n : nat)
    : list (N * expr * expr) * list stmt * nat :=
    match lvs with
    | [] => ([], [], n)
    | (x, i, v) :: t =>
        if reads_other_loop_variable names x v then
          let '(t', saved, n') := lower_lvs names t (S n) in
          ((x, i, EVar (tmp n)) :: t', SCast (tmp n) v :: saved, n')
        else
          let '(t', saved, n') := lower_lvs names t n in
          ((x, i, v) :: t', saved, n')
    end.

  Fixpoint lower_stmt (s : stmt) (n : nat) {struct s} : stmt * nat :=
    let lower_block := fix lower_block (ss : list stmt) (n : nat) {struct ss} : list stmt * nat :=
      match ss with
      | [] => ([], n)
      | s :: t =>
          let (s', n1) := lower_stmt s n in
          let (t', n2) := lower_block t n1 in
          (s' :: t', n2)
      end in
    match s with
    | SBin x op e1 e2 => (SBin x op e1 e2, n)
    | SCast x e => (SCast x e, n)
    | SOp x code args => (SOp x code args, n)
    | SBreak e => (SBreak e, n)
    | SIf c s1 s2 fas =>
        let (s1', n1) := lower_block s1 n in
        let (s2', n2) := lower_block s2 n1 in
        (SIf c s1' s2' fas, n2)
    | SSIf c inv ss =>
        let (ss', n1) := lower_block ss n in
        (SSIf c inv ss', n1)
    | SWhile lvs body bc =>
        let '(lvs', saved, n1) := lower_lvs (map lv_name lvs) lvs n in
        let (body', n2) := lower_block body n1 in
        (SWhile lvs' (body' ++ saved) bc, n2)
    end.

  Fixpoint lower_block (ss : list stmt) (n : nat) {struct ss} : list stmt * nat :=
    match ss with
    | [] => ([], n)
    | s :: t =>
        let (s', n1) := lower_stmt s n in
        let (t', n2) := lower_block t n1 in
        (s' :: t', n2)
    end.

  (* the single loop, as the statement-level entry point *)
  Definition lower_while (lvs : list (N * expr * expr)) (body : list stmt) (bc : option N) (n : nat) : stmt * nat :=
    lower_stmt (SWhile lvs body bc) n.

  Definition lower (s : stmt) (n : nat) : stmt := fst (lower_stmt s n).
  Definition next_counter (s : stmt) (n : nat) : nat := snd (lower_stmt s n).

  (* the temporaries drawn by a lowering that starts at counter n0 and ends at n1 *)
  Definition temps (n0 n1 : nat) : list N := map tmp (seq n0 (n1 - n0)).

  (* ---------------------------------------------------------------------------------------------
     Variants of the While case (everything else as above), for the refutations:
     `policy all_names i x v` decides whether the loop value v of the i-th loop variable x is saved. *)
  Fixpoint lower_lvs_with (policy : nat -> N -> expr -> bool) (i : nat) (lvs : list (N * expr * expr)) (n : nat)
    : list (N * expr * expr) * list stmt * nat :=
    match lvs with
    | [] => ([], [], n)
    | (x, ini, v) :: t =>
        if policy i x v then
          let '(t', saved, n') := lower_lvs_with policy (S i) t (S n) in
          ((x, ini, EVar (tmp n)) :: t', SCast (tmp n) v :: saved, n')
        else
          let '(t', saved, n') := lower_lvs_with policy (S i) t n in
          ((x, ini, v) :: t', saved, n')
    end.

  Fixpoint lower_stmt_with (policy : list N -> nat -> N -> expr -> bool) (s : stmt) (n : nat) {struct s} : stmt * nat :=
    let lower_block := fix lower_block (ss : list stmt) (n : nat) {struct ss} : list stmt * nat :=
      match ss with
      | [] => ([], n)
      | s :: t =>
          let (s', n1) := lower_stmt_with policy s n in
          let (t', n2) := lower_block t n1 in
          (s' :: t', n2)
      end in
    match s with
    | SBin x op e1 e2 => (SBin x op e1 e2, n)
    | SCast x e => (SCast x e, n)
    | SOp x code args => (SOp x code args, n)
    | SBreak e => (SBreak e, n)
    | SIf c s1 s2 fas =>
        let (s1', n1) := lower_block s1 n in
        let (s2', n2) := lower_block s2 n1 in
        (SIf c s1' s2' fas, n2)
    | SSIf c inv ss =>
        let (ss', n1) := lower_block ss n in
        (SSIf c inv ss', n1)
    | SWhile lvs body bc =>
        let '(lvs', saved, n1) := lower_lvs_with (policy (map lv_name lvs)) 0 lvs n in
        let (body', n2) := lower_block body n1 in
        (SWhile lvs' (body' ++ saved) bc, n2)
    end.

  (* the code as written *)
  Definition policy_real (names : list N) (_ : nat) (x : N) (v : expr) : bool := reads_other_loop_variable names x v.
  (* before fix 1180e24: loop values copied as they are *)
  Definition policy_no_save (_ : list N) (_ : nat) (_ : N) (_ : expr) : bool := false.
  (* seeded change C01-3: `Variable(n, t) if loop_variable_names[i + 1..].contains(n)` *)
  Definition policy_save_later_only (names : list N) (i : nat) (_ : N) (v : expr) : bool :=
    match v with EVar n => mem n (skipn (S i) names) | EInt _ => false end.
End Lower.

(* the temporaries drawn by the lowering of s from counter n0 on are pairwise different and do not occur
   in s (what `Heap::alloc_temp_str` promises: a name nobody else has) *)
Definition temps_fresh (tmp : nat -> N) (s : stmt) (n0 : nat) : Prop :=
  let T := temps tmp n0 (next_counter tmp s n0) in
  NoDup T /\ forall x, In x T -> ~ In x (names_stmt s).
