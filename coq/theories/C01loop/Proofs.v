(* C01 (loop-lowering slice) — proofs: the lowering of Lower.v preserves the semantics of Sem.v. *)
From Coq Require Import ZArith NArith List Bool Lia.
Import ListNotations.
From SV Require Import Common.Int32 C01loop.Syntax C01loop.Sem C01loop.Lower C01loop.Corr.
Open Scope nat_scope.

(* ------------------------------------------------------------------ small facts *)
Lemma mem_In x l : mem x l = true <-> In x l.
Proof.
  unfold mem. rewrite existsb_exists. split.
  - intros [y [Hy He]]. apply N.eqb_eq in He. now subst.
  - intros H. exists x. split; [assumption | apply N.eqb_refl].
Qed.
Lemma mem_false x l : mem x l = false <-> ~ In x l.
Proof. rewrite <- mem_In. destruct (mem x l); split; congruence. Qed.

Section Unfold.
Variable St : Type.
Variable world : N -> list Z -> St -> St * option Z.
Notation exec := (exec St world).
Notation loop := (loop St world).
Notation run_block := (run_block St).

Lemma run_block_app ex a b r h :
  run_block ex (a ++ b) r h = match run_block ex a r h with ONormal r' h' => run_block ex b r' h' | o => o end.
Proof.
  revert r h. induction a as [|s a IH]; intros r h; simpl; [reflexivity|].
  destruct (ex s r h); try reflexivity. apply IH.
Qed.

(* unfolding equations of the semantics *)
Lemma exec_if md ctx f c s1 s2 fas r h :
  exec md ctx (S f) (SIf c s1 s2 fas) r h =
  match run_block (exec md ctx f) (if truthy (eval c r) then s1 else s2) r h with
  | ONormal r' h' => ONormal (assign_all md (fas_side (truthy (eval c r)) fas) r') h'
  | o => o
  end.
Proof. reflexivity. Qed.
Lemma exec_sif md ctx f c inv ss r h :
  exec md ctx (S f) (SSIf c inv ss) r h =
  if xorb (truthy (eval c r)) inv then run_block (exec md ctx f) ss r h else ONormal r h.
Proof. reflexivity. Qed.
Lemma exec_while md ctx f lvs body bc r h :
  exec md ctx (S f) (SWhile lvs body bc) r h = loop md f lvs body bc (seq_assign (inits lvs) r) h.
Proof. reflexivity. Qed.
Lemma loop_S md f lvs body bc r h :
  loop md (S f) lvs body bc r h =
  match run_block (exec md bc f) body r h with
  | ONormal r' h' => loop md f lvs body bc (assign_all md (updates lvs) r') h'
  | OBreak v r' h' => ONormal (match md with Mir => set_opt bc v r' | Lir => r' end) h'
  | o => o
  end.
Proof. reflexivity. Qed.
End Unfold.

Section WithTmp.
  Variable St : Type.
  Variable world : N -> list Z -> St -> St * option Z.
  Notation exec := (exec St world).
  Notation loop := (loop St world).
  Notation run_block := (run_block St).
  Notation sem_mir := (sem_mir St world).
  Notation sem_lir := (sem_lir St world).
  Variable tmp : nat -> N.

  (* unfolding equations of the lowering *)
  Lemma lower_if c s1 s2 fas n :
    lower_stmt tmp (SIf c s1 s2 fas) n =
    let (s1', n1) := lower_block tmp s1 n in
    let (s2', n2) := lower_block tmp s2 n1 in (SIf c s1' s2' fas, n2).
  Proof. reflexivity. Qed.
  Lemma lower_sif c inv ss n :
    lower_stmt tmp (SSIf c inv ss) n = let (ss', n1) := lower_block tmp ss n in (SSIf c inv ss', n1).
  Proof. reflexivity. Qed.
  Lemma lower_while_eq lvs body bc n :
    lower_stmt tmp (SWhile lvs body bc) n =
    let '(lvs', saved, n1) := lower_lvs tmp (map lv_name lvs) lvs n in
    let (body', n2) := lower_block tmp body n1 in (SWhile lvs' (body' ++ saved) bc, n2).
  Proof. reflexivity. Qed.

  (* the counter only grows *)
  Lemma lower_lvs_mono names lvs : forall n, n <= snd (lower_lvs tmp names lvs n).
  Proof.
    induction lvs as [|[[x i] v] t IH]; intros n; simpl; [lia|].
    destruct (reads_other_loop_variable names x v).
    - specialize (IH (S n)). destruct (lower_lvs tmp names t (S n)) as [[t' sv] n']. simpl in *. lia.
    - specialize (IH n). destruct (lower_lvs tmp names t n) as [[t' sv] n']. simpl in *. lia.
  Qed.

  Lemma lower_block_mono_from ss :
    Forall (fun s => forall n, n <= snd (lower_stmt tmp s n)) ss -> forall n, n <= snd (lower_block tmp ss n).
  Proof.
    induction 1 as [|s t Hs _ IH]; intros n; simpl; [lia|].
    specialize (Hs n). destruct (lower_stmt tmp s n) as [s' n1].
    specialize (IH n1). destruct (lower_block tmp t n1) as [t' n2]. simpl in *. lia.
  Qed.

  Lemma lower_stmt_mono s : forall n, n <= snd (lower_stmt tmp s n).
  Proof.
    induction s using stmt_ind'; intros n; try (simpl; lia).
    - rewrite lower_if.
      pose proof (lower_block_mono_from s1 H n). destruct (lower_block tmp s1 n) as [a n1].
      pose proof (lower_block_mono_from s2 H0 n1). destruct (lower_block tmp s2 n1) as [b n2]. simpl in *. lia.
    - rewrite lower_sif.
      pose proof (lower_block_mono_from ss H n). destruct (lower_block tmp ss n) as [a n1]. simpl in *. lia.
    - rewrite lower_while_eq.
      pose proof (lower_lvs_mono (map lv_name lvs) lvs n).
      destruct (lower_lvs tmp (map lv_name lvs) lvs n) as [[l' sv] n1].
      pose proof (lower_block_mono_from body H n1). destruct (lower_block tmp body n1) as [b n2]. simpl in *. lia.
  Qed.

  Lemma lower_block_mono ss : forall n, n <= snd (lower_block tmp ss n).
  Proof. apply lower_block_mono_from. apply Forall_forall. intros s _. apply lower_stmt_mono. Qed.

  (* names and initial values of the loop variables are kept *)
  Lemma lower_lvs_inits names lvs : forall n, inits (fst (fst (lower_lvs tmp names lvs n))) = inits lvs.
  Proof.
    induction lvs as [|[[x i] v] t IH]; intros n; simpl; [reflexivity|].
    destruct (reads_other_loop_variable names x v).
    - specialize (IH (S n)). destruct (lower_lvs tmp names t (S n)) as [[t' sv] n']. simpl in *. now rewrite IH.
    - specialize (IH n). destruct (lower_lvs tmp names t n) as [[t' sv] n']. simpl in *. now rewrite IH.
  Qed.

  (* ---------------------------------------------------------------- the invariant *)
  Variables lo hi : nat.
  Definition is_tmp (x : N) : Prop := exists k, lo <= k < hi /\ x = tmp k.
  Hypothesis tmp_inj : forall j k, lo <= j < hi -> lo <= k < hi -> tmp j = tmp k -> j = k.

  (* the two environments agree on everything that is not a temporary of this lowering *)
  Definition agree (m l : env) : Prop := forall x, ~ is_tmp x -> m x = l x.
  Definition clean (xs : list N) : Prop := forall x, In x xs -> ~ is_tmp x.

  Definition orel (cl : option N) (o1 o2 : outcome St) : Prop :=
    match o1, o2 with
    | ONormal m h, ONormal l h' => agree m l /\ h = h'
    | OBreak v m h, OBreak v' l h' => v = v' /\ agree (set_opt cl v m) l /\ h = h'
    | OTrap h, OTrap h' => h = h'
    | OFuel, OFuel => True
    | _, _ => False
    end.

  Lemma clean_app a b : clean (a ++ b) <-> clean a /\ clean b.
  Proof.
    unfold clean. split.
    - intros H. split; intros x Hx; apply H, in_or_app; auto.
    - intros [Ha Hb] x Hx. apply in_app_or in Hx. destruct Hx; auto.
  Qed.
  Lemma clean_cons x a : clean (x :: a) <-> ~ is_tmp x /\ clean a.
  Proof.
    unfold clean. split.
    - intros H. split; [apply H; now left | intros y Hy; apply H; now right].
    - intros [Hx Ha] y [<-|Hy]; auto.
  Qed.

  Lemma clean_triples_cons (a : N * expr * expr) t :
    clean (flat_map names_triple (a :: t)) <-> clean (names_triple a) /\ clean (flat_map names_triple t).
  Proof. change (flat_map names_triple (a :: t)) with (names_triple a ++ flat_map names_triple t). apply clean_app. Qed.
  Lemma clean_triple x i v :
    clean (names_triple (x, i, v)) <-> ~ is_tmp x /\ clean (names_expr i) /\ clean (names_expr v).
  Proof. unfold names_triple. simpl. rewrite clean_cons, clean_app. tauto. Qed.

  Lemma agree_set x v m l : agree m l -> agree (set x v m) (set x v l).
  Proof. intros H y Hy. unfold set. destruct (N.eqb y x); auto. Qed.
  Lemma agree_set_opt c v m l : agree m l -> agree (set_opt c v m) (set_opt c v l).
  Proof. destruct c; simpl; auto using agree_set. Qed.
  Lemma eval_agree e m l : clean (names_expr e) -> agree m l -> eval e m = eval e l.
  Proof. destruct e; simpl; intros Hc H; [reflexivity|]. apply H, Hc. now left. Qed.
  Lemma eval_list_agree es m l : clean (flat_map names_expr es) -> agree m l ->
    map (fun e => eval e m) es = map (fun e => eval e l) es.
  Proof.
    induction es as [|e t IH]; simpl; intros Hc H; [reflexivity|].
    apply clean_app in Hc. destruct Hc as [He Ht]. now rewrite (eval_agree e m l He H), IH.
  Qed.

  Lemma seq_assign_agree xs : forall m l,
    clean (flat_map (fun xe => names_expr (snd xe)) xs) -> agree m l ->
    agree (seq_assign xs m) (seq_assign xs l).
  Proof.
    unfold seq_assign. induction xs as [|[x e] t IH]; intros m l Hc H; simpl; [assumption|].
    simpl in Hc. apply clean_app in Hc. destruct Hc as [He Ht].
    apply IH; [assumption|]. rewrite (eval_agree e m l He H). now apply agree_set.
  Qed.

  Lemma clean_inits lvs : clean (flat_map names_triple lvs) ->
    clean (flat_map (fun xe => names_expr (snd xe)) (inits lvs)).
  Proof.
    induction lvs as [|[[x i] v] t IH]; intros H; [exact H|].
    apply clean_triples_cons in H. destruct H as [H Ht]. apply clean_triple in H. destruct H as [_ [Hi _]].
    simpl. apply clean_app. split; [assumption | now apply IH].
  Qed.

  (* ---------------------------------------------------------------- IfElse final assignments *)
  Lemma fas_par_seq side fas : forall A m0 mr lr,
    fas_okb A fas = true -> clean (flat_map names_triple fas) ->
    agree mr lr -> (forall y, mem y A = false -> ~ is_tmp y -> lr y = m0 y) ->
    agree (par_assign_from m0 (fas_side side fas) mr) (seq_assign (fas_side side fas) lr).
  Proof.
    unfold par_assign_from, seq_assign.
    induction fas as [|[[x e1] e2] t IH]; intros A m0 mr lr Hok Hc Hag Hinv; simpl; [assumption|].
    simpl in Hok. apply andb_true_iff in Hok. destruct Hok as [Hok Hok3].
    apply andb_true_iff in Hok. destruct Hok as [Hok1 Hok2].
    apply negb_true_iff in Hok1, Hok2.
    apply clean_triples_cons in Hc. destruct Hc as [Hc Hct]. apply clean_triple in Hc. destruct Hc as [Hx [Hc1 Hc2]].
    set (e := if side then e1 else e2).
    assert (He : eval e lr = eval e m0).
    { subst e. destruct side.
      - destruct e1 as [z|y]; simpl; [reflexivity|]. simpl in Hok1. apply Hinv; [assumption|]. apply Hc1. now left.
      - destruct e2 as [z|y]; simpl; [reflexivity|]. simpl in Hok2. apply Hinv; [assumption|]. apply Hc2. now left. }
    rewrite He. apply (IH (x :: A)); try assumption.
    - now apply agree_set.
    - intros y Hy Hnt. simpl in Hy. apply orb_false_iff in Hy. destruct Hy as [Hyx HyA].
      unfold set. rewrite Hyx. now apply Hinv.
  Qed.

  (* ---------------------------------------------------------------- the While case *)
  Section OneLoop.
    Variable names : list N.

    (* what saved_loop_values contains *)
    Lemma lower_lvs_saved S0 : forall n S' saved n',
      lower_lvs tmp names S0 n = (S', saved, n') -> lo <= n -> n' <= hi ->
      forall s, In s saved -> exists t v, s = SCast t v /\ is_tmp t /\ In v (map lv_loop S0).
    Proof.
      induction S0 as [|[[x i] v] t IH]; intros n S' saved n' E Hlo Hhi s Hs; simpl in E.
      - inversion E; subst. destruct Hs.
      - destruct (reads_other_loop_variable names x v).
        + destruct (lower_lvs tmp names t (S n)) as [[t' sv] n''] eqn:Et. inversion E; subst. clear E.
          pose proof (lower_lvs_mono names t (S n)) as Hm. rewrite Et in Hm. simpl in Hm.
          destruct Hs as [<-|Hs].
          * exists (tmp n), v. repeat split; [|now left]. exists n. split; [lia|reflexivity].
          * destruct (IH (S n) t' sv n' Et ltac:(lia) Hhi s Hs) as [t0 [v0 [-> [Ht0 Hv0]]]].
            exists t0, v0. repeat split; [assumption | now right].
        + destruct (lower_lvs tmp names t n) as [[t' sv] n''] eqn:Et. inversion E; subst. clear E.
          destruct (IH n t' saved n' Et Hlo Hhi s Hs) as [t0 [v0 [-> [Ht0 Hv0]]]].
          exists t0, v0. repeat split; [assumption | now right].
    Qed.

    (* executing saved_loop_values: only temporaries change, each holds the value of its loop value *)
    Lemma run_saved cl f h S0 : forall n S' saved n' l,
      lower_lvs tmp names S0 n = (S', saved, n') -> lo <= n -> n' <= hi ->
      clean (flat_map names_triple S0) ->
      exists l1, run_block (exec Lir cl f) saved l h = ONormal l1 h /\
        (forall y, ~ is_tmp y -> l1 y = l y) /\
        (forall k, lo <= k < n -> l1 (tmp k) = l (tmp k)) /\
        (forall t v, In (SCast t v) saved -> l1 t = eval v l).
    Proof.
      induction S0 as [|[[x i] v] t IH]; intros n S' saved n' l E Hlo Hhi Hc; simpl in E.
      - inversion E; subst. exists l. simpl. repeat split; auto. intros ? ? [].
      - apply clean_triples_cons in Hc. destruct Hc as [Hc1 Hct].
        destruct (reads_other_loop_variable names x v).
        + destruct (lower_lvs tmp names t (S n)) as [[t' sv] n''] eqn:Et. inversion E; subst. clear E.
          pose proof (lower_lvs_mono names t (S n)) as Hm. rewrite Et in Hm. simpl in Hm.
          set (l0 := set (tmp n) (eval v l) l).
          destruct (IH (S n) t' sv n' l0 Et ltac:(lia) Hhi Hct) as [l1 [Hrun [Hnt [Hlow Hsv]]]].
          exists l1.
          assert (Htn : is_tmp (tmp n)) by (exists n; split; [lia|reflexivity]).
          assert (Hl0 : forall y, ~ is_tmp y -> l0 y = l y).
          { intros y Hy. unfold l0, set. destruct (N.eqb y (tmp n)) eqn:Ey; [|reflexivity].
            apply N.eqb_eq in Ey. subst y. contradiction. }
          split; [|split; [|split]].
          * simpl. destruct f; simpl; exact Hrun.
          * intros y Hy. rewrite (Hnt y Hy). now apply Hl0.
          * intros k Hk. rewrite (Hlow k ltac:(lia)). unfold l0, set.
            destruct (N.eqb (tmp k) (tmp n)) eqn:Ek; [|reflexivity].
            apply N.eqb_eq in Ek. apply tmp_inj in Ek; lia.
          * intros t0 v0 [Hh|Ht0].
            -- inversion Hh; subst t0 v0. rewrite (Hlow n ltac:(lia)). unfold l0, set. now rewrite N.eqb_refl.
            -- rewrite (Hsv t0 v0 Ht0).
               destruct (lower_lvs_saved t (S n) t' sv n' Et ltac:(lia) Hhi _ Ht0) as [t1 [v1 [Heq [_ Hin]]]].
               inversion Heq; subst t1 v1.
               destruct v0 as [z|y]; simpl; [reflexivity|]. apply Hl0. apply Hct.
               apply in_map_iff in Hin. destruct Hin as [[[x2 i2] v2] [Hv2 Hin2]].
               apply in_flat_map. exists (x2, i2, v2). split; [assumption|].
               unfold lv_loop in Hv2. simpl in Hv2. subst v2. unfold names_triple. simpl.
               right. apply in_or_app. right. now left.
        + destruct (lower_lvs tmp names t n) as [[t' sv] n''] eqn:Et. inversion E; subst. clear E.
          exact (IH n t' saved n' l Et Hlo Hhi Hct).
    Qed.

    (* the assignments `x_i = v_i'` one after another, against the simultaneous update *)
    Lemma update_par_seq S0 : forall n S' saved n' A m0 mr lr,
      lower_lvs tmp names S0 n = (S', saved, n') -> lo <= n -> n' <= hi ->
      clean (flat_map names_triple S0) ->
      nodupb (map lv_name S0) = true ->
      (forall y, mem y A = true -> mem y names = true) ->
      (forall y, In y (map lv_name S0) -> mem y names = true /\ mem y A = false) ->
      agree mr lr ->
      (forall y, mem y A = false -> ~ is_tmp y -> lr y = m0 y) ->
      (forall t v, In (SCast t v) saved -> lr t = eval v m0) ->
      agree (par_assign_from m0 (updates S0) mr) (seq_assign (updates S') lr).
    Proof.
      unfold par_assign_from, seq_assign.
      induction S0 as [|[[x i] v] t IH]; intros n S' saved n' A m0 mr lr E Hlo Hhi Hc Hnd HA HS Hag Hinv Hsv;
        simpl in E.
      - inversion E; subst. simpl. assumption.
      - apply clean_triples_cons in Hc. destruct Hc as [Hc1 Hct].
        apply clean_triple in Hc1. destruct Hc1 as [Hx [_ Hcv]].
        simpl in Hnd. apply andb_true_iff in Hnd. destruct Hnd as [Hxt Hnd]. apply negb_true_iff in Hxt.
        destruct (HS x ltac:(now left)) as [Hxn HxA].
        assert (HA' : forall y, mem y (x :: A) = true -> mem y names = true).
        { intros y Hy. simpl in Hy. apply orb_true_iff in Hy. destruct Hy as [Hy|Hy]; [|now apply HA].
          apply N.eqb_eq in Hy. now subst. }
        assert (HS' : forall y, In y (map lv_name t) -> mem y names = true /\ mem y (x :: A) = false).
        { intros y Hy. destruct (HS y ltac:(now right)) as [H1 H2]. split; [assumption|].
          simpl. rewrite H2, orb_false_r. apply N.eqb_neq. intros ->.
          apply mem_false in Hxt. contradiction. }
        assert (Hinv' : forall w lr', (forall y, lr' y = set x w lr y) ->
                  forall y, mem y (x :: A) = false -> ~ is_tmp y -> lr' y = m0 y).
        { intros w lr' Hlr' y Hy Hnt. simpl in Hy. apply orb_false_iff in Hy. destruct Hy as [Hyx HyA].
          rewrite Hlr'. unfold set. rewrite Hyx. now apply Hinv. }
        destruct (reads_other_loop_variable names x v) eqn:Er.
        + destruct (lower_lvs tmp names t (S n)) as [[t' sv] n''] eqn:Et. inversion E; subst. clear E.
          pose proof (lower_lvs_mono names t (S n)) as Hm. rewrite Et in Hm. simpl in Hm.
          simpl. unfold lv_name, lv_loop. simpl.
          rewrite (Hsv (tmp n) v ltac:(now left)).
          apply (IH (S n) t' sv n' (x :: A)); try assumption; try lia.
          * now apply agree_set.
          * apply (Hinv' (eval v m0)). reflexivity.
          * intros t0 v0 Ht0.
            destruct (lower_lvs_saved t (S n) t' sv n' Et ltac:(lia) Hhi _ Ht0) as [t1 [v1 [Heq [Htmp _]]]].
            inversion Heq; subst t1 v1.
            unfold set. destruct (N.eqb t0 x) eqn:Etx.
            -- apply N.eqb_eq in Etx. subst t0. contradiction.
            -- apply Hsv. now right.
        + destruct (lower_lvs tmp names t n) as [[t' sv] n''] eqn:Et. inversion E; subst. clear E.
          simpl. unfold lv_name, lv_loop. simpl.
          assert (He : eval v lr = eval v m0).
          { destruct v as [z|y]; simpl; [reflexivity|]. simpl in Er.
            assert (Hy : ~ is_tmp y) by (apply Hcv; now left).
            apply andb_false_iff in Er. destruct Er as [Er|Er].
            - apply negb_false_iff, N.eqb_eq in Er. subst y. now apply Hinv.
            - apply Hinv; [|assumption]. destruct (mem y A) eqn:EA; [|reflexivity].
              apply HA in EA. congruence. }
          rewrite He.
          apply (IH n t' saved n' (x :: A)); try assumption.
          * now apply agree_set.
          * apply (Hinv' (eval v m0)). reflexivity.
          * intros t0 v0 Ht0.
            destruct (lower_lvs_saved t n t' saved n' Et Hlo Hhi _ Ht0) as [t1 [v1 [Heq [Htmp _]]]].
            inversion Heq; subst t1 v1.
            unfold set. destruct (N.eqb t0 x) eqn:Etx.
            -- apply N.eqb_eq in Etx. subst t0. contradiction.
            -- now apply Hsv.
    Qed.
  End OneLoop.

  (* end of an iteration: saved_loop_values, then the updates one after another *)
  Lemma end_of_iteration cl f h lvs n lvs' saved n1 m l :
    lower_lvs tmp (map lv_name lvs) lvs n = (lvs', saved, n1) -> lo <= n -> n1 <= hi ->
    clean (flat_map names_triple lvs) -> nodupb (map lv_name lvs) = true -> agree m l ->
    exists l1, run_block (exec Lir cl f) saved l h = ONormal l1 h /\
      agree (assign_all Mir (updates lvs) m) (assign_all Lir (updates lvs') l1).
  Proof.
    intros E Hlo Hhi Hc Hnd Hag.
    destruct (run_saved (map lv_name lvs) cl f h lvs n lvs' saved n1 l E Hlo Hhi Hc) as [l1 [Hrun [Hnt [_ Hsv]]]].
    exists l1. split; [assumption|]. simpl. unfold par_assign.
    apply (update_par_seq (map lv_name lvs) lvs n lvs' saved n1 []); try assumption.
    - intros y Hy. discriminate.
    - intros y Hy. split; [now apply mem_In | reflexivity].
    - intros x Hx. rewrite (Hnt x Hx). now apply Hag.
    - intros y _ Hy. rewrite (Hnt y Hy). symmetry. now apply Hag.
    - intros t v Hin. rewrite (Hsv t v Hin).
      destruct (lower_lvs_saved (map lv_name lvs) lvs n lvs' saved n1 E Hlo Hhi _ Hin) as [t1 [v1 [Heq [_ Hv]]]].
      inversion Heq; subst t1 v1. symmetry. apply eval_agree; [|assumption].
      intros y Hy. apply Hc. apply in_map_iff in Hv. destruct Hv as [[[x2 i2] v2] [Hv2 Hin2]].
      apply in_flat_map. exists (x2, i2, v2). split; [assumption|].
      unfold lv_loop in Hv2. simpl in Hv2. subst v2. unfold names_triple. simpl.
      right. apply in_or_app. now right.
  Qed.

  (* ---------------------------------------------------------------- the simulation *)
  Definition P_exec (f : nat) : Prop := forall s n cm cl m l h,
    lo <= n -> snd (lower_stmt tmp s n) <= hi -> wfb s = true -> clean (names_stmt s) -> agree m l ->
    orel cl (exec Mir cm f s m h) (exec Lir cl f (fst (lower_stmt tmp s n)) l h).
  Definition P_block (f : nat) : Prop := forall ss n cm cl m l h,
    lo <= n -> snd (lower_block tmp ss n) <= hi -> forallb wfb ss = true -> clean (names_block ss) -> agree m l ->
    orel cl (run_block (exec Mir cm f) ss m h) (run_block (exec Lir cl f) (fst (lower_block tmp ss n)) l h).
  Definition P_loop (f : nat) : Prop := forall lvs body bc n lvs' saved n1 body' n2 m l h,
    lower_lvs tmp (map lv_name lvs) lvs n = (lvs', saved, n1) -> lower_block tmp body n1 = (body', n2) ->
    lo <= n -> n2 <= hi -> nodupb (map lv_name lvs) = true -> forallb wfb body = true ->
    clean (flat_map names_triple lvs) -> clean (names_block body) -> agree m l ->
    forall cl, orel cl (loop Mir f lvs body bc m h) (loop Lir f lvs' (body' ++ saved) bc l h).

  Lemma block_of_exec f : P_exec f -> P_block f.
  Proof.
    intros HP ss. induction ss as [|s t IH]; intros n cm cl m l h Hlo Hhi Hwf Hc Hag; simpl; [now split|].
    simpl in Hhi, Hwf, Hc. apply andb_true_iff in Hwf. destruct Hwf as [Hwfs Hwft].
    unfold names_block in Hc. simpl in Hc. apply clean_app in Hc. destruct Hc as [Hcs Hct].
    pose proof (lower_stmt_mono s n) as Hm1.
    specialize (HP s n cm cl m l h Hlo).
    destruct (lower_stmt tmp s n) as [s' n1] eqn:Es. simpl in Hm1, HP.
    pose proof (lower_block_mono t n1) as Hm2.
    specialize (IH n1 cm cl).
    destruct (lower_block tmp t n1) as [t' n2] eqn:Et. simpl in *.
    specialize (HP ltac:(lia) Hwfs Hcs Hag).
    destruct (exec Mir cm f s m h) as [m' h1| | |]; destruct (exec Lir cl f s' l h) as [l' h2| | |];
      simpl in HP; try contradiction; auto.
    destruct HP as [HP <-]. apply IH; auto; lia.
  Qed.

  (* statements that need no fuel *)
  Lemma atomic_exec f s n cm cl m l h :
    match s with SIf _ _ _ _ | SSIf _ _ _ | SWhile _ _ _ => False | _ => True end ->
    clean (names_stmt s) -> agree m l ->
    orel cl (exec Mir cm f s m h) (exec Lir cl f (fst (lower_stmt tmp s n)) l h).
  Proof.
    intros Hat Hc Hag. destruct s; try contradiction.
    - destruct f; simpl; simpl in Hc; apply clean_cons in Hc; destruct Hc as [_ Hc]; apply clean_app in Hc;
        destruct Hc as [H1 H2]; rewrite (eval_agree e1 m l H1 Hag), (eval_agree e2 m l H2 Hag);
        destruct (rt_binop op (eval e1 l) (eval e2 l)); simpl; auto using agree_set.
    - destruct f; simpl; simpl in Hc; apply clean_cons in Hc; destruct Hc as [_ Hc];
        rewrite (eval_agree e m l Hc Hag); auto using agree_set.
    - simpl in Hc. apply clean_app in Hc. destruct Hc as [_ Hc].
      destruct f; simpl; rewrite (eval_list_agree args m l Hc Hag);
        destruct (world code (map (fun e => eval e l) args) h) as [h' [z|]]; simpl; auto using agree_set_opt.
    - destruct f; simpl; simpl in Hc; rewrite (eval_agree e m l Hc Hag); auto using agree_set_opt.
  Qed.

  Lemma simulation : forall f, P_exec f /\ P_loop f.
  Proof.
    induction f as [|f [IHe IHl]].
    - split.
      + intros s n cm cl m l h Hlo Hhi Hwf Hc Hag. destruct s; try (apply atomic_exec; simpl; auto; fail).
        * rewrite lower_if. destruct (lower_block tmp s1 n) as [a n1]. destruct (lower_block tmp s2 n1) as [b n2]. exact I.
        * rewrite lower_sif. destruct (lower_block tmp ss n) as [a n1]. exact I.
        * rewrite lower_while_eq. destruct (lower_lvs tmp (map lv_name lvs) lvs n) as [[l' sv] n1].
          destruct (lower_block tmp body n1) as [b n2]. exact I.
      + intros lvs body bc n lvs' saved n1 body' n2 m l h _ _ _ _ _ _ _ _ _ cl. exact I.
    - pose proof (block_of_exec f IHe) as IHb. split.
      + intros s n cm cl m l h Hlo Hhi Hwf Hc Hag. destruct s; try (apply atomic_exec; simpl; auto; fail).
        * (* IfElse *)
          rewrite lower_if in *. simpl in Hwf, Hc.
          apply andb_true_iff in Hwf. destruct Hwf as [Hwf Hfas]. apply andb_true_iff in Hwf. destruct Hwf as [Hw1 Hw2].
          apply clean_app in Hc. destruct Hc as [Hcc Hc]. apply clean_app in Hc. destruct Hc as [Hc1 Hc].
          apply clean_app in Hc. destruct Hc as [Hc2 Hcf].
          pose proof (lower_block_mono s1 n) as Hm1.
          pose proof (IHb s1 n cm cl m l h Hlo) as B1.
          destruct (lower_block tmp s1 n) as [a n1] eqn:E1. simpl in Hm1, B1.
          pose proof (lower_block_mono s2 n1) as Hm2.
          pose proof (IHb s2 n1 cm cl m l h ltac:(lia)) as B2.
          destruct (lower_block tmp s2 n1) as [b n2] eqn:E2. simpl in Hm2, B2, Hhi. simpl fst.
          rewrite !exec_if. rewrite (eval_agree c m l Hcc Hag).
          destruct (truthy (eval c l)).
          -- specialize (B1 ltac:(lia) Hw1 Hc1 Hag).
             destruct (run_block (exec Mir cm f) s1 m h) as [m' h1| | |];
               destruct (run_block (exec Lir cl f) a l h) as [l' h2| | |];
               simpl in B1; try contradiction; auto.
             destruct B1 as [B1 <-]. simpl. split; [|reflexivity]. unfold par_assign.
             apply (fas_par_seq true fas []); auto.
             intros y _ Hy. symmetry. now apply B1.
          -- specialize (B2 Hhi Hw2 Hc2 Hag).
             destruct (run_block (exec Mir cm f) s2 m h) as [m' h1| | |];
               destruct (run_block (exec Lir cl f) b l h) as [l' h2| | |];
               simpl in B2; try contradiction; auto.
             destruct B2 as [B2 <-]. simpl. split; [|reflexivity]. unfold par_assign.
             apply (fas_par_seq false fas []); auto.
             intros y _ Hy. symmetry. now apply B2.
        * (* SingleIf *)
          rewrite lower_sif in *. simpl in Hwf, Hc. apply clean_app in Hc. destruct Hc as [Hcc Hc].
          pose proof (IHb ss n cm cl m l h Hlo) as B.
          destruct (lower_block tmp ss n) as [a n1] eqn:E1. simpl in B, Hhi. simpl fst.
          rewrite !exec_sif. rewrite (eval_agree c m l Hcc Hag).
          destruct (xorb (truthy (eval c l)) inv); [|now split].
          exact (B Hhi Hwf Hc Hag).
        * (* While *)
          rewrite lower_while_eq in *. simpl in Hwf, Hc.
          apply andb_true_iff in Hwf. destruct Hwf as [Hnd Hwb].
          apply clean_app in Hc. destruct Hc as [Hcl Hc]. apply clean_app in Hc. destruct Hc as [Hcb _].
          pose proof (lower_lvs_inits (map lv_name lvs) lvs n) as Hin.
          destruct (lower_lvs tmp (map lv_name lvs) lvs n) as [[lvs' saved] n1] eqn:El. simpl in Hin.
          destruct (lower_block tmp body n1) as [body' n2] eqn:Eb. simpl in Hhi. simpl fst.
          rewrite !exec_while. rewrite Hin.
          apply (IHl lvs body bc n lvs' saved n1 body' n2); auto.
          apply seq_assign_agree; [now apply clean_inits | assumption].
      + (* one more iteration *)
        intros lvs body bc n lvs' saved n1 body' n2 m l h El Eb Hlo Hhi Hnd Hwb Hcl Hcb Hag cl.
        rewrite !loop_S. rewrite run_block_app.
        pose proof (lower_lvs_mono (map lv_name lvs) lvs n) as Hm1. rewrite El in Hm1. simpl in Hm1.
        pose proof (lower_block_mono body n1) as Hm2. rewrite Eb in Hm2. simpl in Hm2.
        pose proof (IHb body n1 bc bc m l h ltac:(lia)) as B. rewrite Eb in B. simpl in B.
        specialize (B Hhi Hwb Hcb Hag).
        destruct (run_block (exec Mir bc f) body m h) as [m' h1|v m' h1|h1|];
          destruct (run_block (exec Lir bc f) body' l h) as [l' h2|v' l' h2|h2|]; simpl in B; try contradiction; auto.
        * destruct B as [B <-].
          destruct (end_of_iteration bc f h1 lvs n lvs' saved n1 m' l' El Hlo ltac:(lia) Hcl Hnd B) as [l1 [Hrun Hupd]].
          rewrite Hrun.
          apply (IHl lvs body bc n lvs' saved n1 body' n2); auto.
        * destruct B as [_ [B <-]]. now split.
  Qed.

  (* the statement-level theorem, from arbitrary agreeing environments, inside any loop context *)
  Lemma lower_preserves_gen s n cl fuel m l h :
    lo <= n -> snd (lower_stmt tmp s n) <= hi -> wf s -> clean (names_stmt s) -> agree m l ->
    orel cl (sem_mir fuel s m h) (sem_lir cl fuel (lower tmp s n) l h).
  Proof. intros. unfold Sem.sem_mir, Sem.sem_lir, lower. now apply (proj1 (simulation fuel)). Qed.
End WithTmp.

(* ------------------------------------------------------------------ the statements of Props.v *)
Lemma in_temps tmp lo hi x : lo <= hi -> (In x (temps tmp lo hi) <-> is_tmp tmp lo hi x).
Proof.
  intros Hle. unfold temps, is_tmp. rewrite in_map_iff. split.
  - intros [k [Hk Hin]]. apply in_seq in Hin. exists k. split; [lia | now symmetry].
  - intros [k [Hk ->]]. exists k. split; [reflexivity | apply in_seq; lia].
Qed.

Lemma NoDup_map_inj {A B} (g : A -> B) l : NoDup (map g l) -> forall a b, In a l -> In b l -> g a = g b -> a = b.
Proof.
  induction l as [|x t IH]; simpl; intros Hnd a b Ha Hb Hg; [contradiction|].
  inversion Hnd as [|? ? Hx Ht]; subst.
  destruct Ha as [->|Ha]; destruct Hb as [->|Hb]; auto.
  - exfalso. apply Hx. rewrite Hg. now apply in_map.
  - exfalso. apply Hx. rewrite <- Hg. now apply in_map.
Qed.

Theorem lower_preserves St world tmp s n0 :
  wf s -> temps_fresh tmp s n0 ->
  forall ctx fuel m l h,
  let T := temps tmp n0 (next_counter tmp s n0) in
  agree_off T m l ->
  outcome_rel T ctx (sem_mir St world fuel s m h) (sem_lir St world ctx fuel (lower tmp s n0) l h).
Proof.
  intros Hwf [Hnd Hfr] ctx fuel m l h T Hag.
  pose proof (lower_stmt_mono tmp s n0) as Hle. fold (next_counter tmp s n0) in Hle.
  set (hi := next_counter tmp s n0) in *.
  assert (Hinj : forall j k, n0 <= j < hi -> n0 <= k < hi -> tmp j = tmp k -> j = k).
  { intros j k Hj Hk. apply (NoDup_map_inj tmp (seq n0 (hi - n0)) Hnd); apply in_seq; lia. }
  assert (Hag' : agree tmp n0 hi m l).
  { intros x Hx. apply Hag. intros Hin. apply Hx. now apply in_temps. }
  assert (Hcl : clean tmp n0 hi (names_stmt s)).
  { intros x Hx Ht. apply (Hfr x); [now apply in_temps | assumption]. }
  pose proof (lower_preserves_gen St world tmp n0 hi Hinj s n0 ctx fuel m l h (le_n _) (le_n _) Hwf Hcl Hag') as R.
  assert (Hback : forall a b, agree tmp n0 hi a b -> agree_off T a b).
  { intros a b H x Hx. apply H. intros Ht. apply Hx. now apply in_temps. }
  destruct (sem_mir St world fuel s m h); destruct (sem_lir St world ctx fuel (lower tmp s n0) l h); simpl in *;
    try contradiction; try exact R.
  - destruct R as [R ->]. split; auto.
  - destruct R as [-> [R ->]]. repeat split; auto.
Qed.

Theorem lower_preserves_vars St world tmp s n0 :
  wf s -> temps_fresh tmp s n0 ->
  forall fuel r h,
  outcome_eq_on (names_stmt s) (sem_mir St world fuel s r h) (sem_lir St world None fuel (lower tmp s n0) r h).
Proof.
  intros Hwf Hfr fuel r h.
  pose proof (lower_preserves St world tmp s n0 Hwf Hfr None fuel r r h (fun x _ => eq_refl)) as R.
  destruct Hfr as [_ Hfr].
  assert (Hon : forall a b, agree_off (temps tmp n0 (next_counter tmp s n0)) a b -> forall x, In x (names_stmt s) -> a x = b x).
  { intros a b H x Hx. apply H. intros Ht. exact (Hfr x Ht Hx). }
  destruct (sem_mir St world fuel s r h); destruct (sem_lir St world None fuel (lower tmp s n0) r h); simpl in *;
    try contradiction; try exact R.
  - destruct R as [R ->]. split; auto.
  - destruct R as [-> [R ->]]. repeat split; auto.
Qed.

(* ------------------------------------------------------------------ the variants of the While case *)
(* the policy-generic lowering with the policy of the code as written is the lowering of Lower.v *)
Lemma lower_lvs_with_real tmp names lvs : forall i n,
  lower_lvs_with tmp (policy_real names) i lvs n = lower_lvs tmp names lvs n.
Proof.
  induction lvs as [|[[x ini] v] t IH]; intros i n; simpl; [reflexivity|].
  unfold policy_real at 1. destruct (reads_other_loop_variable names x v); now rewrite IH.
Qed.

Lemma lower_stmt_with_real tmp s : forall n, lower_stmt_with tmp policy_real s n = lower_stmt tmp s n.
Proof.
  assert (Hb : forall ss, Forall (fun s => forall n, lower_stmt_with tmp policy_real s n = lower_stmt tmp s n) ss ->
    forall n,
    (fix lower_block (ss : list stmt) (n : nat) {struct ss} : list stmt * nat :=
       match ss with
       | [] => ([], n)
       | s :: t => let (s', n1) := lower_stmt_with tmp policy_real s n in
                   let (t', n2) := lower_block t n1 in (s' :: t', n2)
       end) ss n = lower_block tmp ss n).
  { induction 1 as [|s0 t Hs _ IH]; intros n; simpl; [reflexivity|]. rewrite Hs.
    destruct (lower_stmt tmp s0 n) as [s' n1]. now rewrite IH. }
  induction s using stmt_ind'; intros n; try reflexivity.
  - rewrite lower_if. simpl. rewrite (Hb s1 H n). destruct (lower_block tmp s1 n) as [a n1].
    rewrite (Hb s2 H0 n1). reflexivity.
  - rewrite lower_sif. simpl. rewrite (Hb ss H n). reflexivity.
  - rewrite lower_while_eq. simpl. rewrite lower_lvs_with_real.
    destruct (lower_lvs tmp (map lv_name lvs) lvs n) as [[l' sv] n1]. rewrite (Hb body H n1). reflexivity.
Qed.

Definition differ_at (x : N) (o1 o2 : outcome unit) : Prop :=
  match o1, o2 with ONormal m _, ONormal l _ => m x <> l x | _, _ => False end.

(* before fix 1180e24 (no temporaries): the swap `a, b := b, a` goes wrong *)
Lemma no_save_refuted :
  exists s fuel r x, wf s /\ In x (names_stmt s) /\
    differ_at x (sem_mir unit w0 fuel s r tt)
                (sem_lir unit w0 None fuel (fst (lower_stmt_with tmp0 policy_no_save s 0%nat)) r tt).
Proof.
  exists swap_loop, 10%nat, env0, 6%N. split; [reflexivity|]. split; [vm_compute; tauto|].
  vm_compute. discriminate.
Qed.

(* seeded change C01-3 (save only when the variable read is updated LATER): the same swap goes wrong *)
Lemma save_later_only_refuted :
  exists s fuel r x, wf s /\ In x (names_stmt s) /\
    differ_at x (sem_mir unit w0 fuel s r tt)
                (sem_lir unit w0 None fuel (fst (lower_stmt_with tmp0 policy_save_later_only s 0%nat)) r tt).
Proof.
  exists swap_loop, 10%nat, env0, 6%N. split; [reflexivity|]. split; [vm_compute; tauto|].
  vm_compute. discriminate.
Qed.

(* without wf the statement is false of the model: (a) two loop variables with the same name *)
Lemma duplicate_loop_variables_refuted :
  exists s fuel r x, ~ wf s /\ temps_fresh tmp0 s 0%nat /\ In x (names_stmt s) /\
    differ_at x (sem_mir unit w0 fuel s r tt) (sem_lir unit w0 None fuel (lower tmp0 s 0%nat) r tt).
Proof.
  exists dup_loop, 10%nat, env1, 6%N. split; [vm_compute; discriminate|]. split.
  - split; [vm_compute; repeat constructor; simpl; tauto|].
    vm_compute. intros x [<-|[]] H. repeat (destruct H as [H|H]; [discriminate H|]). exact H.
  - split; [vm_compute; tauto|]. vm_compute. discriminate.
Qed.

(* (b) a final assignment that reads an earlier final assignment of the same IfElse *)
Lemma final_assignment_order_refuted :
  exists s fuel r x, ~ wf s /\ temps_fresh tmp0 s 0%nat /\ In x (names_stmt s) /\
    differ_at x (sem_mir unit w0 fuel s r tt) (sem_lir unit w0 None fuel (lower tmp0 s 0%nat) r tt).
Proof.
  exists fas_stmt, 10%nat, env1, 2%N. split; [vm_compute; discriminate|]. split.
  - split; [vm_compute; constructor|]. vm_compute. intros x [].
  - split; [vm_compute; tauto|]. vm_compute. discriminate.
Qed.

(* the hypotheses are satisfiable, and the proved lowering gets the witnesses right *)
Lemma swap_example :
  wf swap_loop /\ temps_fresh tmp0 swap_loop 0%nat /\ next_counter tmp0 swap_loop 0%nat = 2%nat /\
  result_at 6 (sem_mir unit w0 10 swap_loop env0 tt) = Some 1%Z /\
  result_at 6 (sem_lir unit w0 None 10 (lower tmp0 swap_loop 0%nat) env0 tt) = Some 1%Z.
Proof.
  split; [reflexivity|]. split.
  - split; [vm_compute; repeat constructor; simpl; intuition discriminate|].
    vm_compute. intros x [<-|[<-|[]]] H; repeat (destruct H as [H|H]; [discriminate H|]); exact H.
  - repeat split; vm_compute; reflexivity.
Qed.

Lemma rotate_example :
  wf rotate_loop /\ temps_fresh tmp0 rotate_loop 0%nat /\ next_counter tmp0 rotate_loop 0%nat = 3%nat /\
  forall x, In x [1%N; 2%N; 10%N; 6%N] ->
    result_at x (sem_mir unit w0 10 rotate_loop env0 tt) =
    result_at x (sem_lir unit w0 None 10 (lower tmp0 rotate_loop 0%nat) env0 tt).
Proof.
  split; [reflexivity|]. split.
  - split; [vm_compute; repeat constructor; simpl; intuition discriminate|].
    vm_compute. intros x [<-|[<-|[<-|[]]]] H; repeat (destruct H as [H|H]; [discriminate H|]); exact H.
  - split; [vm_compute; reflexivity|].
    intros x [<-|[<-|[<-|[<-|[]]]]]; vm_compute; reflexivity.
Qed.
