(* C01 (loop-lowering slice) — property theorems: lir_lowering's treatment of `While` (loop values that read
   another loop variable of the same loop are saved in temporaries at the end of the body) makes the
   one-after-another updates of both back ends behave like the simultaneous update of MIR.
   Model: Syntax.v (fragment), Sem.v (sem_mir / sem_lir), Lower.v (lir_lowering.rs lines 217-259). *)
From Coq Require Import ZArith NArith List Bool.
Import ListNotations.
From SV Require Import Common.Int32 C01loop.Syntax C01loop.Sem C01loop.Lower C01loop.Corr C01loop.Proofs.

(* For every statement s of the fragment (loops nested arbitrarily, any uninterpreted operations `world` over
   any hidden state), every name supply `tmp`, every counter n0: if s is well formed (loop variables of one
   loop have different names; a final assignment does not read an earlier one of the same IfElse) and the
   temporaries drawn by the lowering are pairwise different and do not occur in s, then from environments
   that agree outside those temporaries, inside any loop context `ctx`, with the same fuel, the MIR reading of
   s and the LIR reading of `lower s` end the same way (normally / break with the same value / trap / out of
   fuel) with the same hidden state and with environments that agree outside the temporaries (after a break:
   once the break value is stored in ctx, which the LIR reading has already done). *)
Theorem C01loop_lower_preserves :
  forall (St : Type) (world : N -> list Z -> St -> St * option Z) (tmp : nat -> N) (s : stmt) (n0 : nat),
  wf s -> temps_fresh tmp s n0 ->
  forall (ctx : option N) (fuel : nat) (m l : env) (h : St),
  let T := temps tmp n0 (next_counter tmp s n0) in
  agree_off T m l ->
  outcome_rel T ctx (sem_mir St world fuel s m h) (sem_lir St world ctx fuel (lower tmp s n0) l h).
Proof. exact lower_preserves. Qed.

(* from one and the same environment: equal outcome, equal hidden state, equal values of every variable of s *)
Theorem C01loop_lower_preserves_vars :
  forall (St : Type) (world : N -> list Z -> St -> St * option Z) (tmp : nat -> N) (s : stmt) (n0 : nat),
  wf s -> temps_fresh tmp s n0 ->
  forall (fuel : nat) (r : env) (h : St),
  outcome_eq_on (names_stmt s) (sem_mir St world fuel s r h) (sem_lir St world None fuel (lower tmp s n0) r h).
Proof. exact lower_preserves_vars. Qed.

(* the refuted variants are the same lowering with another decision: with the decision of the code as written
   the policy-generic lowering IS the lowering of Lower.v *)
Theorem C01loop_policy_real_is_lower :
  forall (tmp : nat -> N) (s : stmt) (n : nat), lower_stmt_with tmp policy_real s n = lower_stmt tmp s n.
Proof. exact lower_stmt_with_real. Qed.

(* the lowering WITHOUT the temporaries (the code before fix 1180e24) is wrong: witness the swap
   `a, b := b, a` of  f(a, b, n) = if n <= 0 { b } else { f(b, a, n - 1) } *)
Theorem C01loop_no_save_refuted :
  exists s fuel r x, wf s /\ In x (names_stmt s) /\
    differ_at x (sem_mir unit w0 fuel s r tt)
                (sem_lir unit w0 None fuel (fst (lower_stmt_with tmp0 policy_no_save s 0%nat)) r tt).
Proof. exact no_save_refuted. Qed.

(* seeded change C01-3 (`loop_variable_names[i + 1..].contains(n)`: save only what is updated later) is wrong *)
Theorem C01loop_save_later_only_refuted :
  exists s fuel r x, wf s /\ In x (names_stmt s) /\
    differ_at x (sem_mir unit w0 fuel s r tt)
                (sem_lir unit w0 None fuel (fst (lower_stmt_with tmp0 policy_save_later_only s 0%nat)) r tt).
Proof. exact save_later_only_refuted. Qed.

(* the hypothesis wf cannot be dropped (neither case arises from single-assignment MIR; the tie evaluates wf
   on every real loop): two loop variables with one name ... *)
Theorem C01loop_duplicate_loop_variables_refuted :
  exists s fuel r x, ~ wf s /\ temps_fresh tmp0 s 0%nat /\ In x (names_stmt s) /\
    differ_at x (sem_mir unit w0 fuel s r tt) (sem_lir unit w0 None fuel (lower tmp0 s 0%nat) r tt).
Proof. exact duplicate_loop_variables_refuted. Qed.

(* ... and a final assignment that reads an earlier final assignment of the same IfElse *)
Theorem C01loop_final_assignment_order_refuted :
  exists s fuel r x, ~ wf s /\ temps_fresh tmp0 s 0%nat /\ In x (names_stmt s) /\
    differ_at x (sem_mir unit w0 fuel s r tt) (sem_lir unit w0 None fuel (lower tmp0 s 0%nat) r tt).
Proof. exact final_assignment_order_refuted. Qed.

(* non-vacuity: the hypotheses hold of the swap and of the rotation a := b, b := d, d := a; two resp. three
   temporaries are drawn and the results agree *)
Example C01loop_swap_example :
  wf swap_loop /\ temps_fresh tmp0 swap_loop 0%nat /\ next_counter tmp0 swap_loop 0%nat = 2%nat /\
  result_at 6 (sem_mir unit w0 10 swap_loop env0 tt) = Some 1%Z /\
  result_at 6 (sem_lir unit w0 None 10 (lower tmp0 swap_loop 0%nat) env0 tt) = Some 1%Z.
Proof. exact swap_example. Qed.

Example C01loop_rotate_example :
  wf rotate_loop /\ temps_fresh tmp0 rotate_loop 0%nat /\ next_counter tmp0 rotate_loop 0%nat = 3%nat /\
  forall x, In x [1%N; 2%N; 10%N; 6%N] ->
    result_at x (sem_mir unit w0 10 rotate_loop env0 tt) =
    result_at x (sem_lir unit w0 None 10 (lower tmp0 rotate_loop 0%nat) env0 tt).
Proof. exact rotate_example. Qed.

Print Assumptions C01loop_lower_preserves.
Print Assumptions C01loop_lower_preserves_vars.
Print Assumptions C01loop_policy_real_is_lower.
Print Assumptions C01loop_no_save_refuted.
Print Assumptions C01loop_save_later_only_refuted.
Print Assumptions C01loop_duplicate_loop_variables_refuted.
Print Assumptions C01loop_final_assignment_order_refuted.
