(* C01 (loop-lowering slice) — two fuelled semantics of the fragment over a flat environment
   (WebAssembly locals are per function; the names of compiler-produced MIR are unique) and a hidden
   state that only the uninterpreted operations `SOp` read and change.

   sem_mir: the reference interpreter of MIR (/verif/harness/src/mirsem.rs): at the end of an iteration
     every loop value is evaluated in the environment of the end of the body and then all loop variables
     are assigned (simultaneous update); the final assignments of an IfElse likewise; `Break e` leaves the
     innermost loop with the value of e, which the loop stores in its break collector.
   sem_lir: what both back ends emit for LIR (lir.rs pretty_print_internal / wasm_lowering.rs lower_stmt):
     after the body `x1 = v1; x2 = v2; ...` one after another in the order of the loop variables; the
     final assignments one after another at the end of the taken branch; `Break e` is
     `collector = e; break;` with the collector of the innermost enclosing loop.
   Both: initial values are assigned one after another before the loop (mirsem does the same), a
   condition is taken when it is not 0, arithmetic is Common/Int32.rt_binop (may trap).

   Fuel bounds the nesting depth plus the number of iterations; atomic statements need none, so a
   lowered loop (same nesting, same iterations, a few more atomic statements) needs the same fuel. *)
From Coq Require Import ZArith NArith List Bool.
Import ListNotations.
From SV Require Import Common.Int32 C01loop.Syntax.
Open Scope Z_scope.

Definition env := N -> Z.
Definition set (x : N) (v : Z) (r : env) : env := fun y => if N.eqb y x then v else r y.
Definition set_opt (c : option N) (v : Z) (r : env) : env :=
  match c with Some x => set x v r | None => r end.
Definition eval (e : expr) (r : env) : Z := match e with EInt z => z | EVar x => r x end.
Definition truthy (v : Z) : bool := negb (v =? 0).

(* x1 := e1; x2 := e2; ... one after another *)
Definition seq_assign (xs : list (N * expr)) (r : env) : env :=
  fold_left (fun r' xe => set (fst xe) (eval (snd xe) r') r') xs r.
(* all e_i evaluated in r0, then assigned *)
Definition par_assign_from (r0 : env) (xs : list (N * expr)) (r : env) : env :=
  fold_left (fun r' xe => set (fst xe) (eval (snd xe) r0) r') xs r.
Definition par_assign (xs : list (N * expr)) (r : env) : env := par_assign_from r xs r.

Definition inits (lvs : list (N * expr * expr)) : list (N * expr) := map (fun v => (lv_name v, lv_init v)) lvs.
Definition updates (lvs : list (N * expr * expr)) : list (N * expr) := map (fun v => (lv_name v, lv_loop v)) lvs.
Definition fas_side (side : bool) (fas : list (N * expr * expr)) : list (N * expr) :=
  map (fun t => (fst (fst t), if side then snd (fst t) else snd t)) fas.

Inductive mode := Mir | Lir.
Definition assign_all (md : mode) : list (N * expr) -> env -> env :=
  match md with Mir => par_assign | Lir => seq_assign end.

Inductive outcome (St : Type) :=
| ONormal (r : env) (h : St)
| OBreak (v : Z) (r : env) (h : St)      (* leaving the innermost loop with value v *)
| OTrap (h : St)                         (* division by zero / MIN / -1, or an operation that faults *)
| OFuel.
Arguments ONormal {St}. Arguments OBreak {St}. Arguments OTrap {St}. Arguments OFuel {St}.

Section Sem.
  Variable St : Type.
  (* an uninterpreted operation: new hidden state, and its result unless it faults *)
  Variable world : N -> list Z -> St -> St * option Z.

  Fixpoint run_block (ex : stmt -> env -> St -> outcome St) (ss : list stmt) (r : env) (h : St) : outcome St :=
    match ss with
    | [] => ONormal r h
    | s :: t => match ex s r h with ONormal r' h' => run_block ex t r' h' | o => o end
    end.

  (* ctx: the break collector of the innermost enclosing loop (only the LIR reading uses it) *)
  Fixpoint exec (md : mode) (ctx : option N) (f : nat) (s : stmt) (r : env) (h : St) {struct f} : outcome St :=
    match s with
    | SBin x op e1 e2 =>
        match rt_binop op (eval e1 r) (eval e2 r) with
        | Val z => ONormal (set x z r) h
        | TrapArith => OTrap h
        end
    | SCast x e => ONormal (set x (eval e r) r) h
    | SOp x code args =>
        let (h', res) := world code (map (fun e => eval e r) args) h in
        match res with
        | Some z => ONormal (set_opt x z r) h'
        | None => OTrap h'
        end
    | SBreak e =>
        let v := eval e r in
        OBreak v (match md with Mir => r | Lir => set_opt ctx v r end) h
    | SIf c s1 s2 fas =>
        match f with
        | O => OFuel
        | S f' =>
            let side := truthy (eval c r) in
            match run_block (exec md ctx f') (if side then s1 else s2) r h with
            | ONormal r' h' => ONormal (assign_all md (fas_side side fas) r') h'
            | o => o
            end
        end
    | SSIf c inv ss =>
        match f with
        | O => OFuel
        | S f' => if xorb (truthy (eval c r)) inv then run_block (exec md ctx f') ss r h else ONormal r h
        end
    | SWhile lvs body bc =>
        match f with
        | O => OFuel
        | S f' => loop md f' lvs body bc (seq_assign (inits lvs) r) h
        end
    end
  with loop (md : mode) (f : nat) (lvs : list (N * expr * expr)) (body : list stmt) (bc : option N)
            (r : env) (h : St) {struct f} : outcome St :=
    match f with
    | O => OFuel
    | S f' =>
        match run_block (exec md bc f') body r h with
        | ONormal r' h' => loop md f' lvs body bc (assign_all md (updates lvs) r') h'
        | OBreak v r' h' => ONormal (match md with Mir => set_opt bc v r' | Lir => r' end) h'
        | o => o
        end
    end.

  Definition sem_mir (fuel : nat) (s : stmt) (r : env) (h : St) : outcome St := exec Mir None fuel s r h.
  Definition sem_lir (ctx : option N) (fuel : nat) (s : stmt) (r : env) (h : St) : outcome St :=
    exec Lir ctx fuel s r h.
End Sem.

(* ------------------------------------------------------------------ how outcomes are compared *)
(* equal except possibly on the names in T *)
Definition agree_off (T : list N) (m l : env) : Prop := forall x, ~ In x T -> m x = l x.

(* o1: outcome of the MIR reading, o2: outcome of the LIR reading inside a loop whose break collector is
   ctx (the LIR reading has already stored the break value, the MIR reading hands it to the loop) *)
Definition outcome_rel {St} (T : list N) (ctx : option N) (o1 o2 : outcome St) : Prop :=
  match o1, o2 with
  | ONormal m h, ONormal l h' => agree_off T m l /\ h = h'
  | OBreak v m h, OBreak v' l h' => v = v' /\ agree_off T (set_opt ctx v m) l /\ h = h'
  | OTrap h, OTrap h' => h = h'
  | OFuel, OFuel => True
  | _, _ => False
  end.

(* same kind of outcome, same hidden state, same break value, environments equal on xs *)
Definition outcome_eq_on {St} (xs : list N) (o1 o2 : outcome St) : Prop :=
  match o1, o2 with
  | ONormal m h, ONormal l h' => (forall x, In x xs -> m x = l x) /\ h = h'
  | OBreak v m h, OBreak v' l h' => v = v' /\ (forall x, In x xs -> m x = l x) /\ h = h'
  | OTrap h, OTrap h' => h = h'
  | OFuel, OFuel => True
  | _, _ => False
  end.
