(* C01 (loop-lowering slice) — the imperative fragment shared by MIR and LIR loops.
   crates/samlang-ast/src/mir.rs: Expression (Int32Literal | Variable), Statement::{Binary, Cast,
   LateInitAssignment (both: name := e), IfElse {final_assignments}, SingleIf {invert_condition},
   Break, While {loop_variables: GenenalLoopVariable {name, initial_value, loop_value}, statements,
   break_collector}}; lir.rs has the same shapes.  Types are erased: every value is an int.
   `SOp x code args` stands for every other statement that lir_lowering copies one to one without drawing a
   temporary (Not, IsPointer, IndexedAccess, StructInit, LateInitDeclaration, a Call of a named function
   that has a return collector or a non-reference result): an uninterpreted operation `code` on the values
   of `args` and a hidden state (heap, output), whose result, if any, is bound to x. *)
From Coq Require Import ZArith NArith List Bool.
Import ListNotations.
From SV Require Import Common.Int32.

Notation name := N (only parsing).

Inductive expr := EInt (z : Z) | EVar (x : name).

(* GenenalLoopVariable: (name, initial_value, loop_value) *)
Notation lvar := (name * expr * expr)%type (only parsing).
(* IfElseFinalAssignment: (name, e1, e2) *)
Notation fassign := (name * expr * expr)%type (only parsing).

Inductive stmt :=
| SBin (x : name) (op : binop) (e1 e2 : expr)
| SCast (x : name) (e : expr)
| SOp (x : option name) (code : N) (args : list expr)
| SIf (c : expr) (s1 s2 : list stmt) (fas : list fassign)
| SSIf (c : expr) (inv : bool) (ss : list stmt)
| SBreak (e : expr)
| SWhile (lvs : list lvar) (body : list stmt) (bc : option name).

Definition lv_name (v : lvar) : name := fst (fst v).
Definition lv_init (v : lvar) : expr := snd (fst v).
Definition lv_loop (v : lvar) : expr := snd v.

(* induction principle that goes through the nested lists *)
Section StmtInd.
  Variable P : stmt -> Prop.
  Hypothesis HBin : forall x op e1 e2, P (SBin x op e1 e2).
  Hypothesis HCast : forall x e, P (SCast x e).
  Hypothesis HOp : forall x code args, P (SOp x code args).
  Hypothesis HIf : forall c s1 s2 fas, Forall P s1 -> Forall P s2 -> P (SIf c s1 s2 fas).
  Hypothesis HSIf : forall c inv ss, Forall P ss -> P (SSIf c inv ss).
  Hypothesis HBreak : forall e, P (SBreak e).
  Hypothesis HWhile : forall lvs body bc, Forall P body -> P (SWhile lvs body bc).

  Fixpoint stmt_ind' (s : stmt) : P s :=
    let all := fix all (l : list stmt) : Forall P l :=
      match l with
      | [] => Forall_nil P
      | x :: t => Forall_cons x (stmt_ind' x) (all t)
      end in
    match s with
    | SBin x op e1 e2 => HBin x op e1 e2
    | SCast x e => HCast x e
    | SOp x code args => HOp x code args
    | SIf c s1 s2 fas => HIf c s1 s2 fas (all s1) (all s2)
    | SSIf c inv ss => HSIf c inv ss (all ss)
    | SBreak e => HBreak e
    | SWhile lvs body bc => HWhile lvs body bc (all body)
    end.
End StmtInd.

(* every name that occurs in a statement (defined or read) *)
Definition names_expr (e : expr) : list name := match e with EVar x => [x] | EInt _ => [] end.
Definition names_triple (t : name * expr * expr) : list name :=
  fst (fst t) :: names_expr (snd (fst t)) ++ names_expr (snd t).

Fixpoint names_stmt (s : stmt) : list name :=
  match s with
  | SBin x _ e1 e2 => x :: names_expr e1 ++ names_expr e2
  | SCast x e => x :: names_expr e
  | SOp x _ args => match x with Some y => [y] | None => [] end ++ flat_map names_expr args
  | SIf c s1 s2 fas =>
      names_expr c ++ flat_map names_stmt s1 ++ flat_map names_stmt s2 ++ flat_map names_triple fas
  | SSIf c _ ss => names_expr c ++ flat_map names_stmt ss
  | SBreak e => names_expr e
  | SWhile lvs body bc =>
      flat_map names_triple lvs ++ flat_map names_stmt body ++ match bc with Some c => [c] | None => [] end
  end.
Definition names_block (ss : list stmt) : list name := flat_map names_stmt ss.

(* well-formedness that single assignment gives for free, stated on its own:
   (a) the loop variables of one loop have pairwise different names (the TypeScript printer declares
       them with `let` in one block);
   (b) a final-assignment value of an IfElse does not read a name assigned by an EARLIER final
       assignment of the same IfElse (the reference interpreter evaluates all of them first, both
       back ends assign one after another; lir_lowering does nothing about it). *)
Definition mem (x : name) (l : list name) : bool := existsb (N.eqb x) l.
Definition reads (l : list name) (e : expr) : bool := match e with EVar x => mem x l | EInt _ => false end.
Fixpoint nodupb (l : list name) : bool :=
  match l with [] => true | x :: t => negb (mem x t) && nodupb t end.
Fixpoint fas_okb (assigned : list name) (fas : list fassign) : bool :=
  match fas with
  | [] => true
  | (x, e1, e2) :: t => negb (reads assigned e1) && negb (reads assigned e2) && fas_okb (x :: assigned) t
  end.

Fixpoint wfb (s : stmt) : bool :=
  match s with
  | SBin _ _ _ _ | SCast _ _ | SOp _ _ _ | SBreak _ => true
  | SIf _ s1 s2 fas => forallb wfb s1 && forallb wfb s2 && fas_okb [] fas
  | SSIf _ _ ss => forallb wfb ss
  | SWhile lvs body _ => nodupb (map lv_name lvs) && forallb wfb body
  end.
Definition wf (s : stmt) : Prop := wfb s = true.
