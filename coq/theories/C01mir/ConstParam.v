(* C01mir - Gallina mirror of crates/samlang-compiler/src/mir_constant_param_elimination.rs.  Definitions only.

   `const_param_elim` = rewrite_sources on Sources.functions: per function a local usage analysis of its
   parameters (the collect_def_function_usages functions), then one pass over all call sites of the program
   (the collect_global_usages functions), then every function is rewritten: parameters whose final state is not
   Unoptimizable are dropped from the signature and from every call site, and a parameter that every call site
   passes the same constant for is replaced by that constant in the body.

   HashMaps are association lists (newest binding first, lookup takes the first): function names and the
   parameters of one function are pairwise different in real MIR (part of `wf_prog`, ProofsConstParam.v).
   `anypos` : false = the code as it is; true = the seeded variant C01-6 (a variable argument of a self call is
   not counted as a use when it is ANY parameter, not only the parameter of that position). *)
From Coq Require Import ZArith NArith List Bool.
Import ListNotations.
From SV Require Import Common.Int32 C01mir.Syntax.

Inductive pstate := Unused | Referenced | CInt (z : Z) | CI31 (z : Z) | CStr (s : name) | Unopt.

Definition pstate_eqb (a b : pstate) : bool :=
  match a, b with
  | Unused, Unused | Referenced, Referenced | Unopt, Unopt => true
  | CInt x, CInt y | CI31 x, CI31 y => Z.eqb x y
  | CStr x, CStr y => N.eqb x y
  | _, _ => false
  end.

(* meet_param_state *)
Definition meet (a b : pstate) : pstate :=
  match a, b with
  | Unused, _ | _, Unused => Unused
  | Unopt, _ | _, Unopt => Unopt
  | Referenced, o | o, Referenced => o
  | _, _ => if pstate_eqb a b then a else Unopt
  end.

Definition is_unopt (s : pstate) : bool := match s with Unopt => true | _ => false end.

(* ---- local analysis: HashMap<PStr, ParamUsageAnalysisState> ---- *)
Definition lstate := list (name * pstate).

(* state.entry(v.name).and_modify(|s| *s = Referenced) *)
Definition use_var (st : lstate) (x : name) : lstate :=
  map (fun p => if N.eqb (fst p) x then (fst p, Referenced) else p) st.
Definition use_expr (st : lstate) (e : expr) : lstate :=
  match e with EVar x _ => use_var st x | _ => st end.
Definition use_quad (st : lstate) (q : quad) : lstate := use_expr (use_expr st (q_e1 q)) (q_e2 q).

Fixpoint lget (st : lstate) (x : name) : pstate :=
  match st with [] => Unused | (y, s) :: r => if N.eqb x y then s else lget r x end.

Section Local.
  Variable anypos : bool.
  Variable fn : N.                  (* f.name *)
  Variable params : list name.      (* f.parameters *)

  (* for (n, arg) in f.parameters.zip(arguments) { match arg { Variable(v) if v.name == *n => {}, _ => use(arg) } } *)
  Fixpoint self_args (st : lstate) (ps : list name) (args : list expr) : lstate :=
    match ps, args with
    | p :: pr, a :: ar =>
        self_args (match a with
                   | EVar x _ => if N.eqb x p then st else use_var st x
                   | _ => st
                   end) pr ar
    | _, _ => st
    end.
  (* the seeded variant: for arg in arguments { match arg { Variable(v) if f.parameters.contains(&v.name) => {}, .. } } *)
  Definition self_args_any (st : lstate) (args : list expr) : lstate :=
    fold_left (fun st a => match a with
                           | EVar x _ => if memb x params then st else use_var st x
                           | _ => st
                           end) args st.

  Fixpoint cd_stmt (st : lstate) (s : stmt) {struct s} : lstate :=
    match s with
    | SPrim _ _ e | SNot _ e | SBreak e | SAssign _ e | SClosure _ _ _ _ e => use_expr st e
    | SBin _ _ e1 e2 => use_expr (use_expr st e1) e2
    | SCall c args _ _ =>
        match c with
        | CFn g _ _ =>
            if N.eqb g fn
            then (if anypos then self_args_any st args else self_args st params args)
            else fold_left use_expr args st
        | CVar x _ => fold_left use_expr args (use_var st x)
        end
    | SIf c s1 s2 fas => fold_left use_quad fas (fold_left cd_stmt s2 (fold_left cd_stmt s1 (use_expr st c)))
    | SSIf c _ ss => fold_left cd_stmt ss (use_expr st c)
    | SWhile lvs ss _ => fold_left cd_stmt ss (fold_left use_quad lvs st)
    | SDecl _ _ => st
    | SStruct _ _ es => fold_left use_expr es st
    end.
  Definition cd_stmts (st : lstate) (ss : list stmt) : lstate := fold_left cd_stmt ss st.
End Local.

(* the parameter states of one function after the local analysis *)
Definition local_states (anypos : bool) (f : func) : list pstate :=
  let st0 := map (fun p => (p, Unused)) (f_params f) in
  let st := use_expr (cd_stmts anypos (f_name f) (f_params f) st0 (f_body f)) (f_ret f) in
  map (lget st) (f_params f).

(* ---- global analysis: HashMap<FunctionName, FunctionAnalysisState>; None = Unoptimizable ---- *)
Definition gstate := list (N * option (list pstate)).

Fixpoint gget (st : gstate) (g : N) : option (option (list pstate)) :=
  match st with [] => None | (h, v) :: r => if N.eqb g h then Some v else gget r g end.
Definition gset (g : N) (v : option (list pstate)) (st : gstate) : gstate := (g, v) :: st.

Definition classify (a : expr) : pstate :=
  match a with EInt n => CInt n | EI31 n => CI31 n | EStr p => CStr p | EVar _ _ => Unopt end.

(* for (i, arg) in arguments.enumerate() { param_states[i] = meet(param_states[i], classify(arg)) }
   (an argument beyond the parameters would be an index panic in the Rust; arities agree in real MIR) *)
Fixpoint meet_args (ps : list pstate) (args : list expr) : list pstate :=
  match ps, args with
  | p :: pr, a :: ar => meet p (classify a) :: meet_args pr ar
  | ps, [] => ps
  | [], _ :: _ => []
  end.

Fixpoint cg_stmt (st : gstate) (s : stmt) {struct s} : gstate :=
  match s with
  | SIf _ s1 s2 _ => fold_left cg_stmt s2 (fold_left cg_stmt s1 st)
  | SSIf _ _ ss | SWhile _ ss _ => fold_left cg_stmt ss st
  | SClosure _ _ f _ _ => gset f None st
  | SCall (CFn g _ _) args _ _ =>
      match gget st g with
      | Some (Some ps) => gset g (Some (meet_args ps args)) st
      | _ => st
      end
  | _ => st
  end.
Definition cg_stmts (st : gstate) (ss : list stmt) : gstate := fold_left cg_stmt ss st.

(* collect_all_usages *)
Definition collect_all (anypos : bool) (P : program) : gstate :=
  let st1 := fold_left (fun st f => gset (f_name f) (Some (local_states anypos f)) st) P [] in
  fold_left (fun st f => cg_stmts st (f_body f)) P st1.

(* ---- rewriting ---- *)
(* all_functions: only Optimizable functions are in it *)
Definition keep_of (st : gstate) (g : N) : option (list bool) :=
  match gget st g with Some (Some ps) => Some (map is_unopt ps) | _ => None end.

(* local_rewrite: parameter -> the constant that replaces it *)
Definition lrw := list (name * expr).
Fixpoint alookup (x : name) (l : lrw) : option expr :=
  match l with [] => None | (y, c) :: r => if N.eqb x y then Some c else alookup x r end.

Definition cp_expr (lr : lrw) (e : expr) : expr :=
  match e with
  | EVar x _ => match alookup x lr with Some c => c | None => e end
  | _ => e
  end.
Definition cp_quad (lr : lrw) (q : quad) : quad := mkq (q_name q) (q_ty q) (cp_expr lr (q_e1 q)) (cp_expr lr (q_e2 q)).

(* v.retain(|_| { keep_states[i++] }) *)
Fixpoint filter_keep {A} (ks : list bool) (l : list A) : list A :=
  match ks, l with
  | k :: kr, x :: r => if k then x :: filter_keep kr r else filter_keep kr r
  | _, _ => []
  end.

Section Rewrite.
  Variable gs : gstate.
  Variable lr : lrw.

  Fixpoint cp_stmt (s : stmt) {struct s} : stmt :=
    match s with
    | SPrim x p e => SPrim x p (cp_expr lr e)
    | SNot x e => SNot x (cp_expr lr e)
    | SBin x op e1 e2 => SBin x op (cp_expr lr e1) (cp_expr lr e2)
    | SCall c args rty ret =>
        match c with
        | CFn g atys frty =>
            match keep_of gs g with
            | Some ks => SCall (CFn g (filter_keep ks atys) frty) (map (cp_expr lr) (filter_keep ks args)) rty ret
            | None => SCall c (map (cp_expr lr) args) rty ret
            end
        | CVar _ _ => SCall c (map (cp_expr lr) args) rty ret
        end
    | SIf c s1 s2 fas => SIf (cp_expr lr c) (map cp_stmt s1) (map cp_stmt s2) (map (cp_quad lr) fas)
    | SSIf c inv ss => SSIf (cp_expr lr c) inv (map cp_stmt ss)
    | SWhile lvs ss bc => SWhile (map (cp_quad lr) lvs) (map cp_stmt ss) bc
    | SBreak e => SBreak (cp_expr lr e)
    | SAssign x e => SAssign x (cp_expr lr e)
    | SDecl x t => SDecl x t
    | SStruct x t es => SStruct x t (map (cp_expr lr) es)
    | SClosure x t f ft e => SClosure x t f ft (cp_expr lr e)
    end.
  Definition cp_stmts (ss : list stmt) : list stmt := map cp_stmt ss.
End Rewrite.

Definition const_of (s : pstate) : option expr :=
  match s with CInt i => Some (EInt i) | CI31 i => Some (EI31 i) | CStr p => Some (EStr p) | _ => None end.

(* the local_rewrite map built while retaining the parameters *)
Fixpoint mk_lrw (ps : list name) (ss : list pstate) : lrw :=
  match ps, ss with
  | p :: pr, s :: sr => match const_of s with Some c => (p, c) :: mk_lrw pr sr | None => mk_lrw pr sr end
  | _, _ => []
  end.

Definition cp_func (gs : gstate) (f : func) : func :=
  match gget gs (f_name f) with
  | Some (Some ps) =>
      let ks := map is_unopt ps in
      let lr := mk_lrw (f_params f) ps in
      mkfunc (f_name f) (filter_keep ks (f_params f)) (filter_keep ks (f_atys f)) (f_rty f)
             (cp_stmts gs lr (f_body f)) (cp_expr lr (f_ret f))
  | _ => mkfunc (f_name f) (f_params f) (f_atys f) (f_rty f) (cp_stmts gs [] (f_body f)) (cp_expr [] (f_ret f))
  end.

Definition const_param_elim (anypos : bool) (P : program) : program :=
  map (cp_func (collect_all anypos P)) P.

(* ---------- decidable side conditions of the preservation theorem (ProofsConstParam.v), evaluated on every real program ---------- *)

(* every direct call of a function of the program passes as many arguments as the function has parameters *)
Fixpoint calls_arity (P : program) (s : stmt) : bool :=
  match s with
  | SCall (CFn g _ _) args _ _ =>
      match find_func P g with
      | Some fn => (length args =? length (f_params fn))%nat
      | None => true
      end
  | SIf _ s1 s2 _ => forallb (calls_arity P) s1 && forallb (calls_arity P) s2
  | SSIf _ _ ss | SWhile _ ss _ => forallb (calls_arity P) ss
  | _ => true
  end.

(* the variables called as closures *)
Fixpoint callee_vars (s : stmt) : list name :=
  match s with
  | SCall (CVar x _) _ _ _ => [x]
  | SIf _ s1 s2 _ => flat_map callee_vars s1 ++ flat_map callee_vars s2
  | SSIf _ _ ss | SWhile _ ss _ => flat_map callee_vars ss
  | _ => []
  end.

(* the local_rewrite map of a function under the analysis result *)
Definition lrw_of (gs : gstate) (f : func) : lrw :=
  match gget gs (f_name f) with Some (Some ps) => mk_lrw (f_params f) ps | _ => [] end.

(* parameters are pairwise different and never bound or assigned again in the body; arities agree; a variable
   that is called is not replaced by a constant (rewrite_stmt leaves Callee::Variable alone) *)
Definition wf_cpe_func (P : program) (gs : gstate) (f : func) : bool :=
  nodupb (f_params f) &&
  disjointb (binders_l (f_body f) ++ assigned_l (f_body f)) (f_params f) &&
  forallb (calls_arity P) (f_body f) &&
  forallb (fun x => match alookup x (lrw_of gs f) with None => true | Some _ => false end)
          (flat_map callee_vars (f_body f)).

Definition wf_prog (P : program) : bool :=
  nodupb (map f_name P) && forallb (wf_cpe_func P (collect_all false P)) P.

(* the parameters of `g` survive: g is not a function of the program, or is Unoptimizable as a whole, or all its
   parameter states are Unoptimizable *)
Definition params_kept (gs : gstate) (g : N) : bool :=
  match gget gs g with
  | Some (Some ps) => forallb is_unopt ps
  | _ => true
  end.

(* the functions a ClosureInit of the program names *)
Fixpoint closure_fns (s : stmt) : list N :=
  match s with
  | SClosure _ _ f _ _ => [f]
  | SIf _ s1 s2 _ => flat_map closure_fns s1 ++ flat_map closure_fns s2
  | SSIf _ _ ss | SWhile _ ss _ => flat_map closure_fns ss
  | _ => []
  end.
Definition program_closure_fns (P : program) : list N := flat_map (fun f => flat_map closure_fns (f_body f)) P.
