(* C01mir - evaluation glue for layer B.  `vh mirstage-dump` prints the MIR of a real program immediately before and
   after constant-parameter elimination (whole program) and before / after the tail-recursion rewrite (every function).
   Here the Gallina models are run on `before` and compared with the real `after` (exact equality of terms: names,
   types, statements; the temporaries and "_tailrec_param_" names the real stage made are given to the model as its
   name supply), the side conditions of the theorems are evaluated, the seeded variants are run as well (how many real
   cases tell them apart), and both versions are executed in a concrete world on a few argument vectors (instances of
   the theorems; testing). *)
From Coq Require Import ZArith NArith List Bool.
Import ListNotations.
From SV Require Import Common.Int32 C01mir.Syntax C01mir.Sem C01mir.TailRec C01mir.ConstParam.
Open Scope Z_scope.

(* ---- a concrete world: a heap kept in the history ----
   an allocation returns BASE + its position in the history; field loads and closure calls find the allocation again;
   external calls return a hash of their arguments and of the length of the history (and sometimes do not return) *)
Definition BASE : Z := 100000.

Fixpoint find_alloc (tr : trace) (v : Z) : option event :=
  match tr with
  | [] => None
  | ev :: r => if v =? BASE + Z.of_nat (length r) then Some ev else find_alloc r v
  end.

Definition rw_ext (tr : trace) (f : N) (vs : list Z) : option Z :=
  let h := fold_left (fun a v => (a * 31 + v) mod 65521) vs (Z.of_N f + 7 * Z.of_nat (length tr)) in
  if h mod 29 =? 0 then None else Some (h mod 7).

Definition rw_prim (tr : trace) (p : prim) (v : Z) : Z :=
  match p with
  | PIdx _ i => match find_alloc tr v with
                | Some (KStruct _, vs) => nth (N.to_nat i) vs 0
                | Some (KClosure _ _, vs) => nth (N.to_nat i) vs 0
                | _ => (v * 5 + Z.of_N i) mod 17 - 3
                end
  | PIsPtr _ => if BASE <=? v then 1 else 0
  | PCast _ => v
  end.

Definition rw_clo (tr : trace) (v : Z) : option (N * Z) :=
  match find_alloc tr v with
  | Some (KClosure _ f, cx :: _) => Some (f, cx)
  | _ => None
  end.

Definition refw : world :=
  mkworld rw_ext (fun tr _ _ => BASE + Z.of_nat (length tr)) (fun s => 5000 + Z.of_N s) (fun z => 2 * z + 1) rw_prim rw_clo.

Definition arg_pool : list Z := [3; 0; 1; 5; 2; -1; 7; 4; 10; 6].
Definition arg_vector (k : nat) (j : nat) : list Z :=
  map (fun i => nth ((i * 7 + j * 3) mod 10) arg_pool 0) (seq 0 k).

Definition evk_eqb (a b : evk) : bool :=
  match a, b with
  | KExt f, KExt g => N.eqb f g
  | KStruct t, KStruct u => N.eqb t u
  | KClosure t f, KClosure u g => N.eqb t u && N.eqb f g
  | _, _ => false
  end.
Definition trace_eqb (a b : trace) : bool :=
  list_eqb (fun x y => evk_eqb (fst x) (fst y) && list_eqb Z.eqb (snd x) (snd y)) a b.

Definition outcome_eqb (a b : outcome) : bool :=
  match a, b with
  | Done v tr, Done v' tr' => (v =? v') && trace_eqb tr tr'
  | Trap tr, Trap tr' | Abort tr, Abort tr' => trace_eqb tr tr'
  | Stuck, Stuck | OutOfFuel, OutOfFuel => true
  | _, _ => false
  end.

(* 0: the source run is out of fuel (nothing is claimed); 1: same outcome; 2: different outcome;
   3: same outcome and the source run is Done (a subset of 1, counted separately) *)
Definition sem_case (fuel : nat) (P P' : program) (f : N) (args args' : list Z) : N :=
  match sem refw P f args fuel with
  | OutOfFuel => 0%N
  | o => if outcome_eqb o (sem refw P' f args' fuel) then (match o with Done _ _ => 3 | _ => 1 end)%N else 2%N
  end.

Definition b2n (b : bool) : N := if b then 1%N else 0%N.
Definition count (k : N) (l : list N) : N := N.of_nat (length (filter (N.eqb k) l)).

(* ---- the tail-recursion rewrite ---- *)
Definition closure_named (P : program) (g : N) : bool := existsb (N.eqb g) (program_closure_fns P).

Fixpoint assoc (l : list (name * name)) (x : name) : name :=
  match l with [] => 0%N | (y, z) :: r => if N.eqb x y then z else assoc r x end.

(* one function: [status; changed; wf_tail; seeded variant = real; discards; ret_const]
   status 0: model output = real output; 1: they differ *)
(* one function: [status; changed; wf_tail; seeded variant = real; discards; ret_const; unit-parameter class]
   status 0: model output = real output; 1: they differ *)
Definition tie_tail (tp : list (name * name)) (P1 : program) (k : N) (before after : func) : list N :=
  let m := tail_rec_rewrite false (assoc tp) k before in
  let ms := tail_rec_rewrite true (assoc tp) k before in
  let nd := match top_rc before with
            | Some rc => match fst (rw_stmts false (f_name before) (f_atys before) (f_body before) rc k) with
                         | Some (_, _, ds) => N.of_nat (length ds)
                         | None => 0%N
                         end
            | None => 0%N
            end in
  [(if func_eqb m after then 0 else 1)%N; b2n (negb (func_eqb before after)); b2n (wf_tail (assoc tp) k before);
   b2n (func_eqb ms after); nd; b2n (ret_const before);
   b2n (negb (closure_named P1 (f_name before)) && unit_param_class (assoc tp) k P1 before)].

(* instances: every changed function of P1 on 4 argument vectors, callees taken from the same program; a parameter
   that is returned at a leaf of a unit function (unit-parameter class) gets the value every unit has, 0;
   [source out of fuel; same; different; same and Done] *)
Definition zero_leaf_params (f : func) : list name :=
  if ret_const f then [] else match ret_leaves f with Some ps => ps | None => [] end.

Definition inst_tail (fuel : nat) (P1 P2 : program) : list N :=
  let rs := flat_map (fun ff =>
                        if func_eqb (fst ff) (snd ff) then []
                        else map (fun j => let zs := zero_leaf_params (fst ff) in
                                           let a := map (fun pv => if memb (fst pv) zs then 0 else snd pv)
                                                        (combine (f_params (fst ff)) (arg_vector (length (f_params (fst ff))) j)) in
                                           sem_case fuel P1 P2 (f_name (fst ff)) a a) (seq 0 4))
                     (combine P1 P2) in
  [count 0 rs; count 1 rs + count 3 rs; count 2 rs; count 3 rs]%N.

(* ---- constant-parameter elimination ---- *)
(* whole program: [status; wf_prog; seeded variant = real; functions; functions that lose a parameter; parameters
   dropped; of those replaced by a constant; functions Unoptimizable as a whole] *)
Definition dropped_of (gs : gstate) (f : func) : list pstate :=
  match gget gs (f_name f) with Some (Some ps) => filter (fun s => negb (is_unopt s)) ps | _ => [] end.

Definition tie_cpe (before after : program) : list N :=
  let gs := collect_all false before in
  let m := map (cp_func gs) before in
  let ms := const_param_elim true before in
  let dr := map (dropped_of gs) before in
  [(if program_eqb m after then 0 else 1)%N; b2n (wf_prog before); b2n (program_eqb ms after);
   N.of_nat (length before); N.of_nat (length (filter (fun l => negb (Nat.eqb (length l) 0)) dr));
   N.of_nat (length (concat dr));
   N.of_nat (length (filter (fun s => match const_of s with Some _ => true | None => false end) (concat dr)));
   N.of_nat (length (filter (fun f => match gget gs (f_name f) with Some None => true | _ => false end) before))].

(* instances (of ProofsConstParam.cp_crel): every function of P0 none of whose parameter states is Referenced (a state
   that a function with a call site never keeps), on 2 argument vectors that carry the constants the analysis found;
   the rewritten function gets the surviving arguments *)
Definition is_referenced (s : pstate) : bool := match s with Referenced => true | _ => false end.

Definition cpe_args (ps : list pstate) (pool : list Z) : list Z :=
  map (fun sv => match const_of (fst sv) with Some c => eval refw [] c | None => snd sv end) (combine ps pool).

Definition inst_cpe (fuel : nat) (P0 P1 : program) : list N :=
  let gs := collect_all false P0 in
  let rs := flat_map (fun f =>
                        match gget gs (f_name f) with
                        | Some (Some ps) =>
                            if existsb is_referenced ps then []
                            else map (fun j => let a := cpe_args ps (arg_vector (length ps) j) in
                                               sem_case fuel P0 P1 (f_name f) a (filter_keep (map is_unopt ps) a)) (seq 0 2)
                        | _ => map (fun j => let a := arg_vector (length (f_params f)) j in
                                             sem_case fuel P0 P1 (f_name f) a a) (seq 0 2)
                        end) P0 in
  [count 0 rs; count 1 rs + count 3 rs; count 2 rs; count 3 rs]%N.

(* one real program: P0 -cpe-> P1 -tailrec-> P2; ks = the first temporary of every function of P1 *)
Definition tie_job (fuel : nat) (tp : list (name * name)) (P0 P1 P2 : program) (ks : list N) : list (list N) :=
  tie_cpe P0 P1 :: inst_cpe fuel P0 P1 :: inst_tail fuel P1 P2 ::
  map (fun x => tie_tail tp P1 (snd x) (fst (fst x)) (snd (fst x))) (combine (combine P1 P2) ks).
