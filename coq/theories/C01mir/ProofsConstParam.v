(* C01mir - constant-parameter elimination (ConstParam.v) preserves behaviour. *)
From Coq Require Import ZArith NArith List Bool Lia.
Import ListNotations.
From SV Require Import Common.Int32 C01mir.Syntax C01mir.Sem C01mir.ConstParam C01mir.ProofsSem.
Open Scope Z_scope.

(* ================================================================================================
   Part 1: what the analysis computes
   ================================================================================================ *)

(* ---------- the local analysis as a list of used names ---------- *)
Definition uses_expr (e : expr) : list name := match e with EVar x _ => [x] | _ => [] end.
Definition uses_quad (q : quad) : list name := uses_expr (q_e1 q) ++ uses_expr (q_e2 q).

Fixpoint uses_self (ps : list name) (args : list expr) : list name :=
  match ps, args with
  | p :: pr, a :: ar =>
      (match a with EVar x _ => if N.eqb x p then [] else [x] | _ => [] end) ++ uses_self pr ar
  | _, _ => []
  end.

Section Uses.
  Variable fn : N.
  Variable params : list name.

  Fixpoint uses (s : stmt) : list name :=
    match s with
    | SPrim _ _ e | SNot _ e | SBreak e | SAssign _ e | SClosure _ _ _ _ e => uses_expr e
    | SBin _ _ e1 e2 => uses_expr e1 ++ uses_expr e2
    | SCall c args _ _ =>
        match c with
        | CFn g _ _ => if N.eqb g fn then uses_self params args else flat_map uses_expr args
        | CVar x _ => x :: flat_map uses_expr args
        end
    | SIf c s1 s2 fas => uses_expr c ++ flat_map uses s1 ++ flat_map uses s2 ++ flat_map uses_quad fas
    | SSIf c _ ss => uses_expr c ++ flat_map uses ss
    | SWhile lvs ss _ => flat_map uses_quad lvs ++ flat_map uses ss
    | SDecl _ _ => []
    | SStruct _ _ es => flat_map uses_expr es
    end.

  Definition use_all (st : lstate) (l : list name) : lstate := fold_left use_var l st.

  Lemma use_all_app st a b : use_all st (a ++ b) = use_all (use_all st a) b.
  Proof. unfold use_all. apply fold_left_app. Qed.

  Lemma use_expr_all st e : use_expr st e = use_all st (uses_expr e).
  Proof. destruct e; reflexivity. Qed.

  Lemma fold_use_expr es st : fold_left use_expr es st = use_all st (flat_map uses_expr es).
  Proof.
    revert st. induction es as [|e es IH]; intro st; simpl; [reflexivity|].
    rewrite IH, use_all_app, use_expr_all. reflexivity.
  Qed.

  Lemma fold_use_quad qs st : fold_left use_quad qs st = use_all st (flat_map uses_quad qs).
  Proof.
    revert st. induction qs as [|q qs IH]; intro st; simpl; [reflexivity|].
    rewrite IH, use_all_app. unfold use_quad, uses_quad. rewrite use_all_app, !use_expr_all. reflexivity.
  Qed.

  Lemma self_args_all ps args st : self_args st ps args = use_all st (uses_self ps args).
  Proof.
    revert args st. induction ps as [|p ps IH]; intros args st; simpl; [reflexivity|].
    destruct args as [|a args]; [reflexivity|]. rewrite IH, use_all_app. f_equal.
    destruct a as [z|z|s|x t]; try reflexivity. destruct (N.eqb x p); reflexivity.
  Qed.

  Lemma cd_uses_both :
    (forall s st, cd_stmt false fn params st s = use_all st (uses s)) /\
    (forall ss st, fold_left (cd_stmt false fn params) ss st = use_all st (flat_map uses ss)).
  Proof.
    apply stmt_stmts_ind2; intros; simpl; try (rewrite ?use_expr_all; reflexivity).
    - rewrite use_all_app, !use_expr_all. reflexivity.
    - destruct c as [g atys frty|x t].
      + destruct (N.eqb g fn); [apply self_args_all | apply fold_use_expr].
      + rewrite fold_use_expr. reflexivity.
    - rewrite fold_use_quad, H0, H, !use_all_app, use_expr_all. reflexivity.
    - rewrite H, use_all_app, use_expr_all. reflexivity.
    - rewrite H, fold_use_quad, use_all_app. reflexivity.
    - apply fold_use_expr.
    - rewrite H0, H, use_all_app. reflexivity.
  Qed.
End Uses.

Lemma use_var_keys st y : map fst (use_var st y) = map fst st.
Proof.
  unfold use_var. rewrite map_map. apply map_ext. intros [z s]. simpl. destruct (N.eqb z y); reflexivity.
Qed.

Lemma lget_use_var st y x :
  lget (use_var st y) x =
  if N.eqb x y then (if memb x (map fst st) then Referenced else Unused) else lget st x.
Proof.
  induction st as [|[z s] st IH].
  - simpl. destruct (N.eqb x y); reflexivity.
  - change (map fst ((z, s) :: st)) with (z :: map fst st).
    change (memb x (z :: map fst st)) with (N.eqb x z || memb x (map fst st)).
    change (use_var ((z, s) :: st) y) with ((if N.eqb z y then (z, Referenced) else (z, s)) :: use_var st y).
    destruct (N.eqb z y) eqn:Ezy; simpl; destruct (N.eqb x z) eqn:Exz; simpl.
    + apply N.eqb_eq in Ezy. apply N.eqb_eq in Exz. subst. rewrite N.eqb_refl. reflexivity.
    + exact IH.
    + apply N.eqb_eq in Exz. subst. rewrite Ezy. reflexivity.
    + exact IH.
Qed.

Lemma lget_ref_in st x : lget st x = Referenced -> memb x (map fst st) = true.
Proof.
  induction st as [|[z s] st IH]; simpl; [discriminate|]. unfold memb. simpl.
  destruct (N.eqb x z); [reflexivity|]. exact IH.
Qed.

Lemma lget_use_all_ref l st x : lget st x = Referenced -> lget (use_all st l) x = Referenced.
Proof.
  revert st. induction l as [|y l IH]; intros st H; simpl; [exact H|]. apply IH.
  rewrite lget_use_var. destruct (N.eqb x y); [|exact H]. rewrite (lget_ref_in _ _ H). reflexivity.
Qed.

Lemma lget_use_all_unused l st x :
  lget (use_all st l) x = Unused -> memb x (map fst st) = true -> ~ In x l.
Proof.
  revert st. induction l as [|y l IH]; intros st H Hk; simpl; [tauto|].
  simpl in H. intros [->|Hin].
  - rewrite (lget_use_all_ref l (use_var st x) x) in H; [discriminate|].
    rewrite lget_use_var, N.eqb_refl, Hk. reflexivity.
  - apply (IH (use_var st y)); [exact H | rewrite use_var_keys; exact Hk | exact Hin].
Qed.

(* a parameter whose local state is Unused is not used (a self call that hands it on at its own position aside) *)
Lemma local_unused f i p :
  nth_error (f_params f) i = Some p -> nth_error (local_states false f) i = Some Unused ->
  ~ In p (flat_map (uses (f_name f) (f_params f)) (f_body f) ++ uses_expr (f_ret f)).
Proof.
  intros Hp Hs. unfold local_states in Hs. rewrite nth_error_map, Hp in Hs. simpl in Hs. inversion Hs as [H]. clear Hs.
  unfold cd_stmts in H. rewrite (proj2 (cd_uses_both (f_name f) (f_params f))) in H.
  rewrite use_expr_all, <- use_all_app in H.
  apply (lget_use_all_unused _ _ _ H).
  rewrite map_map. simpl. rewrite map_id. apply memb_In. eapply nth_error_In; eauto.
Qed.

Lemma local_states_length f : length (local_states false f) = length (f_params f).
Proof. unfold local_states. apply map_length. Qed.

(* ---------- the global analysis as a fold over call / closure events ---------- *)
Inductive gev := GCall (g : N) (args : list expr) | GClo (g : N).

Fixpoint gev_stmt (s : stmt) : list gev :=
  match s with
  | SIf _ s1 s2 _ => flat_map gev_stmt s1 ++ flat_map gev_stmt s2
  | SSIf _ _ ss | SWhile _ ss _ => flat_map gev_stmt ss
  | SClosure _ _ f _ _ => [GClo f]
  | SCall (CFn g _ _) args _ _ => [GCall g args]
  | _ => []
  end.

Definition gstep (st : gstate) (ev : gev) : gstate :=
  match ev with
  | GCall g args => match gget st g with
                    | Some (Some ps) => gset g (Some (meet_args ps args)) st
                    | _ => st
                    end
  | GClo g => gset g None st
  end.

Lemma cg_gev_both :
  (forall s st, cg_stmt st s = fold_left gstep (gev_stmt s) st) /\
  (forall ss st, fold_left cg_stmt ss st = fold_left gstep (flat_map gev_stmt ss) st).
Proof.
  apply stmt_stmts_ind2; intros; simpl; try reflexivity.
  - destruct c as [g atys frty|x t]; reflexivity.
  - rewrite fold_left_app, H0, H. reflexivity.
  - apply H.
  - apply H.
  - rewrite fold_left_app, H0, H. reflexivity.
Qed.

(* the entry of one function name along the events *)
Definition gval := option (option (list pstate)).
Definition step_g (g : N) (v : gval) (ev : gev) : gval :=
  match ev with
  | GCall h args => if N.eqb h g then match v with Some (Some ps) => Some (Some (meet_args ps args)) | _ => v end else v
  | GClo h => if N.eqb h g then Some None else v
  end.

Lemma gget_gset g h v st : gget (gset h v st) g = if N.eqb g h then Some v else gget st g.
Proof. reflexivity. Qed.

Lemma gget_gstep g st ev : gget (gstep st ev) g = step_g g (gget st g) ev.
Proof.
  destruct ev as [h args|h]; simpl.
  - destruct (gget st h) as [[ps|]|] eqn:Eh.
    + rewrite gget_gset. rewrite N.eqb_sym. destruct (N.eqb h g) eqn:E.
      * apply N.eqb_eq in E. subst. rewrite Eh. reflexivity.
      * reflexivity.
    + destruct (N.eqb h g) eqn:E; [|reflexivity]. apply N.eqb_eq in E. subst. rewrite Eh. reflexivity.
    + destruct (N.eqb h g) eqn:E; [|reflexivity]. apply N.eqb_eq in E. subst. rewrite Eh. reflexivity.
  - rewrite (N.eqb_sym g h). destruct (N.eqb h g); reflexivity.
Qed.

Lemma gget_fold g evs st : gget (fold_left gstep evs st) g = fold_left (step_g g) evs (gget st g).
Proof.
  revert st. induction evs as [|ev evs IH]; intro st; simpl; [reflexivity|]. rewrite IH, gget_gstep. reflexivity.
Qed.

Definition all_events (P : program) : list gev := flat_map (fun f => flat_map gev_stmt (f_body f)) P.
Definition init_gstate (P : program) : gstate :=
  fold_left (fun st f => gset (f_name f) (Some (local_states false f)) st) P [].

Lemma collect_all_events P : collect_all false P = fold_left gstep (all_events P) (init_gstate P).
Proof.
  unfold collect_all, all_events. fold (init_gstate P). generalize (init_gstate P).
  induction P as [|f P IH]; intro st; simpl; [reflexivity|].
  rewrite fold_left_app, IH. unfold cg_stmts. rewrite (proj2 cg_gev_both). reflexivity.
Qed.

(* properties of a value that survive all later events *)
Lemma fold_step_inv g (I : gval -> Prop) evs v :
  (forall v ev, I v -> I (step_g g v ev)) -> I v -> I (fold_left (step_g g) evs v).
Proof.
  intros Hstep. revert v. induction evs as [|ev evs IH]; intros v Hv; simpl; [exact Hv|].
  apply IH. apply Hstep. exact Hv.
Qed.

(* states a position can be in after it has met the classification of argument a *)
Definition met (a : expr) (s : pstate) : Prop := s = Unused \/ s = Unopt \/ s = classify a.

Lemma met_meet_self a s : met a (meet s (classify a)).
Proof.
  unfold met. destruct s, a; simpl; auto;
    match goal with |- context [if ?b then _ else _] => destruct b eqn:E end; auto;
    try (apply Z.eqb_eq in E; subst; auto); try (apply N.eqb_eq in E; subst; auto).
Qed.

Lemma met_meet_other a b s : met a s -> met a (meet s (classify b)).
Proof.
  unfold met. intros [H|[H|H]]; subst s.
  - left. destruct b; reflexivity.
  - right. left. destruct b; reflexivity.
  - destruct a, b; simpl; auto;
      match goal with |- context [if ?c then _ else _] => destruct c end; auto.
Qed.

Definition metv (args : list expr) (ps : list pstate) : Prop :=
  forall i a s, nth_error args i = Some a -> nth_error ps i = Some s -> met a s.

Lemma nth_error_meet_args ps args i s :
  nth_error (meet_args ps args) i = Some s ->
  exists s0, nth_error ps i = Some s0 /\
             (s = s0 /\ nth_error args i = None \/ exists a, nth_error args i = Some a /\ s = meet s0 (classify a)).
Proof.
  revert args i. induction ps as [|p ps IH]; intros args i H.
  - destruct args; destruct i; discriminate.
  - destruct args as [|a args].
    + simpl in H. exists s. split; [exact H|]. left. split; [reflexivity|]. destruct i; reflexivity.
    + destruct i as [|i]; simpl in H.
      * inversion H; subst. exists p. split; [reflexivity|]. right. exists a. split; reflexivity.
      * destruct (IH args i H) as [s0 [H1 H2]]. exists s0. split; [exact H1|exact H2].
Qed.

Lemma metv_self ps args : metv args (meet_args ps args).
Proof.
  intros i a s Ha Hs. destruct (nth_error_meet_args _ _ _ _ Hs) as [s0 [_ [[_ Hn]|[a' [Ha' ->]]]]].
  - rewrite Hn in Ha. discriminate.
  - rewrite Ha in Ha'. inversion Ha'; subst. apply met_meet_self.
Qed.

Lemma metv_other args ps args2 : metv args ps -> metv args (meet_args ps args2).
Proof.
  intros H i a s Ha Hs. destruct (nth_error_meet_args _ _ _ _ Hs) as [s0 [H0 [[-> _]|[b [_ ->]]]]].
  - eapply H; eauto.
  - apply met_meet_other. eapply H; eauto.
Qed.

Lemma meet_args_length ps args : length (meet_args ps args) = length ps.
Proof.
  revert args. induction ps as [|p ps IH]; intros [|a args]; simpl; try reflexivity. rewrite IH. reflexivity.
Qed.

(* G2: every call site's arguments are reflected in the final states of the callee *)
Lemma call_site_met g args evs1 evs2 v ps :
  fold_left (step_g g) (evs1 ++ GCall g args :: evs2) v = Some (Some ps) -> metv args ps.
Proof.
  rewrite fold_left_app. simpl. rewrite N.eqb_refl.
  set (v1 := fold_left (step_g g) evs1 v).
  assert (H : forall v2, (forall ps2, v2 = Some (Some ps2) -> metv args ps2) ->
                         forall ps2, fold_left (step_g g) evs2 v2 = Some (Some ps2) -> metv args ps2).
  { intros v2 H2. apply (fold_step_inv g (fun v => forall ps2, v = Some (Some ps2) -> metv args ps2)); [|exact H2].
    intros v0 ev I0 ps2 E. destruct ev as [h a2|h]; simpl in E.
    - destruct (N.eqb h g); [|apply I0; exact E]. destruct v0 as [[ps0|]|]; try discriminate.
      inversion E; subst. apply metv_other. apply I0. reflexivity.
    - destruct (N.eqb h g); [discriminate|apply I0; exact E]. }
  intro E. eapply H; [|exact E]. intros ps2 E2. destruct v1 as [[ps1|]|]; try discriminate.
  inversion E2; subst. apply metv_self.
Qed.

(* G4: a function named by a ClosureInit ends Unoptimizable *)
Lemma closure_site_none g evs1 evs2 v : fold_left (step_g g) (evs1 ++ GClo g :: evs2) v = Some None.
Proof.
  rewrite fold_left_app. simpl. rewrite N.eqb_refl.
  apply (fold_step_inv g (fun v => v = Some None)); [|reflexivity].
  intros v0 ev ->. destruct ev as [h a2|h]; simpl; destruct (N.eqb h g); reflexivity.
Qed.

(* G3 / G1: the final states come from the initial ones position by position *)
Definition from_init (ps0 : list pstate) (v : gval) : Prop :=
  forall ps, v = Some (Some ps) ->
    length ps = length ps0 /\
    forall i s, nth_error ps i = Some s -> s = Unused -> nth_error ps0 i = Some Unused.

Lemma meet_unused s a : meet s (classify a) = Unused -> s = Unused.
Proof. destruct s, a; simpl; try discriminate; try reflexivity;
  match goal with |- context [if ?c then _ else _] => destruct c end; discriminate. Qed.

Lemma from_init_fold g ps0 evs : from_init ps0 (fold_left (step_g g) evs (Some (Some ps0))).
Proof.
  apply (fold_step_inv g (from_init ps0)).
  - intros v ev I0 ps E. destruct ev as [h a2|h]; simpl in E.
    + destruct (N.eqb h g); [|apply I0; exact E]. destruct v as [[ps1|]|]; try discriminate.
      inversion E; subst. destruct (I0 ps1 eq_refl) as [L U]. split; [rewrite meet_args_length; exact L|].
      intros i s Hs Hu. destruct (nth_error_meet_args _ _ _ _ Hs) as [s0 [H0 [[-> _]|[b [_ ->]]]]].
      * eapply U; eauto.
      * eapply U; eauto. eapply meet_unused; eauto.
    + destruct (N.eqb h g); [discriminate|apply I0; exact E].
  - intros ps E. inversion E; subst. split; [reflexivity|]. intros i s Hs ->. exact Hs.
Qed.

Lemma init_gstate_find P g :
  nodupb (map f_name P) = true ->
  gget (init_gstate P) g = option_map (fun f => Some (local_states false f)) (find_func P g).
Proof.
  unfold init_gstate.
  assert (H : forall st, nodupb (map f_name P) = true ->
            gget (fold_left (fun st f => gset (f_name f) (Some (local_states false f)) st) P st) g =
            match find_func P g with Some f => Some (Some (local_states false f)) | None => gget st g end).
  { induction P as [|f P IH]; intros st Hn; simpl; [reflexivity|].
    simpl in Hn. apply andb_true_iff in Hn. destruct Hn as [Hf Hn]. rewrite IH by exact Hn.
    destruct (N.eqb (f_name f) g) eqn:E.
    - apply N.eqb_eq in E. subst g.
      destruct (find_func P (f_name f)) as [f2|] eqn:Ef.
      + exfalso. apply negb_true_iff in Hf. apply memb_false_In in Hf. apply Hf.
        clear - Ef. induction P as [|h P IH]; simpl in Ef; [discriminate|].
        destruct (N.eqb (f_name h) (f_name f)) eqn:E; [left; apply N.eqb_eq; exact E | right; apply IH; exact Ef].
      + rewrite gget_gset, N.eqb_refl. reflexivity.
    - destruct (find_func P g); [reflexivity|]. rewrite gget_gset, N.eqb_sym, E. reflexivity. }
  intro Hn. rewrite (H [] Hn). destruct (find_func P g); reflexivity.
Qed.

(* ================================================================================================
   Part 2: the rewritten program simulates the original one
   ================================================================================================ *)
Definition is_lit (e : expr) : Prop := match e with EVar _ _ => False | _ => True end.

Lemma eval_lit_env w en en' e : is_lit e -> eval w en e = eval w en' e.
Proof. destruct e; simpl; tauto || reflexivity. Qed.

Lemma const_of_lit s cst : const_of s = Some cst -> is_lit cst.
Proof. destruct s; simpl; intro H; inversion H; exact I. Qed.

Lemma const_of_classify a cst : const_of (classify a) = Some cst -> a = cst.
Proof. destruct a; simpl; intro H; inversion H; reflexivity. Qed.

Lemma filter_keep_length {A B} ks (a : list A) (b : list B) :
  length a = length b -> length (filter_keep ks a) = length (filter_keep ks b).
Proof.
  revert a b. induction ks as [|k ks IH]; intros [|x a] [|y b] H; simpl in *; try reflexivity; try discriminate.
  destruct k; simpl; [f_equal|]; apply IH; lia.
Qed.

Lemma filter_keep_map {A B} (f : A -> B) ks l : filter_keep ks (map f l) = map f (filter_keep ks l).
Proof.
  revert l. induction ks as [|k ks IH]; intros [|x l]; simpl; try reflexivity.
  destruct k; simpl; rewrite IH; reflexivity.
Qed.

Section CpSim.
  Variable w : world.
  Variable P : program.
  Variable gs : gstate.
  Variables c c' : callf_t.
  Variable lf : nat.

  (* data of the function whose body is simulated *)
  Variable fname : N.
  Variable params : list name.
  Variable lr : lrw.            (* parameters replaced by a constant *)
  Variable X : list name.       (* parameters dropped without replacement *)

  Hypothesis HX : forall x, In x X -> In x params.
  Hypothesis Hlr : forall x cst, alookup x lr = Some cst -> In x params /\ is_lit cst.

  Definition rel (en en' : env) : Prop :=
    forall x, (~ In x X -> alookup x lr = None -> wrap32 (lookup x en) = wrap32 (lookup x en')) /\
              (forall cst, alookup x lr = Some cst -> wrap32 (lookup x en) = eval w [] cst).

  Definition expr_ok (e : expr) : Prop := match e with EVar x _ => ~ In x X | _ => True end.

  Lemma eval_cp en en' e : rel en en' -> expr_ok e -> eval w en' (cp_expr lr e) = eval w en e.
  Proof.
    intros R Ho. destruct e as [z|z|s|x t]; try reflexivity. simpl in *.
    destruct (alookup x lr) as [cst|] eqn:E.
    - rewrite (eval_lit_env w en' [] cst (proj2 (Hlr _ _ E))). symmetry. unfold eval at 1. apply (proj2 (R x)). exact E.
    - unfold eval. symmetry. apply (proj1 (R x)); assumption.
  Qed.

  Lemma expr_ok_of e : (forall x, In x X -> ~ In x (uses_expr e)) -> expr_ok e.
  Proof. destruct e as [z|z|s|x t]; simpl; try tauto. intros H Hx. apply (H x Hx). left. reflexivity. Qed.

  Lemma map_eval_cp en en' es :
    rel en en' -> (forall x, In x X -> ~ In x (flat_map uses_expr es)) ->
    map (eval w en') (map (cp_expr lr) es) = map (eval w en) es.
  Proof.
    intros R H. induction es as [|e es IH]; [reflexivity|]. simpl. f_equal.
    - apply eval_cp; [exact R|]. apply expr_ok_of. intros x Hx Hin. apply (H x Hx). simpl. apply in_or_app. left. exact Hin.
    - apply IH. intros x Hx Hin. apply (H x Hx). simpl. apply in_or_app. right. exact Hin.
  Qed.

  Lemma rel_bind en en' x v : rel en en' -> ~ In x params -> rel ((x, v) :: en) ((x, v) :: en').
  Proof.
    intros R Hx y. split.
    - intros Hy Hl. simpl. destruct (N.eqb y x); [reflexivity|]. apply (proj1 (R y)); assumption.
    - intros cst Hc. simpl. destruct (N.eqb y x) eqn:E.
      + apply N.eqb_eq in E. subst. exfalso. apply Hx. apply (Hlr _ _ Hc).
      + apply (proj2 (R y)). exact Hc.
  Qed.

  Lemma rel_bind_opt en en' o v : rel en en' -> (forall x, In x (opt_names o) -> ~ In x params) ->
    rel (bind_opt o v en) (bind_opt o v en').
  Proof. intros R H. destruct o as [x|]; [|exact R]. apply rel_bind; [exact R|]. apply H. left. reflexivity. Qed.

  Lemma rel_bind_qs en en' (g : quad -> expr) qs :
    rel en en' -> (forall q, In q qs -> ~ In (q_name q) params) ->
    (forall q, In q qs -> eval w en' (cp_expr lr (g q)) = eval w en (g q)) ->
    forall en0 en0', rel en0 en0' ->
    rel (combine (map q_name qs) (map (fun q => eval w en (g q)) qs) ++ en0)
        (combine (map q_name qs) (map (fun q => eval w en' (cp_expr lr (g q))) qs) ++ en0').
  Proof.
    intros R Hn He en0 en0' R0. induction qs as [|q qs IH]; simpl; [exact R0|].
    rewrite (He q) by (left; reflexivity). apply rel_bind.
    - apply IH; intros q0 Hq0; [apply Hn | apply He]; right; exact Hq0.
    - apply Hn. left. reflexivity.
  Qed.

  (* callees *)
  Definition good (ps : list pstate) (vs : list Z) : Prop :=
    Forall2 (fun s v => s <> Referenced /\ forall cst, const_of s = Some cst -> v = eval w [] cst) ps vs.
  Definition args_ok (g : N) (vs : list Z) : Prop := forall ps, gget gs g = Some (Some ps) -> good ps vs.
  Definition fk (g : N) (vs : list Z) : list Z :=
    match keep_of gs g with Some ks => filter_keep ks vs | None => vs end.
  Definition Crel : Prop := forall g vs tr, args_ok g vs -> c' g (fk g vs) tr = c g vs tr.
  Hypothesis HC : Crel.

  (* facts about the analysis result that the simulation of a body uses *)
  Hypothesis HG1 : forall g fn ps, find_func P g = Some fn -> gget gs g = Some (Some ps) -> length ps = length (f_params fn).
  Hypothesis HG5 : forall g ps, gget gs g = Some (Some ps) -> exists fn, find_func P g = Some fn.
  Hypothesis Hself : forall ps, gget gs fname = Some (Some ps) ->
      forall i p, nth_error params i = Some p -> nth_error ps i = Some Unopt -> ~ In p X.
  Hypothesis Hselfp : forall fn, find_func P fname = Some fn -> f_params fn = params.
  Hypothesis Hclo : forall tr v h cx, w_clo w tr v = Some (h, cx) -> keep_of gs h = None.
  Hypothesis HXnone : keep_of gs fname = None -> forall x, ~ In x X.

  (* what is asked of a statement *)
  Definition sites_ok (s : stmt) : Prop :=
    forall g args ps, In (GCall g args) (gev_stmt s) -> gget gs g = Some (Some ps) -> metv args ps.
  Definition nouse (s : stmt) : Prop := forall x, In x X -> ~ In x (uses fname params s).
  Definition binds_ok (s : stmt) : Prop := forall x, In x (binders s ++ assigned s) -> ~ In x params.
  Definition cvars_ok (s : stmt) : Prop := forall x, In x (callee_vars s) -> alookup x lr = None.
  Definition stmt_ok (s : stmt) : Prop :=
    sites_ok s /\ nouse s /\ binds_ok s /\ cvars_ok s /\ calls_arity P s = true.

  Definition rrel (R R' : res) : Prop :=
    match R, R' with
    | RNext en tr, RNext en' tr' => tr = tr' /\ rel en en'
    | RBreak v en tr, RBreak v' en' tr' => v = v' /\ tr = tr' /\ rel en en'
    | RFail o, RFail o' => o = o'
    | _, _ => False
    end.

  Lemma good_of_metv ps args en :
    metv args ps -> length ps = length args -> good ps (map (eval w en) args).
  Proof.
    revert args. induction ps as [|s ps IH]; intros [|a args] Hm Hl; simpl in *; try discriminate; constructor.
    - pose proof (Hm 0%nat a s eq_refl eq_refl) as M. split.
      + destruct M as [M | [M | M]]; subst s; try discriminate. destruct a; discriminate.
      + intros cst Hc. destruct M as [M | [M | M]]; subst s; try discriminate.
        pose proof (const_of_lit _ _ Hc) as Hlit. apply const_of_classify in Hc. subst. apply eval_lit_env. exact Hlit.
    - apply IH; [|lia]. intros i a0 s0 Ha Hs. apply (Hm (S i) a0 s0); assumption.
  Qed.

  Lemma map_eval_fk en en' ks args :
    (forall i a, nth_error args i = Some a -> nth_error ks i = Some true -> eval w en' (cp_expr lr a) = eval w en a) ->
    map (eval w en') (map (cp_expr lr) (filter_keep ks args)) = filter_keep ks (map (eval w en) args).
  Proof.
    revert args. induction ks as [|k ks IH]; intros [|a args] H; simpl; try reflexivity.
    destruct k; simpl.
    - f_equal; [apply (H 0%nat a); reflexivity|]. apply IH. intros i a0 Ha Hk. apply (H (S i) a0); assumption.
    - apply IH. intros i a0 Ha Hk. apply (H (S i) a0); assumption.
  Qed.

  Lemma uses_self_in ps args i p x t :
    nth_error ps i = Some p -> nth_error args i = Some (EVar x t) -> x <> p -> In x (uses_self ps args).
  Proof.
    revert args i. induction ps as [|p0 ps IH]; intros [|a args] [|i] Hp Ha Hne; simpl in *; try discriminate.
    - inversion Hp; inversion Ha; subst. apply N.eqb_neq in Hne. rewrite Hne. left. reflexivity.
    - apply in_or_app. right. eapply IH; eauto.
  Qed.

  Lemma self_args_ok en en' ps args :
    rel en en' -> gget gs fname = Some (Some ps) -> length args = length params ->
    (forall x, In x X -> ~ In x (uses_self params args)) ->
    forall i a, nth_error args i = Some a -> nth_error (map is_unopt ps) i = Some true ->
      eval w en' (cp_expr lr a) = eval w en a.
  Proof.
    intros R Hg Hl Hu i a Ha Hk. apply eval_cp; [exact R|].
    destruct a as [z|z|s|x t]; simpl; try exact I. intro Hx.
    assert (Hi : (i < length params)%nat). { rewrite <- Hl. apply nth_error_Some. rewrite Ha. discriminate. }
    destruct (nth_error params i) as [p|] eqn:Hp; [|apply nth_error_None in Hp; lia].
    destruct (N.eq_dec x p) as [->|Hne].
    - rewrite nth_error_map in Hk. destruct (nth_error ps i) as [s|] eqn:Hs; [|discriminate]. simpl in Hk.
      inversion Hk as [Hu']. destruct s; try discriminate. apply (Hself ps Hg i p Hp Hs). exact Hx.
    - apply (Hu x Hx). eapply uses_self_in; eauto.
  Qed.

  Lemma loop_rrel (b b' : env -> trace -> res) (next next' : env -> env) n :
    (forall en en' tr, rel en en' -> rrel (b en tr) (b' en' tr)) ->
    (forall en en', rel en en' -> rel (next en) (next' en')) ->
    forall en en' tr, rel en en' -> rrel (loop b next n en tr) (loop b' next' n en' tr).
  Proof.
    intros Hb Hn. induction n as [|n IH]; intros en en' tr R; simpl; [reflexivity|].
    specialize (Hb en en' tr R).
    destruct (b en tr) as [en1 tr1|v en1 tr1|o]; destruct (b' en' tr) as [en1' tr1'|v' en1' tr1'|o']; simpl in Hb; try contradiction.
    - destruct Hb as [<- R1]. apply IH. apply Hn. exact R1.
    - exact Hb.
    - exact Hb.
  Qed.

  (* parts of a compound statement are ok *)
  Lemma binders_l_in ss s x : In s ss -> In x (binders s) -> In x (binders_l ss).
  Proof.
    induction ss as [|s0 ss IH]; simpl; [tauto|]. intros [->|H] Hx; apply in_or_app; [left; exact Hx|right; apply IH; assumption].
  Qed.
  Lemma assigned_l_in ss s x : In s ss -> In x (assigned s) -> In x (assigned_l ss).
  Proof.
    induction ss as [|s0 ss IH]; simpl; [tauto|]. intros [->|H] Hx; apply in_or_app; [left; exact Hx|right; apply IH; assumption].
  Qed.

  Definition block_of (s : stmt) (ss : list stmt) : Prop :=
    match s with
    | SIf _ s1 s2 _ => ss = s1 \/ ss = s2
    | SSIf _ _ b | SWhile _ b _ => ss = b
    | _ => False
    end.

  Lemma sub_ok s ss s' : block_of s ss -> In s' ss -> stmt_ok s -> stmt_ok s'.
  Proof.
    intros Hb Hin [Hsi [Hnu [Hbi [Hcv Har]]]].
    assert (Hflat : forall {A} (f : stmt -> list A) x, In x (f s') -> In x (flat_map f ss)).
    { intros A f x Hx. apply in_flat_map. exists s'. split; assumption. }
    repeat split.
    - intros g args ps Hev Hg. apply (Hsi g args ps); [|exact Hg].
      destruct s; simpl in Hb; try contradiction; simpl.
      + destruct Hb as [->| ->]; apply in_or_app; [left|right]; apply Hflat; exact Hev.
      + subst. apply Hflat; exact Hev.
      + subst. apply Hflat; exact Hev.
    - intros x Hx Hu. apply (Hnu x Hx).
      destruct s; simpl in Hb; try contradiction; simpl.
      + apply in_or_app. right. destruct Hb as [->| ->].
        * apply in_or_app. left. apply Hflat; exact Hu.
        * apply in_or_app. right. apply in_or_app. left. apply Hflat; exact Hu.
      + subst. apply in_or_app. right. apply Hflat; exact Hu.
      + subst. apply in_or_app. right. apply Hflat; exact Hu.
    - intros x Hx. apply Hbi. apply in_app_or in Hx.
      destruct s; simpl in Hb; try contradiction; simpl; fold binders_l; fold assigned_l.
      + destruct Hx as [Hx|Hx]; apply in_or_app; [left|right].
        * destruct Hb as [->| ->]; apply in_or_app; [left|right; apply in_or_app; left]; eapply binders_l_in; eauto.
        * destruct Hb as [->| ->]; apply in_or_app; [left|right]; eapply assigned_l_in; eauto.
      + subst. destruct Hx as [Hx|Hx]; apply in_or_app; [left; eapply binders_l_in|right; eapply assigned_l_in]; eauto.
      + subst. destruct Hx as [Hx|Hx]; apply in_or_app; [left|right; eapply assigned_l_in; eauto].
        apply in_or_app. right. apply in_or_app. left. eapply binders_l_in; eauto.
    - intros x Hx. apply Hcv.
      destruct s; simpl in Hb; try contradiction; simpl.
      + destruct Hb as [->| ->]; apply in_or_app; [left|right]; apply Hflat; exact Hx.
      + subst. apply Hflat; exact Hx.
      + subst. apply Hflat; exact Hx.
    - destruct s; simpl in Hb; try contradiction; simpl in Har.
      + apply andb_true_iff in Har. destruct Har as [H1 H2].
        destruct Hb as [->| ->]; [rewrite forallb_forall in H1; apply H1|rewrite forallb_forall in H2; apply H2]; exact Hin.
      + subst. rewrite forallb_forall in Har. apply Har. exact Hin.
      + subst. rewrite forallb_forall in Har. apply Har. exact Hin.
  Qed.

  Lemma keep_of_some g ks : keep_of gs g = Some ks -> exists ps, gget gs g = Some (Some ps) /\ ks = map is_unopt ps.
  Proof.
    unfold keep_of. destruct (gget gs g) as [[ps|]|]; try discriminate. intro H. inversion H. exists ps. split; reflexivity.
  Qed.

  Lemma bind_qs_cp (g : quad -> expr) (gc : quad -> expr) fas en1' :
    (forall q, gc (cp_quad lr q) = cp_expr lr (g q)) ->
    combine (map q_name (map (cp_quad lr) fas)) (map (fun q => eval w en1' (gc q)) (map (cp_quad lr) fas)) ++ en1' =
    combine (map q_name fas) (map (fun q => eval w en1' (cp_expr lr (g q))) fas) ++ en1'.
  Proof.
    intro H. rewrite !map_map. f_equal. f_equal. apply map_ext. intro q. rewrite H. reflexivity.
  Qed.

  Lemma cp_sim_both :
    (forall s en en' tr, rel en en' -> stmt_ok s ->
        rrel (exec w c lf s en tr) (exec w c' lf (cp_stmt gs lr s) en' tr)) /\
    (forall ss en en' tr, rel en en' -> (forall s, In s ss -> stmt_ok s) ->
        rrel (exec_list (exec w c lf) ss en tr) (exec_list (exec w c' lf) (map (cp_stmt gs lr) ss) en' tr)).
  Proof.
    apply stmt_stmts_ind2.
    - (* SBin *) intros x op e1 e2 en en' tr R [Hsi [Hnu [Hbi [Hcv Har]]]]. simpl.
      rewrite (eval_cp en en' e1 R), (eval_cp en en' e2 R).
      + destruct (rt_binop op (eval w en e1) (eval w en e2)); simpl; [|reflexivity].
        split; [reflexivity|]. apply rel_bind; [exact R|]. apply Hbi. left. reflexivity.
      + apply expr_ok_of. intros y Hy Hin. apply (Hnu y Hy). simpl. apply in_or_app. right. exact Hin.
      + apply expr_ok_of. intros y Hy Hin. apply (Hnu y Hy). simpl. apply in_or_app. left. exact Hin.
    - (* SNot *) intros x e en en' tr R [Hsi [Hnu [Hbi [Hcv Har]]]]. simpl.
      rewrite (eval_cp en en' e R).
      + split; [reflexivity|]. apply rel_bind; [exact R|]. apply Hbi. left. reflexivity.
      + apply expr_ok_of. intros y Hy Hin. apply (Hnu y Hy). exact Hin.
    - (* SPrim *) intros x p e en en' tr R [Hsi [Hnu [Hbi [Hcv Har]]]]. simpl.
      rewrite (eval_cp en en' e R).
      + split; [reflexivity|]. apply rel_bind; [exact R|]. apply Hbi. left. reflexivity.
      + apply expr_ok_of. intros y Hy Hin. apply (Hnu y Hy). exact Hin.
    - (* SCall *) intros cl args rty ret en en' tr R [Hsi [Hnu [Hbi [Hcv Har]]]].
      assert (Hret : forall v tr1, rrel (RNext (bind_opt ret v en) tr1) (RNext (bind_opt ret v en') tr1)).
      { intros v tr1. split; [reflexivity|]. apply rel_bind_opt; [exact R|]. intros x Hx. apply Hbi.
        apply in_or_app. left. exact Hx. }
      destruct cl as [g atys frty|x t].
      + (* a named function *)
        assert (Hvals : exists args', cp_stmt gs lr (SCall (CFn g atys frty) args rty ret) =
                                      SCall (CFn g (match keep_of gs g with Some ks => filter_keep ks atys | None => atys end) frty) args' rty ret /\
                                      map (eval w en') args' = fk g (map (eval w en) args) /\ args_ok g (map (eval w en) args)).
        { simpl. unfold fk. destruct (keep_of gs g) as [ks|] eqn:Ek.
          - destruct (keep_of_some _ _ Ek) as [ps [Hg ->]].
            destruct (HG5 _ _ Hg) as [fn Hfn]. simpl in Har. rewrite Hfn in Har. apply Nat.eqb_eq in Har.
            pose proof (HG1 _ _ _ Hfn Hg) as Hlen.
            exists (map (cp_expr lr) (filter_keep (map is_unopt ps) args)). split; [reflexivity|]. split.
            + apply map_eval_fk. intros i a Ha Hk. unfold nouse in Hnu. simpl in Hnu. destruct (N.eqb g fname) eqn:Eg.
              * apply N.eqb_eq in Eg. subst g. eapply self_args_ok; eauto. rewrite Har, (Hselfp _ Hfn). reflexivity.
              * apply eval_cp; [exact R|]. apply expr_ok_of. intros y Hy Hin. apply (Hnu y Hy).
                apply in_flat_map. exists a. split; [eapply nth_error_In; eauto|exact Hin].
            + intros ps' Hg'. rewrite Hg in Hg'. inversion Hg'; subst ps'. apply good_of_metv.
              * apply (Hsi g args ps); [left; reflexivity|exact Hg].
              * rewrite Hlen, Har. reflexivity.
          - exists (map (cp_expr lr) args). split; [reflexivity|]. split.
            + unfold nouse in Hnu. simpl in Hnu. destruct (N.eqb g fname) eqn:Eg.
              * apply N.eqb_eq in Eg. subst g. pose proof (HXnone Ek) as HX0.
                assert (Hall : forall l, map (eval w en') (map (cp_expr lr) l) = map (eval w en) l).
                { induction l as [|a l IHl]; [reflexivity|]. simpl. f_equal; [|exact IHl].
                  apply eval_cp; [exact R|]. destruct a; simpl; try exact I. apply HX0. }
                apply Hall.
              * apply map_eval_cp; assumption.
            + intros ps Hg. unfold keep_of in Ek. rewrite Hg in Ek. discriminate. }
        destruct Hvals as [args' [Hcp [Hv Hok]]]. rewrite Hcp. simpl. rewrite Hv, (HC g _ tr Hok).
        destruct (c g (map (eval w en) args) tr) as [v tr1|o]; [apply Hret|reflexivity].
      + (* a closure *)
        simpl. unfold nouse in Hnu. simpl in Hnu.
        assert (Hx : wrap32 (lookup x en) = wrap32 (lookup x en')).
        { apply (proj1 (R x)).
          - intro Hin. apply (Hnu x Hin). left. reflexivity.
          - apply Hcv. left. reflexivity. }
        rewrite <- Hx. rewrite (map_eval_cp en en' args R).
        * destruct (w_clo w tr (wrap32 (lookup x en))) as [[h cx]|] eqn:Ew; [|reflexivity].
          pose proof (Hclo _ _ _ _ Ew) as Hk.
          assert (Hc0 : c' h (cx :: map (eval w en) args) tr = c h (cx :: map (eval w en) args) tr).
          { pose proof (HC h (cx :: map (eval w en) args) tr) as H0. unfold fk in H0. rewrite Hk in H0. apply H0.
            intros ps Hg. unfold keep_of in Hk. rewrite Hg in Hk. discriminate. }
          rewrite Hc0. destruct (c h (cx :: map (eval w en) args) tr) as [v tr1|o]; [apply Hret|reflexivity].
        * intros y Hy Hin. apply (Hnu y Hy). right. exact Hin.
    - (* SIf *) intros cnd s1 s2 fas IH1 IH2 en en' tr R Hok.
      pose proof Hok as [Hsi [Hnu [Hbi [Hcv Har]]]]. simpl.
      rewrite (eval_cp en en' cnd R).
      2:{ apply expr_ok_of. intros y Hy Hin. apply (Hnu y Hy). simpl. apply in_or_app. left. exact Hin. }
      assert (Hfn : forall q, In q fas -> ~ In (q_name q) params).
      { intros q Hq. apply Hbi. simpl. fold binders_l. apply in_or_app. left. apply in_or_app. right. apply in_or_app. right.
        apply in_map. exact Hq. }
      destruct (cond (eval w en cnd)) as [[|]|]; [| |reflexivity].
      + specialize (IH1 en en' tr R (fun s' Hin => sub_ok (SIf cnd s1 s2 fas) s1 s' (or_introl eq_refl) Hin Hok)).
        destruct (exec_list (exec w c lf) s1 en tr) as [en1 tr1|v en1 tr1|o];
          destruct (exec_list (exec w c' lf) (map (cp_stmt gs lr) s1) en' tr) as [en1' tr1'|v' en1' tr1'|o']; simpl in IH1; try contradiction.
        * destruct IH1 as [<- R1]. split; [reflexivity|]. unfold bind_e1.
          rewrite (bind_qs_cp q_e1 q_e1) by (intro q; reflexivity).
          apply rel_bind_qs; try assumption. intros q Hq. apply eval_cp; [exact R1|].
          apply expr_ok_of. intros y Hy Hin. apply (Hnu y Hy). simpl. apply in_or_app. right. apply in_or_app. right.
          apply in_or_app. right. apply in_flat_map. exists q. split; [exact Hq|]. unfold uses_quad. apply in_or_app. left. exact Hin.
        * exact IH1.
        * exact IH1.
      + specialize (IH2 en en' tr R (fun s' Hin => sub_ok (SIf cnd s1 s2 fas) s2 s' (or_intror eq_refl) Hin Hok)).
        destruct (exec_list (exec w c lf) s2 en tr) as [en1 tr1|v en1 tr1|o];
          destruct (exec_list (exec w c' lf) (map (cp_stmt gs lr) s2) en' tr) as [en1' tr1'|v' en1' tr1'|o']; simpl in IH2; try contradiction.
        * destruct IH2 as [<- R1]. split; [reflexivity|]. unfold bind_e2.
          rewrite (bind_qs_cp q_e2 q_e2) by (intro q; reflexivity).
          apply rel_bind_qs; try assumption. intros q Hq. apply eval_cp; [exact R1|].
          apply expr_ok_of. intros y Hy Hin. apply (Hnu y Hy). simpl. apply in_or_app. right. apply in_or_app. right.
          apply in_or_app. right. apply in_flat_map. exists q. split; [exact Hq|]. unfold uses_quad. apply in_or_app. right. exact Hin.
        * exact IH2.
        * exact IH2.
    - (* SSIf *) intros cnd inv ss IH en en' tr R Hok.
      pose proof Hok as [Hsi [Hnu [Hbi [Hcv Har]]]]. simpl.
      rewrite (eval_cp en en' cnd R).
      2:{ apply expr_ok_of. intros y Hy Hin. apply (Hnu y Hy). simpl. apply in_or_app. left. exact Hin. }
      destruct (cond (eval w en cnd)) as [b|]; [|reflexivity].
      destruct (xorb b inv); [|split; [reflexivity|exact R]].
      apply IH; [exact R|]. intros s' Hin. exact (sub_ok (SSIf cnd inv ss) ss s' eq_refl Hin Hok).
    - (* SBreak *) intros e en en' tr R [Hsi [Hnu [Hbi [Hcv Har]]]]. simpl.
      rewrite (eval_cp en en' e R).
      + split; [reflexivity|]. split; [reflexivity|exact R].
      + apply expr_ok_of. intros y Hy Hin. apply (Hnu y Hy). exact Hin.
    - (* SWhile *) intros lvs ss bc IH en en' tr R Hok.
      pose proof Hok as [Hsi [Hnu [Hbi [Hcv Har]]]]. simpl.
      assert (Hln : forall q, In q lvs -> ~ In (q_name q) params).
      { intros q Hq. apply Hbi. simpl. fold binders_l. apply in_or_app. left. apply in_or_app. left. apply in_map. exact Hq. }
      assert (R0 : rel (bind_e1 w lvs en) (bind_e1 w (map (cp_quad lr) lvs) en')).
      { unfold bind_e1. rewrite (bind_qs_cp q_e1 q_e1) by (intro q; reflexivity).
        apply rel_bind_qs; try assumption. intros q Hq. apply eval_cp; [exact R|].
        apply expr_ok_of. intros y Hy Hin. apply (Hnu y Hy). simpl. apply in_or_app. left.
        apply in_flat_map. exists q. split; [exact Hq|]. unfold uses_quad. apply in_or_app. left. exact Hin. }
      pose proof (loop_rrel (exec_list (exec w c lf) ss) (exec_list (exec w c' lf) (map (cp_stmt gs lr) ss))
                    (bind_e2 w lvs) (bind_e2 w (map (cp_quad lr) lvs)) lf) as HL.
      assert (HLr : rrel (loop (exec_list (exec w c lf) ss) (bind_e2 w lvs) lf (bind_e1 w lvs en) tr)
                         (loop (exec_list (exec w c' lf) (map (cp_stmt gs lr) ss)) (bind_e2 w (map (cp_quad lr) lvs)) lf
                               (bind_e1 w (map (cp_quad lr) lvs) en') tr)).
      { apply HL; [| |exact R0].
        - intros en0 en0' tr0 R1. apply IH; [exact R1|]. intros s' Hin. exact (sub_ok (SWhile lvs ss bc) ss s' eq_refl Hin Hok).
        - intros en0 en0' R1. unfold bind_e2. rewrite (bind_qs_cp q_e2 q_e2) by (intro q; reflexivity).
          apply rel_bind_qs; try assumption. intros q Hq. apply eval_cp; [exact R1|].
          apply expr_ok_of. intros y Hy Hin. apply (Hnu y Hy). simpl. apply in_or_app. left.
          apply in_flat_map. exists q. split; [exact Hq|]. unfold uses_quad. apply in_or_app. right. exact Hin. }
      destruct (loop (exec_list (exec w c lf) ss) (bind_e2 w lvs) lf (bind_e1 w lvs en) tr) as [en1 tr1|v en1 tr1|o];
        destruct (loop (exec_list (exec w c' lf) (map (cp_stmt gs lr) ss)) (bind_e2 w (map (cp_quad lr) lvs)) lf
                       (bind_e1 w (map (cp_quad lr) lvs) en') tr) as [en1' tr1'|v' en1' tr1'|o']; simpl in HLr; try contradiction; simpl.
      + reflexivity.
      + destruct HLr as [<- [<- R1]]. split; [reflexivity|]. destruct bc as [[b tb]|]; simpl; [|exact R1].
        apply rel_bind; [exact R1|]. apply Hbi. simpl. fold binders_l. apply in_or_app. left. apply in_or_app. right.
        apply in_or_app. right. left. reflexivity.
      + exact HLr.
    - (* SDecl *) intros x t en en' tr R [Hsi [Hnu [Hbi [Hcv Har]]]]. simpl.
      split; [reflexivity|]. apply rel_bind; [exact R|]. apply Hbi. left. reflexivity.
    - (* SAssign *) intros x e en en' tr R [Hsi [Hnu [Hbi [Hcv Har]]]]. simpl.
      rewrite (eval_cp en en' e R).
      + split; [reflexivity|]. apply rel_bind; [exact R|]. apply Hbi. simpl. left. reflexivity.
      + apply expr_ok_of. intros y Hy Hin. apply (Hnu y Hy). exact Hin.
    - (* SStruct *) intros x t es en en' tr R [Hsi [Hnu [Hbi [Hcv Har]]]]. simpl.
      rewrite (map_eval_cp en en' es R).
      + split; [reflexivity|]. apply rel_bind; [exact R|]. apply Hbi. left. reflexivity.
      + intros y Hy Hin. apply (Hnu y Hy). exact Hin.
    - (* SClosure *) intros x t f ft e en en' tr R [Hsi [Hnu [Hbi [Hcv Har]]]]. simpl.
      rewrite (eval_cp en en' e R).
      + split; [reflexivity|]. apply rel_bind; [exact R|]. apply Hbi. left. reflexivity.
      + apply expr_ok_of. intros y Hy Hin. apply (Hnu y Hy). exact Hin.
    - (* nil *) intros en en' tr R _. simpl. split; [reflexivity|exact R].
    - (* cons *) intros s r IHs IHr en en' tr R Hok. simpl.
      specialize (IHs en en' tr R (Hok s (or_introl eq_refl))).
      destruct (exec w c lf s en tr) as [en1 tr1|v en1 tr1|o];
        destruct (exec w c' lf (cp_stmt gs lr s) en' tr) as [en1' tr1'|v' en1' tr1'|o']; simpl in IHs; try contradiction.
      + destruct IHs as [<- R1]. apply IHr; [exact R1|]. intros s' Hin. apply Hok. right. exact Hin.
      + exact IHs.
      + exact IHs.
  Qed.
End CpSim.

(* ================================================================================================
   Part 3: whole programs
   ================================================================================================ *)

(* parameters dropped without a constant to replace them *)
Fixpoint xdrop (ps : list name) (ss : list pstate) : list name :=
  match ps, ss with
  | p :: pr, s :: sr =>
      if is_unopt s then xdrop pr sr
      else match const_of s with Some _ => xdrop pr sr | None => p :: xdrop pr sr end
  | _, _ => []
  end.

Definition x_of (gs : gstate) (f : func) : list name :=
  match gget gs (f_name f) with Some (Some ps) => xdrop (f_params f) ps | _ => [] end.

Lemma xdrop_in ps ss x : In x (xdrop ps ss) ->
  exists i s, nth_error ps i = Some x /\ nth_error ss i = Some s /\ is_unopt s = false /\ const_of s = None.
Proof.
  revert ss. induction ps as [|p ps IH]; intros [|s ss] H; simpl in H; try contradiction.
  destruct (is_unopt s) eqn:Eu.
  - destruct (IH ss H) as [i [s0 Hi]]. exists (S i), s0. exact Hi.
  - destruct (const_of s) eqn:Ec.
    + destruct (IH ss H) as [i [s0 Hi]]. exists (S i), s0. exact Hi.
    + destruct H as [<-|H].
      * exists 0%nat, s. repeat split; assumption.
      * destruct (IH ss H) as [i [s0 Hi]]. exists (S i), s0. exact Hi.
Qed.

Lemma mk_lrw_in ps ss x cst : alookup x (mk_lrw ps ss) = Some cst ->
  exists i s, nth_error ps i = Some x /\ nth_error ss i = Some s /\ const_of s = Some cst.
Proof.
  revert ss. induction ps as [|p ps IH]; intros [|s ss] H; simpl in H; try discriminate.
  destruct (const_of s) as [c0|] eqn:Ec.
  - simpl in H. destruct (N.eqb x p) eqn:E.
    + apply N.eqb_eq in E. subst. inversion H; subst. exists 0%nat, s. repeat split; assumption.
    + destruct (IH ss H) as [i [s0 Hi]]. exists (S i), s0. exact Hi.
  - destruct (IH ss H) as [i [s0 Hi]]. exists (S i), s0. exact Hi.
Qed.

Lemma nodup_nth_eq (l : list name) i j x :
  nodupb l = true -> nth_error l i = Some x -> nth_error l j = Some x -> i = j.
Proof.
  revert i j. induction l as [|y l IH]; intros i j Hn Hi Hj; [destruct i; discriminate|].
  simpl in Hn. apply andb_true_iff in Hn. destruct Hn as [Hy Hn]. apply negb_true_iff in Hy. apply memb_false_In in Hy.
  destruct i as [|i], j as [|j]; simpl in *; try reflexivity.
  - inversion Hi; subst. exfalso. apply Hy. eapply nth_error_In; eauto.
  - inversion Hj; subst. exfalso. apply Hy. eapply nth_error_In; eauto.
  - f_equal. eapply IH; eauto.
Qed.

Section InitRel.
  Variable w : world.

  Lemma init_rel params ps vs :
    nodupb params = true -> length ps = length params -> good w ps vs ->
    rel w (mk_lrw params ps) (xdrop params ps)
        (combine params vs) (combine (filter_keep (map is_unopt ps) params) (filter_keep (map is_unopt ps) vs)).
  Proof.
    revert ps vs. induction params as [|p params IH]; intros ps vs Hn Hl Hg.
    - destruct ps; [|discriminate]. intros x. split; [reflexivity|]. simpl. discriminate.
    - destruct ps as [|s ps]; [discriminate|]. inversion Hg as [|s0 v ps0 vs0 [Hs Hc] Hg']; subst.
      simpl in Hn. apply andb_true_iff in Hn. destruct Hn as [Hp Hn]. apply negb_true_iff in Hp. apply memb_false_In in Hp.
      assert (Hl' : length ps = length params) by (simpl in Hl; lia).
      pose proof (IH ps vs0 Hn Hl' Hg') as R. intros x. specialize (R x). destruct R as [R1 R2].
      assert (Hnotp : forall cst, alookup x (mk_lrw params ps) = Some cst -> N.eqb x p = false).
      { intros cst Hc0. destruct (mk_lrw_in _ _ _ _ Hc0) as [i [s1 [Hi _]]]. apply N.eqb_neq. intro. subst.
        apply Hp. eapply nth_error_In; eauto. }
      simpl. destruct (is_unopt s) eqn:Eu.
      + (* kept *)
        destruct s; try discriminate. simpl. split.
        * intros Hx Hlk. destruct (N.eqb x p); [reflexivity|]. apply R1; assumption.
        * intros cst Hc0. rewrite (Hnotp _ Hc0). apply R2. exact Hc0.
      + destruct (const_of s) as [c0|] eqn:Ec; simpl.
        * split.
          -- intros Hx Hlk. destruct (N.eqb x p) eqn:E; [discriminate|]. apply R1; assumption.
          -- intros cst Hc0. destruct (N.eqb x p) eqn:E.
             ++ inversion Hc0; subst. rewrite (Hc cst eq_refl). apply eval_wrapped.
             ++ apply R2. exact Hc0.
        * split.
          -- intros Hx Hlk. destruct (N.eqb x p) eqn:E.
             ++ apply N.eqb_eq in E. subst. exfalso. apply Hx. left. reflexivity.
             ++ apply R1; [|exact Hlk]. intro Hin. apply Hx. right. exact Hin.
          -- intros cst Hc0. rewrite (Hnotp _ Hc0). apply R2. exact Hc0.
  Qed.
End InitRel.

(* closures of the world denote functions that a ClosureInit of the program names, or external functions *)
Definition closures_ok (w : world) (P : program) : Prop :=
  forall tr v h cx, w_clo w tr v = Some (h, cx) -> In h (program_closure_fns P) \/ find_func P h = None.

Lemma closure_fns_gev s h : In h (closure_fns s) -> In (GClo h) (gev_stmt s).
Proof.
  revert s. apply (stmt_ind2 (fun s => In h (closure_fns s) -> In (GClo h) (gev_stmt s))
                             (fun ss => In h (flat_map closure_fns ss) -> In (GClo h) (flat_map gev_stmt ss)));
    simpl; try tauto.
  - intros c s1 s2 fas H1 H2 H. apply in_app_or in H. apply in_or_app. tauto.
  - intros x t f ft e [Hf|[]]. subst. left. reflexivity.
  - intros s r Hs Hr H. apply in_app_or in H. apply in_or_app. tauto.
Qed.

Lemma find_func_name P g fn : find_func P g = Some fn -> f_name fn = g /\ In fn P.
Proof.
  induction P as [|f P IH]; simpl; [discriminate|]. destruct (N.eqb (f_name f) g) eqn:E.
  - intro H. inversion H; subst. split; [apply N.eqb_eq; exact E|left; reflexivity].
  - intro H. destruct (IH H). split; [assumption|right; assumption].
Qed.

Lemma find_func_map (h : func -> func) P g :
  (forall f, f_name (h f) = f_name f) -> find_func (map h P) g = option_map h (find_func P g).
Proof.
  intro Hn. induction P as [|f P IH]; simpl; [reflexivity|]. rewrite Hn. destruct (N.eqb (f_name f) g); [reflexivity|exact IH].
Qed.

Lemma cp_func_name gs f : f_name (cp_func gs f) = f_name f.
Proof. unfold cp_func. destruct (gget gs (f_name f)) as [[ps|]|]; reflexivity. Qed.

Lemma filter_keep_all {A} (ks : list bool) (l : list A) :
  forallb (fun b => b) ks = true -> length ks = length l -> filter_keep ks l = l.
Proof.
  revert l. induction ks as [|k ks IH]; intros [|x l] H L; simpl in *; try reflexivity; try discriminate.
  apply andb_true_iff in H. destruct H as [-> H]. f_equal. apply IH; [exact H|lia].
Qed.

Section Program.
  Variable w : world.
  Variable P : program.
  Hypothesis Hwf : wf_prog P = true.
  Hypothesis Hw : closures_ok w P.

  Let gs := collect_all false P.

  Lemma names_nodup : nodupb (map f_name P) = true.
  Proof. unfold wf_prog in Hwf. apply andb_true_iff in Hwf. apply Hwf. Qed.

  Lemma wf_of fn : In fn P -> wf_cpe_func P gs fn = true.
  Proof.
    intro Hin. unfold wf_prog in Hwf. apply andb_true_iff in Hwf. destruct Hwf as [_ H].
    rewrite forallb_forall in H. apply H. exact Hin.
  Qed.

  Lemma gs_fold g :
    gget gs g = fold_left (step_g g) (all_events P) (option_map (fun f => Some (local_states false f)) (find_func P g)).
  Proof. unfold gs. rewrite collect_all_events, gget_fold, (init_gstate_find P g names_nodup). reflexivity. Qed.

  Lemma G5 g ps : gget gs g = Some (Some ps) -> exists fn, find_func P g = Some fn.
  Proof.
    rewrite gs_fold. destruct (find_func P g) as [fn|]; [intros _; exists fn; reflexivity|]. simpl.
    intro H. exfalso.
    assert (I : fold_left (step_g g) (all_events P) None = None \/ fold_left (step_g g) (all_events P) None = Some None).
    { apply (fold_step_inv g (fun v => v = None \/ v = Some None)); [|left; reflexivity].
      intros v ev [->| ->]; destruct ev as [h a|h]; simpl; destruct (N.eqb h g); auto. }
    rewrite H in I. destruct I; discriminate.
  Qed.

  Lemma G1 g fn ps : find_func P g = Some fn -> gget gs g = Some (Some ps) -> length ps = length (f_params fn).
  Proof.
    intros Hf Hg. rewrite gs_fold, Hf in Hg. simpl in Hg.
    destruct (from_init_fold g (local_states false fn) (all_events P) ps Hg) as [L _].
    rewrite L. apply local_states_length.
  Qed.

  Lemma G3 g fn ps i p :
    find_func P g = Some fn -> gget gs g = Some (Some ps) ->
    nth_error ps i = Some Unused -> nth_error (f_params fn) i = Some p ->
    ~ In p (flat_map (uses (f_name fn) (f_params fn)) (f_body fn) ++ uses_expr (f_ret fn)).
  Proof.
    intros Hf Hg Hs Hp. rewrite gs_fold, Hf in Hg. simpl in Hg.
    destruct (from_init_fold g (local_states false fn) (all_events P) ps Hg) as [_ U].
    apply (local_unused fn i p Hp). eapply U; eauto.
  Qed.

  Lemma G2 fn g args ps :
    In fn P -> In (GCall g args) (flat_map gev_stmt (f_body fn)) -> gget gs g = Some (Some ps) -> metv args ps.
  Proof.
    intros Hin Hev Hg.
    assert (Hall : In (GCall g args) (all_events P)).
    { unfold all_events. apply in_flat_map. exists fn. split; assumption. }
    apply in_split in Hall. destruct Hall as [e1 [e2 He]]. rewrite gs_fold, He in Hg.
    eapply call_site_met; eauto.
  Qed.

  Lemma G4 h : In h (program_closure_fns P) -> gget gs h = Some None.
  Proof.
    intro Hin. unfold program_closure_fns in Hin. apply in_flat_map in Hin. destruct Hin as [fn [Hfn Hh]].
    assert (Hall : In (GClo h) (all_events P)).
    { unfold all_events. apply in_flat_map. exists fn. split; [exact Hfn|].
      apply in_flat_map in Hh. destruct Hh as [s [Hs Hh]]. apply in_flat_map. exists s. split; [exact Hs|].
      apply closure_fns_gev. exact Hh. }
    apply in_split in Hall. destruct Hall as [e1 [e2 He]]. rewrite gs_fold, He. apply closure_site_none.
  Qed.

  Lemma clo_keep tr v h cx : w_clo w tr v = Some (h, cx) -> keep_of gs h = None.
  Proof.
    intro H. unfold keep_of. destruct (Hw _ _ _ _ H) as [Hin|Hnone].
    - rewrite (G4 h Hin). reflexivity.
    - destruct (gget gs h) as [[ps|]|] eqn:E; try reflexivity.
      destruct (G5 h ps E) as [fn Hfn]. rewrite Hfn in Hnone. discriminate.
  Qed.

  Let P' := const_param_elim false P.

  Lemma find_P' g : find_func P' g = option_map (cp_func gs) (find_func P g).
  Proof. unfold P', const_param_elim. apply find_func_map. apply cp_func_name. Qed.

  Lemma lrw_of_lit fn x cst : alookup x (lrw_of gs fn) = Some cst -> In x (f_params fn) /\ is_lit cst.
  Proof.
    unfold lrw_of. destruct (gget gs (f_name fn)) as [[ps|]|]; simpl; try discriminate.
    intro H. destruct (mk_lrw_in _ _ _ _ H) as [i [s [Hi [_ Hc]]]]. split; [eapply nth_error_In; eauto|eapply const_of_lit; eauto].
  Qed.

  Lemma memb_disjoint a b x : disjointb a b = true -> In x a -> ~ In x b.
  Proof.
    unfold disjointb. intros H Hx. rewrite forallb_forall in H. specialize (H x Hx).
    apply negb_true_iff in H. apply memb_false_In. exact H.
  Qed.

  (* every statement of the body of a function of P satisfies what the simulation asks, provided no parameter state is
     Referenced (a state a function that is called somewhere never keeps) *)
  Lemma body_ok fn :
    find_func P (f_name fn) = Some fn ->
    (forall ps, gget gs (f_name fn) = Some (Some ps) -> forall s, In s ps -> s <> Referenced) ->
    (forall s, In s (f_body fn) -> stmt_ok P gs (f_name fn) (f_params fn) (lrw_of gs fn) (x_of gs fn) s) /\
    expr_ok (x_of gs fn) (f_ret fn).
  Proof.
    intros Hf Hnoref. destruct (find_func_name _ _ _ Hf) as [_ Hin]. pose proof (wf_of fn Hin) as Hwfn.
    unfold wf_cpe_func in Hwfn.
    apply andb_true_iff in Hwfn. destruct Hwfn as [Hwfn Hcv].
    apply andb_true_iff in Hwfn. destruct Hwfn as [Hwfn Har].
    apply andb_true_iff in Hwfn. destruct Hwfn as [Hnd Hdis].
    assert (HXuse : forall x, In x (x_of gs fn) ->
              ~ In x (flat_map (uses (f_name fn) (f_params fn)) (f_body fn) ++ uses_expr (f_ret fn))).
    { intros x Hx. unfold x_of in Hx. destruct (gget gs (f_name fn)) as [[ps|]|] eqn:Hg; try contradiction.
      destruct (xdrop_in _ _ _ Hx) as [i [s [Hi [Hs [Hu Hc]]]]].
      assert (s = Unused).
      { pose proof (Hnoref ps eq_refl s (nth_error_In _ _ Hs)) as Hr. destruct s; try discriminate; try reflexivity. contradiction. }
      subst s. eapply G3; eauto. }
    split.
    - intros s Hs. repeat split.
      + intros g args ps Hev Hg. eapply (G2 fn); eauto. apply in_flat_map. exists s. split; assumption.
      + intros x Hx Hu. apply (HXuse x Hx). apply in_or_app. left. apply in_flat_map. exists s. split; assumption.
      + intros x Hx. apply (memb_disjoint _ _ x Hdis). apply in_app_or in Hx. apply in_or_app.
        destruct Hx as [Hx|Hx]; [left; eapply binders_l_in; eauto | right; eapply assigned_l_in; eauto].
      + intros x Hx. rewrite forallb_forall in Hcv.
        specialize (Hcv x ltac:(apply in_flat_map; exists s; split; assumption)).
        destruct (alookup x (lrw_of gs fn)); [discriminate|reflexivity].
      + rewrite forallb_forall in Har. apply Har. exact Hs.
    - apply expr_ok_of. intros x Hx Hu. apply (HXuse x Hx). apply in_or_app. right. exact Hu.
  Qed.

  Lemma self_kept fn ps i p :
    find_func P (f_name fn) = Some fn -> gget gs (f_name fn) = Some (Some ps) ->
    nth_error (f_params fn) i = Some p -> nth_error ps i = Some Unopt -> ~ In p (x_of gs fn).
  Proof.
    intros Hf Hg Hp Hs Hx. unfold x_of in Hx. rewrite Hg in Hx.
    destruct (xdrop_in _ _ _ Hx) as [j [s [Hj [Hsj [Hu _]]]]].
    destruct (find_func_name _ _ _ Hf) as [_ Hin]. pose proof (wf_of fn Hin) as Hwfn. unfold wf_cpe_func in Hwfn.
    apply andb_true_iff in Hwfn. destruct Hwfn as [Hwfn _]. apply andb_true_iff in Hwfn. destruct Hwfn as [Hwfn _].
    apply andb_true_iff in Hwfn. destruct Hwfn as [Hnd _].
    pose proof (nodup_nth_eq _ _ _ _ Hnd Hp Hj). subst j. rewrite Hs in Hsj. inversion Hsj; subst. discriminate.
  Qed.

  Lemma good_length ps vs : good w ps vs -> length ps = length vs.
  Proof. intro H. induction H; simpl; [reflexivity|f_equal; assumption]. Qed.

  Lemma good_noref ps vs s : good w ps vs -> In s ps -> s <> Referenced.
  Proof.
    intros Hg Hin. induction Hg as [|s0 v ps0 vs0 [H0 _] _ IH]; [destruct Hin|].
    destruct Hin as [<-|Hin]; [exact H0|apply IH; exact Hin].
  Qed.

  Lemma crel_step n :
    Crel w gs (call w P n) (call w P' n) -> Crel w gs (call w P (S n)) (call w P' (S n)).
  Proof.
    intros IH g vs tr Hok.
    change (call w P' (S n) g (fk gs g vs) tr) with
      (match find_func P' g with None => call_ext w g (fk gs g vs) tr
                               | Some fn => run_body w (call w P' n) (S n) fn (fk gs g vs) tr end).
    change (call w P (S n) g vs tr) with
      (match find_func P g with None => call_ext w g vs tr | Some fn => run_body w (call w P n) (S n) fn vs tr end).
    rewrite find_P'. destruct (find_func P g) as [fn|] eqn:Hf; simpl option_map.
    2:{ unfold fk, keep_of. destruct (gget gs g) as [[ps|]|] eqn:Hg; try reflexivity.
        destruct (G5 g ps Hg) as [fn Hfn]. rewrite Hfn in Hf. discriminate. }
    destruct (find_func_name _ _ _ Hf) as [Hname Hin]. subst g.
    pose proof (wf_of fn Hin) as Hwfn. unfold wf_cpe_func in Hwfn.
    apply andb_true_iff in Hwfn. destruct Hwfn as [Hwfn _]. apply andb_true_iff in Hwfn. destruct Hwfn as [Hwfn _].
    apply andb_true_iff in Hwfn. destruct Hwfn as [Hnd _].
    (* the simulation of the body, for the lr / X of this function *)
    assert (Hsim : (forall ps, gget gs (f_name fn) = Some (Some ps) -> forall s, In s ps -> s <> Referenced) ->
              forall en en', rel w (lrw_of gs fn) (x_of gs fn) en en' ->
              rrel w (lrw_of gs fn) (x_of gs fn)
                   (exec_list (exec w (call w P n) (S n)) (f_body fn) en tr)
                   (exec_list (exec w (call w P' n) (S n)) (map (cp_stmt gs (lrw_of gs fn)) (f_body fn)) en' tr) /\
              expr_ok (x_of gs fn) (f_ret fn)).
    { intros Hnoref en en' R. destruct (body_ok fn Hf Hnoref) as [Hbody Hret]. split; [|exact Hret].
      apply (proj2 (cp_sim_both w P gs (call w P n) (call w P' n) (S n) (f_name fn) (f_params fn) (lrw_of gs fn) (x_of gs fn)
                      (lrw_of_lit fn) IH G1 G5
                      (fun ps Hg i p Hp Hs => self_kept fn ps i p Hf Hg Hp Hs)
                      (fun fn0 Hf0 => ltac:(rewrite Hf in Hf0; inversion Hf0; reflexivity))
                      clo_keep
                      (fun Hk x Hx => ltac:(unfold x_of, keep_of in *; destruct (gget gs (f_name fn)) as [[ps0|]|]; [discriminate|exact Hx|exact Hx])))
                   (f_body fn) en en' tr R Hbody). }
    unfold fk, keep_of, cp_func, run_body. destruct (gget gs (f_name fn)) as [[ps|]|] eqn:Hg.
    - (* parameters are dropped *)
      pose proof (Hok ps Hg) as Hgood. pose proof (G1 _ _ _ Hf Hg) as Hlen.
      assert (Hlv : length ps = length vs) by (apply good_length; exact Hgood).
      simpl f_params. simpl f_body. simpl f_ret.
      assert (Hl1 : (length vs =? length (f_params fn))%nat = true) by (apply Nat.eqb_eq; lia).
      assert (Hl2 : (length (filter_keep (map is_unopt ps) vs) =? length (filter_keep (map is_unopt ps) (f_params fn)))%nat = true).
      { apply Nat.eqb_eq. apply filter_keep_length. lia. }
      rewrite Hl1, Hl2. simpl negb. cbv iota.
      unfold exec_block, init_env. simpl f_params. simpl f_body.
      assert (Hlr : lrw_of gs fn = mk_lrw (f_params fn) ps) by (unfold lrw_of; rewrite Hg; reflexivity).
      assert (HXe : x_of gs fn = xdrop (f_params fn) ps) by (unfold x_of; rewrite Hg; reflexivity).
      pose proof (init_rel w (f_params fn) ps vs Hnd Hlen Hgood) as R0. rewrite <- Hlr, <- HXe in R0.
      destruct (Hsim (fun ps0 Hg0 s Hs => ltac:(inversion Hg0; subst; eapply good_noref; eauto)) _ _ R0) as [Hrr Hret].
      rewrite <- Hlr. unfold cp_stmts.
      destruct (exec_list (exec w (call w P n) (S n)) (f_body fn) (combine (f_params fn) vs) tr) as [en1 tr1|v en1 tr1|o];
        destruct (exec_list (exec w (call w P' n) (S n)) (map (cp_stmt gs (lrw_of gs fn)) (f_body fn))
                            (combine (filter_keep (map is_unopt ps) (f_params fn)) (filter_keep (map is_unopt ps) vs)) tr)
          as [en1' tr1'|v' en1' tr1'|o']; simpl in Hrr; try contradiction.
      + destruct Hrr as [<- R1]. f_equal. apply (eval_cp w (f_params fn) (lrw_of gs fn) (x_of gs fn) (lrw_of_lit fn) en1 en1' _ R1 Hret).
      + reflexivity.
      + subst. reflexivity.
    - (* Unoptimizable as a whole *)
      simpl f_params. simpl f_body. simpl f_ret.
      destruct (negb (length vs =? length (f_params fn))%nat); [reflexivity|].
      unfold exec_block, init_env. simpl f_params. simpl f_body.
      assert (Hlr : lrw_of gs fn = []) by (unfold lrw_of; rewrite Hg; reflexivity).
      assert (HXe : x_of gs fn = []) by (unfold x_of; rewrite Hg; reflexivity).
      assert (R0 : rel w (lrw_of gs fn) (x_of gs fn) (combine (f_params fn) vs) (combine (f_params fn) vs)).
      { intro x. split; [reflexivity|]. rewrite Hlr. simpl. discriminate. }
      destruct (Hsim (fun ps0 Hg0 => ltac:(discriminate)) _ _ R0) as [Hrr Hret].
      rewrite Hlr in Hrr. unfold cp_stmts.
      destruct (exec_list (exec w (call w P n) (S n)) (f_body fn) (combine (f_params fn) vs) tr) as [en1 tr1|v en1 tr1|o];
        destruct (exec_list (exec w (call w P' n) (S n)) (map (cp_stmt gs []) (f_body fn)) (combine (f_params fn) vs) tr)
          as [en1' tr1'|v' en1' tr1'|o']; simpl in Hrr; try contradiction.
      + destruct Hrr as [<- R1]. f_equal. rewrite <- Hlr.
        apply (eval_cp w (f_params fn) (lrw_of gs fn) (x_of gs fn) (lrw_of_lit fn) en1 en1' _ ltac:(rewrite Hlr; exact R1) Hret).
      + reflexivity.
      + subst. reflexivity.
    - (* no entry: cannot happen for a function of the program, but the rewrite is the same as above *)
      simpl f_params. simpl f_body. simpl f_ret.
      destruct (negb (length vs =? length (f_params fn))%nat); [reflexivity|].
      unfold exec_block, init_env. simpl f_params. simpl f_body.
      assert (Hlr : lrw_of gs fn = []) by (unfold lrw_of; rewrite Hg; reflexivity).
      assert (HXe : x_of gs fn = []) by (unfold x_of; rewrite Hg; reflexivity).
      assert (R0 : rel w (lrw_of gs fn) (x_of gs fn) (combine (f_params fn) vs) (combine (f_params fn) vs)).
      { intro x. split; [reflexivity|]. rewrite Hlr. simpl. discriminate. }
      destruct (Hsim (fun ps0 Hg0 => ltac:(discriminate)) _ _ R0) as [Hrr Hret].
      rewrite Hlr in Hrr. unfold cp_stmts.
      destruct (exec_list (exec w (call w P n) (S n)) (f_body fn) (combine (f_params fn) vs) tr) as [en1 tr1|v en1 tr1|o];
        destruct (exec_list (exec w (call w P' n) (S n)) (map (cp_stmt gs []) (f_body fn)) (combine (f_params fn) vs) tr)
          as [en1' tr1'|v' en1' tr1'|o']; simpl in Hrr; try contradiction.
      + destruct Hrr as [<- R1]. f_equal. rewrite <- Hlr.
        apply (eval_cp w (f_params fn) (lrw_of gs fn) (x_of gs fn) (lrw_of_lit fn) en1 en1' _ ltac:(rewrite Hlr; exact R1) Hret).
      + reflexivity.
      + subst. reflexivity.
  Qed.

  Theorem cp_crel n : Crel w gs (call w P n) (call w P' n).
  Proof.
    induction n as [|n IH].
    - intros g vs tr _. reflexivity.
    - apply crel_step. exact IH.
  Qed.

  (* entry functions: all parameters survive *)
  Theorem constparam_call entry args n tr :
    params_kept gs entry = true -> call w P' n entry args tr = call w P n entry args tr.
  Proof.
    intro Hk. destruct n as [|n]; [reflexivity|].
    destruct (gget gs entry) as [[ps|]|] eqn:Hg.
    - unfold params_kept in Hk. rewrite Hg in Hk.
      destruct (G5 entry ps Hg) as [fn Hf]. pose proof (G1 _ _ _ Hf Hg) as Hlen.
      destruct (Nat.eq_dec (length args) (length (f_params fn))) as [Hla|Hla].
      + pose proof (cp_crel (S n) entry args tr) as H. unfold fk, keep_of in H. rewrite Hg in H.
        rewrite filter_keep_all in H.
        * apply H. intros ps0 Hg0. rewrite Hg in Hg0. inversion Hg0; subst ps0. clear - Hk Hla Hlen.
          revert args Hla Hlen. generalize (f_params fn). induction ps as [|s ps IH]; intros l [|a args] Hla Hlen; simpl in *;
            try (destruct l; discriminate); try constructor.
          -- apply andb_true_iff in Hk. destruct Hk as [Hs _]. destruct s; try discriminate. split; [discriminate|]. simpl. discriminate.
          -- apply andb_true_iff in Hk. destruct Hk as [_ Hk]. destruct l as [|x l]; [discriminate|]. apply (IH Hk l); simpl in *; lia.
        * rewrite forallb_forall. intros b Hb. apply in_map_iff in Hb. destruct Hb as [s [<- Hs]].
          rewrite forallb_forall in Hk. apply Hk. exact Hs.
        * rewrite map_length. lia.
      + (* wrong number of arguments: Stuck on both sides *)
        simpl. rewrite find_P', Hf. simpl. unfold run_body, cp_func. rewrite (proj1 (find_func_name _ _ _ Hf)), Hg. simpl f_params.
        rewrite filter_keep_all.
        * destruct (length args =? length (f_params fn))%nat eqn:E; [apply Nat.eqb_eq in E; contradiction|reflexivity].
        * rewrite forallb_forall. intros b Hb. apply in_map_iff in Hb. destruct Hb as [s [<- Hs]].
          rewrite forallb_forall in Hk. apply Hk. exact Hs.
        * rewrite map_length. exact Hlen.
    - pose proof (cp_crel (S n) entry args tr) as H. unfold fk, keep_of in H. rewrite Hg in H. apply H.
      intros ps Hg0. rewrite Hg in Hg0. discriminate.
    - pose proof (cp_crel (S n) entry args tr) as H. unfold fk, keep_of in H. rewrite Hg in H. apply H.
      intros ps Hg0. rewrite Hg in Hg0. discriminate.
  Qed.
End Program.

Theorem constparam_preserves w P entry args fuel :
  wf_prog P = true -> closures_ok w P ->
  params_kept (collect_all false P) entry = true ->
  sem w (const_param_elim false P) entry args fuel = sem w P entry args fuel.
Proof.
  intros Hwf Hw Hk. unfold sem. rewrite (constparam_call w P Hwf Hw entry args fuel [] Hk). reflexivity.
Qed.

(* the general statement: any function, called with arguments that carry the constants the analysis found (and none of
   whose parameter states is Referenced - the state of a used parameter of a function without call sites) *)
Theorem constparam_preserves_general w P g vs fuel :
  wf_prog P = true -> closures_ok w P ->
  args_ok w (collect_all false P) g vs ->
  sem w (const_param_elim false P) g (fk (collect_all false P) g vs) fuel = sem w P g vs fuel.
Proof.
  intros Hwf Hw Hok. unfold sem. rewrite (cp_crel w P Hwf Hw fuel g vs [] Hok). reflexivity.
Qed.

(* an entry point whose parameters are all unused (the `_this` of a static main): any argument values will do *)
Lemma args_ok_unused w gs g vs :
  (forall ps, gget gs g = Some (Some ps) -> length ps = length vs /\ forallb (fun s => match s with Unused | Unopt => true | _ => false end) ps = true) ->
  args_ok w gs g vs.
Proof.
  intros H ps Hg. destruct (H ps Hg) as [L Hu]. clear H Hg. revert vs L.
  induction ps as [|s ps IH]; intros [|v vs] L; simpl in *; try discriminate; constructor.
  - apply andb_true_iff in Hu. destruct Hu as [Hs _]. destruct s; try discriminate; split; try discriminate; simpl; discriminate.
  - apply andb_true_iff in Hu. destruct Hu as [_ Hu]. apply IH; [exact Hu|lia].
Qed.
