(* C01mir - constant-parameter elimination (ConstParam.v) preserves behaviour. *)
From Coq Require Import ZArith NArith List Bool Lia.
Import ListNotations.
From SV Require Import Common.Int32 C01mir.Syntax C01mir.Sem C01mir.ConstParam C01mir.ProofsSem.
Open Scope Z_scope.

(* ================================================================================================
   Part 1: what the analysis computes
   ================================================================================================ *)

(* ---------- the local analysis as a list of used names ---------- *)
Definition uses_expr (e : expr) : list name := match e with EVar x _ => [x] | _ => [] end.
Definition uses_quad (q : quad) : list name := uses_expr (q_e1 q) ++ uses_expr (q_e2 q).

Fixpoint uses_self (ps : list name) (args : list expr) : list name :=
  match ps, args with
  | p :: pr, a :: ar =>
      (match a with EVar x _ => if N.eqb x p then [] else [x] | _ => [] end) ++ uses_self pr ar
  | _, _ => []
  end.

Section Uses.
  Variable fn : N.
  Variable params : list name.

  Fixpoint uses (s : stmt) : list name :=
    match s with
    | SPrim _ _ e | SNot _ e | SBreak e | SAssign _ e | SClosure _ _ _ _ e => uses_expr e
    | SBin _ _ e1 e2 => uses_expr e1 ++ uses_expr e2
    | SCall c args _ _ =>
        match c with
        | CFn g _ _ => if N.eqb g fn then uses_self params args else flat_map uses_expr args
        | CVar x _ => x :: flat_map uses_expr args
        end
    | SIf c s1 s2 fas => uses_expr c ++ flat_map uses s1 ++ flat_map uses s2 ++ flat_map uses_quad fas
    | SSIf c _ ss => uses_expr c ++ flat_map uses ss
    | SWhile lvs ss _ => flat_map uses_quad lvs ++ flat_map uses ss
    | SDecl _ _ => []
    | SStruct _ _ es => flat_map uses_expr es
    end.

  Definition use_all (st : lstate) (l : list name) : lstate := fold_left use_var l st.

  Lemma use_all_app st a b : use_all st (a ++ b) = use_all (use_all st a) b.
  Proof. unfold use_all. apply fold_left_app. Qed.

  Lemma use_expr_all st e : use_expr st e = use_all st (uses_expr e).
  Proof. destruct e; reflexivity. Qed.

  Lemma fold_use_expr es st : fold_left use_expr es st = use_all st (flat_map uses_expr es).
  Proof.
    revert st. induction es as [|e es IH]; intro st; simpl; [reflexivity|].
    rewrite IH, use_all_app, use_expr_all. reflexivity.
  Qed.

  Lemma fold_use_quad qs st : fold_left use_quad qs st = use_all st (flat_map uses_quad qs).
  Proof.
    revert st. induction qs as [|q qs IH]; intro st; simpl; [reflexivity|].
    rewrite IH, use_all_app. unfold use_quad, uses_quad. rewrite use_all_app, !use_expr_all. reflexivity.
  Qed.

  Lemma self_args_all ps args st : self_args st ps args = use_all st (uses_self ps args).
  Proof.
    revert args st. induction ps as [|p ps IH]; intros args st; simpl; [reflexivity|].
    destruct args as [|a args]; [reflexivity|]. rewrite IH, use_all_app. f_equal.
    destruct a as [z|z|s|x t]; try reflexivity. destruct (N.eqb x p); reflexivity.
  Qed.

  Lemma cd_uses_both :
    (forall s st, cd_stmt false fn params st s = use_all st (uses s)) /\
    (forall ss st, fold_left (cd_stmt false fn params) ss st = use_all st (flat_map uses ss)).
  Proof.
    apply stmt_stmts_ind2; intros; simpl; try (rewrite ?use_expr_all; reflexivity).
    - rewrite use_all_app, !use_expr_all. reflexivity.
    - destruct c as [g atys frty|x t].
      + destruct (N.eqb g fn); [apply self_args_all | apply fold_use_expr].
      + rewrite fold_use_expr. reflexivity.
    - rewrite fold_use_quad, H0, H, !use_all_app, use_expr_all. reflexivity.
    - rewrite H, use_all_app, use_expr_all. reflexivity.
    - rewrite H, fold_use_quad, use_all_app. reflexivity.
    - apply fold_use_expr.
    - rewrite H0, H, use_all_app. reflexivity.
  Qed.
End Uses.

Lemma use_var_keys st y : map fst (use_var st y) = map fst st.
Proof.
  unfold use_var. rewrite map_map. apply map_ext. intros [z s]. simpl. destruct (N.eqb z y); reflexivity.
Qed.

Lemma lget_use_var st y x :
  lget (use_var st y) x =
  if N.eqb x y then (if memb x (map fst st) then Referenced else Unused) else lget st x.
Proof.
  induction st as [|[z s] st IH].
  - simpl. destruct (N.eqb x y); reflexivity.
  - change (map fst ((z, s) :: st)) with (z :: map fst st).
    change (memb x (z :: map fst st)) with (N.eqb x z || memb x (map fst st)).
    change (use_var ((z, s) :: st) y) with ((if N.eqb z y then (z, Referenced) else (z, s)) :: use_var st y).
    destruct (N.eqb z y) eqn:Ezy; simpl; destruct (N.eqb x z) eqn:Exz; simpl.
    + apply N.eqb_eq in Ezy. apply N.eqb_eq in Exz. subst. rewrite N.eqb_refl. reflexivity.
    + exact IH.
    + apply N.eqb_eq in Exz. subst. rewrite Ezy. reflexivity.
    + exact IH.
Qed.

Lemma lget_ref_in st x : lget st x = Referenced -> memb x (map fst st) = true.
Proof.
  induction st as [|[z s] st IH]; simpl; [discriminate|]. unfold memb. simpl.
  destruct (N.eqb x z); [reflexivity|]. exact IH.
Qed.

Lemma lget_use_all_ref l st x : lget st x = Referenced -> lget (use_all st l) x = Referenced.
Proof.
  revert st. induction l as [|y l IH]; intros st H; simpl; [exact H|]. apply IH.
  rewrite lget_use_var. destruct (N.eqb x y); [|exact H]. rewrite (lget_ref_in _ _ H). reflexivity.
Qed.

Lemma lget_use_all_unused l st x :
  lget (use_all st l) x = Unused -> memb x (map fst st) = true -> ~ In x l.
Proof.
  revert st. induction l as [|y l IH]; intros st H Hk; simpl; [tauto|].
  simpl in H. intros [->|Hin].
  - rewrite (lget_use_all_ref l (use_var st x) x) in H; [discriminate|].
    rewrite lget_use_var, N.eqb_refl, Hk. reflexivity.
  - apply (IH (use_var st y)); [exact H | rewrite use_var_keys; exact Hk | exact Hin].
Qed.

(* a parameter whose local state is Unused is not used (a self call that hands it on at its own position aside) *)
Lemma local_unused f i p :
  nth_error (f_params f) i = Some p -> nth_error (local_states false f) i = Some Unused ->
  ~ In p (flat_map (uses (f_name f) (f_params f)) (f_body f) ++ uses_expr (f_ret f)).
Proof.
  intros Hp Hs. unfold local_states in Hs. rewrite nth_error_map, Hp in Hs. simpl in Hs. inversion Hs as [H]. clear Hs.
  unfold cd_stmts in H. rewrite (proj2 (cd_uses_both (f_name f) (f_params f))) in H.
  rewrite use_expr_all, <- use_all_app in H.
  apply (lget_use_all_unused _ _ _ H).
  rewrite map_map. simpl. rewrite map_id. apply memb_In. eapply nth_error_In; eauto.
Qed.

Lemma local_states_length f : length (local_states false f) = length (f_params f).
Proof. unfold local_states. apply map_length. Qed.

(* ---------- the global analysis as a fold over call / closure events ---------- *)
Inductive gev := GCall (g : N) (args : list expr) | GClo (g : N).

Fixpoint gev_stmt (s : stmt) : list gev :=
  match s with
  | SIf _ s1 s2 _ => flat_map gev_stmt s1 ++ flat_map gev_stmt s2
  | SSIf _ _ ss | SWhile _ ss _ => flat_map gev_stmt ss
  | SClosure _ _ f _ _ => [GClo f]
  | SCall (CFn g _ _) args _ _ => [GCall g args]
  | _ => []
  end.

Definition gstep (st : gstate) (ev : gev) : gstate :=
  match ev with
  | GCall g args => match gget st g with
                    | Some (Some ps) => gset g (Some (meet_args ps args)) st
                    | _ => st
                    end
  | GClo g => gset g None st
  end.

Lemma cg_gev_both :
  (forall s st, cg_stmt st s = fold_left gstep (gev_stmt s) st) /\
  (forall ss st, fold_left cg_stmt ss st = fold_left gstep (flat_map gev_stmt ss) st).
Proof.
  apply stmt_stmts_ind2; intros; simpl; try reflexivity.
  - destruct c as [g atys frty|x t]; reflexivity.
  - rewrite fold_left_app, H0, H. reflexivity.
  - apply H.
  - apply H.
  - rewrite fold_left_app, H0, H. reflexivity.
Qed.

(* the entry of one function name along the events *)
Definition gval := option (option (list pstate)).
Definition step_g (g : N) (v : gval) (ev : gev) : gval :=
  match ev with
  | GCall h args => if N.eqb h g then match v with Some (Some ps) => Some (Some (meet_args ps args)) | _ => v end else v
  | GClo h => if N.eqb h g then Some None else v
  end.

Lemma gget_gset g h v st : gget (gset h v st) g = if N.eqb g h then Some v else gget st g.
Proof. reflexivity. Qed.

Lemma gget_gstep g st ev : gget (gstep st ev) g = step_g g (gget st g) ev.
Proof.
  destruct ev as [h args|h]; simpl.
  - destruct (gget st h) as [[ps|]|] eqn:Eh.
    + rewrite gget_gset. rewrite N.eqb_sym. destruct (N.eqb h g) eqn:E.
      * apply N.eqb_eq in E. subst. rewrite Eh. reflexivity.
      * reflexivity.
    + destruct (N.eqb h g) eqn:E; [|reflexivity]. apply N.eqb_eq in E. subst. rewrite Eh. reflexivity.
    + destruct (N.eqb h g) eqn:E; [|reflexivity]. apply N.eqb_eq in E. subst. rewrite Eh. reflexivity.
  - rewrite (N.eqb_sym g h). destruct (N.eqb h g); reflexivity.
Qed.

Lemma gget_fold g evs st : gget (fold_left gstep evs st) g = fold_left (step_g g) evs (gget st g).
Proof.
  revert st. induction evs as [|ev evs IH]; intro st; simpl; [reflexivity|]. rewrite IH, gget_gstep. reflexivity.
Qed.

Definition all_events (P : program) : list gev := flat_map (fun f => flat_map gev_stmt (f_body f)) P.
Definition init_gstate (P : program) : gstate :=
  fold_left (fun st f => gset (f_name f) (Some (local_states false f)) st) P [].

Lemma collect_all_events P : collect_all false P = fold_left gstep (all_events P) (init_gstate P).
Proof.
  unfold collect_all, all_events. fold (init_gstate P). generalize (init_gstate P).
  induction P as [|f P IH]; intro st; simpl; [reflexivity|].
  rewrite fold_left_app, IH. unfold cg_stmts. rewrite (proj2 cg_gev_both). reflexivity.
Qed.

(* properties of a value that survive all later events *)
Lemma fold_step_inv g (I : gval -> Prop) evs v :
  (forall v ev, I v -> I (step_g g v ev)) -> I v -> I (fold_left (step_g g) evs v).
Proof.
  intros Hstep. revert v. induction evs as [|ev evs IH]; intros v Hv; simpl; [exact Hv|].
  apply IH. apply Hstep. exact Hv.
Qed.

(* states a position can be in after it has met the classification of argument a *)
Definition met (a : expr) (s : pstate) : Prop := s = Unused \/ s = Unopt \/ s = classify a.

Lemma met_meet_self a s : met a (meet s (classify a)).
Proof.
  unfold met. destruct s, a; simpl; auto;
    match goal with |- context [if ?b then _ else _] => destruct b eqn:E end; auto;
    try (apply Z.eqb_eq in E; subst; auto); try (apply N.eqb_eq in E; subst; auto).
Qed.

Lemma met_meet_other a b s : met a s -> met a (meet s (classify b)).
Proof.
  unfold met. intros [H|[H|H]]; subst s.
  - left. destruct b; reflexivity.
  - right. left. destruct b; reflexivity.
  - destruct a, b; simpl; auto;
      match goal with |- context [if ?c then _ else _] => destruct c end; auto.
Qed.

Definition metv (args : list expr) (ps : list pstate) : Prop :=
  forall i a s, nth_error args i = Some a -> nth_error ps i = Some s -> met a s.

Lemma nth_error_meet_args ps args i s :
  nth_error (meet_args ps args) i = Some s ->
  exists s0, nth_error ps i = Some s0 /\
             (s = s0 /\ nth_error args i = None \/ exists a, nth_error args i = Some a /\ s = meet s0 (classify a)).
Proof.
  revert args i. induction ps as [|p ps IH]; intros args i H.
  - destruct args; destruct i; discriminate.
  - destruct args as [|a args].
    + simpl in H. exists s. split; [exact H|]. left. split; [reflexivity|]. destruct i; reflexivity.
    + destruct i as [|i]; simpl in H.
      * inversion H; subst. exists p. split; [reflexivity|]. right. exists a. split; reflexivity.
      * destruct (IH args i H) as [s0 [H1 H2]]. exists s0. split; [exact H1|exact H2].
Qed.

Lemma metv_self ps args : metv args (meet_args ps args).
Proof.
  intros i a s Ha Hs. destruct (nth_error_meet_args _ _ _ _ Hs) as [s0 [_ [[_ Hn]|[a' [Ha' ->]]]]].
  - rewrite Hn in Ha. discriminate.
  - rewrite Ha in Ha'. inversion Ha'; subst. apply met_meet_self.
Qed.

Lemma metv_other args ps args2 : metv args ps -> metv args (meet_args ps args2).
Proof.
  intros H i a s Ha Hs. destruct (nth_error_meet_args _ _ _ _ Hs) as [s0 [H0 [[-> _]|[b [_ ->]]]]].
  - eapply H; eauto.
  - apply met_meet_other. eapply H; eauto.
Qed.

Lemma meet_args_length ps args : length (meet_args ps args) = length ps.
Proof.
  revert args. induction ps as [|p ps IH]; intros [|a args]; simpl; try reflexivity. rewrite IH. reflexivity.
Qed.

(* G2: every call site's arguments are reflected in the final states of the callee *)
Lemma call_site_met g args evs1 evs2 v ps :
  fold_left (step_g g) (evs1 ++ GCall g args :: evs2) v = Some (Some ps) -> metv args ps.
Proof.
  rewrite fold_left_app. simpl. rewrite N.eqb_refl.
  set (v1 := fold_left (step_g g) evs1 v).
  assert (H : forall v2, (forall ps2, v2 = Some (Some ps2) -> metv args ps2) ->
                         forall ps2, fold_left (step_g g) evs2 v2 = Some (Some ps2) -> metv args ps2).
  { intros v2 H2. apply (fold_step_inv g (fun v => forall ps2, v = Some (Some ps2) -> metv args ps2)); [|exact H2].
    intros v0 ev I0 ps2 E. destruct ev as [h a2|h]; simpl in E.
    - destruct (N.eqb h g); [|apply I0; exact E]. destruct v0 as [[ps0|]|]; try discriminate.
      inversion E; subst. apply metv_other. apply I0. reflexivity.
    - destruct (N.eqb h g); [discriminate|apply I0; exact E]. }
  intro E. eapply H; [|exact E]. intros ps2 E2. destruct v1 as [[ps1|]|]; try discriminate.
  inversion E2; subst. apply metv_self.
Qed.

(* G4: a function named by a ClosureInit ends Unoptimizable *)
Lemma closure_site_none g evs1 evs2 v : fold_left (step_g g) (evs1 ++ GClo g :: evs2) v = Some None.
Proof.
  rewrite fold_left_app. simpl. rewrite N.eqb_refl.
  apply (fold_step_inv g (fun v => v = Some None)); [|reflexivity].
  intros v0 ev ->. destruct ev as [h a2|h]; simpl; destruct (N.eqb h g); reflexivity.
Qed.

(* G3 / G1: the final states come from the initial ones position by position *)
Definition from_init (ps0 : list pstate) (v : gval) : Prop :=
  forall ps, v = Some (Some ps) ->
    length ps = length ps0 /\
    forall i s, nth_error ps i = Some s -> s = Unused -> nth_error ps0 i = Some Unused.

Lemma meet_unused s a : meet s (classify a) = Unused -> s = Unused.
Proof. destruct s, a; simpl; try discriminate; try reflexivity;
  match goal with |- context [if ?c then _ else _] => destruct c end; discriminate. Qed.

Lemma from_init_fold g ps0 evs : from_init ps0 (fold_left (step_g g) evs (Some (Some ps0))).
Proof.
  apply (fold_step_inv g (from_init ps0)).
  - intros v ev I0 ps E. destruct ev as [h a2|h]; simpl in E.
    + destruct (N.eqb h g); [|apply I0; exact E]. destruct v as [[ps1|]|]; try discriminate.
      inversion E; subst. destruct (I0 ps1 eq_refl) as [L U]. split; [rewrite meet_args_length; exact L|].
      intros i s Hs Hu. destruct (nth_error_meet_args _ _ _ _ Hs) as [s0 [H0 [[-> _]|[b [_ ->]]]]].
      * eapply U; eauto.
      * eapply U; eauto. eapply meet_unused; eauto.
    + destruct (N.eqb h g); [discriminate|apply I0; exact E].
  - intros ps E. inversion E; subst. split; [reflexivity|]. intros i s Hs ->. exact Hs.
Qed.

Lemma init_gstate_find P g :
  nodupb (map f_name P) = true ->
  gget (init_gstate P) g = option_map (fun f => Some (local_states false f)) (find_func P g).
Proof.
  unfold init_gstate.
  assert (H : forall st, nodupb (map f_name P) = true ->
            gget (fold_left (fun st f => gset (f_name f) (Some (local_states false f)) st) P st) g =
            match find_func P g with Some f => Some (Some (local_states false f)) | None => gget st g end).
  { induction P as [|f P IH]; intros st Hn; simpl; [reflexivity|].
    simpl in Hn. apply andb_true_iff in Hn. destruct Hn as [Hf Hn]. rewrite IH by exact Hn.
    destruct (N.eqb (f_name f) g) eqn:E.
    - apply N.eqb_eq in E. subst g.
      destruct (find_func P (f_name f)) as [f2|] eqn:Ef.
      + exfalso. apply negb_true_iff in Hf. apply memb_false_In in Hf. apply Hf.
        clear - Ef. induction P as [|h P IH]; simpl in Ef; [discriminate|].
        destruct (N.eqb (f_name h) (f_name f)) eqn:E; [left; apply N.eqb_eq; exact E | right; apply IH; exact Ef].
      + rewrite gget_gset, N.eqb_refl. reflexivity.
    - destruct (find_func P g); [reflexivity|]. rewrite gget_gset, N.eqb_sym, E. reflexivity. }
  intro Hn. rewrite (H [] Hn). destruct (find_func P g); reflexivity.
Qed.

(* ================================================================================================
   Part 2: the rewritten program simulates the original one
   ================================================================================================ *)
Definition is_lit (e : expr) : Prop := match e with EVar _ _ => False | _ => True end.

Lemma eval_lit_env w en en' e : is_lit e -> eval w en e = eval w en' e.
Proof. destruct e; simpl; tauto || reflexivity. Qed.

Lemma const_of_lit s cst : const_of s = Some cst -> is_lit cst.
Proof. destruct s; simpl; intro H; inversion H; exact I. Qed.

Lemma const_of_classify a cst : const_of (classify a) = Some cst -> a = cst.
Proof. destruct a; simpl; intro H; inversion H; reflexivity. Qed.

Lemma filter_keep_length {A B} ks (a : list A) (b : list B) :
  length a = length b -> length (filter_keep ks a) = length (filter_keep ks b).
Proof.
  revert a b. induction ks as [|k ks IH]; intros [|x a] [|y b] H; simpl in *; try reflexivity; try discriminate.
  destruct k; simpl; [f_equal|]; apply IH; lia.
Qed.

Lemma filter_keep_map {A B} (f : A -> B) ks l : filter_keep ks (map f l) = map f (filter_keep ks l).
Proof.
  revert l. induction ks as [|k ks IH]; intros [|x l]; simpl; try reflexivity.
  destruct k; simpl; rewrite IH; reflexivity.
Qed.

Section CpSim.
  Variable w : world.
  Variable P : program.
  Variable gs : gstate.
  Variables c c' : callf_t.
  Variable lf : nat.

  (* data of the function whose body is simulated *)
  Variable fname : N.
  Variable params : list name.
  Variable lr : lrw.            (* parameters replaced by a constant *)
  Variable X : list name.       (* parameters dropped without replacement *)

  Hypothesis HX : forall x, In x X -> In x params.
  Hypothesis Hlr : forall x cst, alookup x lr = Some cst -> In x params /\ is_lit cst.

  Definition rel (en en' : env) : Prop :=
    forall x, (~ In x X -> alookup x lr = None -> wrap32 (lookup x en) = wrap32 (lookup x en')) /\
              (forall cst, alookup x lr = Some cst -> wrap32 (lookup x en) = eval w [] cst).

  Definition expr_ok (e : expr) : Prop := match e with EVar x _ => ~ In x X | _ => True end.

  Lemma eval_cp en en' e : rel en en' -> expr_ok e -> eval w en' (cp_expr lr e) = eval w en e.
  Proof.
    intros R Ho. destruct e as [z|z|s|x t]; try reflexivity. simpl in *.
    destruct (alookup x lr) as [cst|] eqn:E.
    - rewrite (eval_lit_env w en' [] cst (proj2 (Hlr _ _ E))). symmetry. unfold eval at 1. apply (proj2 (R x)). exact E.
    - unfold eval. symmetry. apply (proj1 (R x)); assumption.
  Qed.

  Lemma expr_ok_of e : (forall x, In x X -> ~ In x (uses_expr e)) -> expr_ok e.
  Proof. destruct e as [z|z|s|x t]; simpl; try tauto. intros H Hx. apply (H x Hx). left. reflexivity. Qed.

  Lemma map_eval_cp en en' es :
    rel en en' -> (forall x, In x X -> ~ In x (flat_map uses_expr es)) ->
    map (eval w en') (map (cp_expr lr) es) = map (eval w en) es.
  Proof.
    intros R H. induction es as [|e es IH]; [reflexivity|]. simpl. f_equal.
    - apply eval_cp; [exact R|]. apply expr_ok_of. intros x Hx Hin. apply (H x Hx). simpl. apply in_or_app. left. exact Hin.
    - apply IH. intros x Hx Hin. apply (H x Hx). simpl. apply in_or_app. right. exact Hin.
  Qed.

  Lemma rel_bind en en' x v : rel en en' -> ~ In x params -> rel ((x, v) :: en) ((x, v) :: en').
  Proof.
    intros R Hx y. split.
    - intros Hy Hl. simpl. destruct (N.eqb y x); [reflexivity|]. apply (proj1 (R y)); assumption.
    - intros cst Hc. simpl. destruct (N.eqb y x) eqn:E.
      + apply N.eqb_eq in E. subst. exfalso. apply Hx. apply (Hlr _ _ Hc).
      + apply (proj2 (R y)). exact Hc.
  Qed.

  Lemma rel_bind_opt en en' o v : rel en en' -> (forall x, In x (opt_names o) -> ~ In x params) ->
    rel (bind_opt o v en) (bind_opt o v en').
  Proof. intros R H. destruct o as [x|]; [|exact R]. apply rel_bind; [exact R|]. apply H. left. reflexivity. Qed.

  Lemma rel_bind_qs en en' (g : quad -> expr) qs :
    rel en en' -> (forall q, In q qs -> ~ In (q_name q) params) ->
    (forall q, In q qs -> eval w en' (cp_expr lr (g q)) = eval w en (g q)) ->
    forall en0 en0', rel en0 en0' ->
    rel (combine (map q_name qs) (map (fun q => eval w en (g q)) qs) ++ en0)
        (combine (map q_name qs) (map (fun q => eval w en' (cp_expr lr (g q))) qs) ++ en0').
  Proof.
    intros R Hn He en0 en0' R0. induction qs as [|q qs IH]; simpl; [exact R0|].
    rewrite (He q) by (left; reflexivity). apply rel_bind.
    - apply IH; intros q0 Hq0; [apply Hn | apply He]; right; exact Hq0.
    - apply Hn. left. reflexivity.
  Qed.

  (* callees *)
  Definition good (ps : list pstate) (vs : list Z) : Prop :=
    Forall2 (fun s v => s <> Referenced /\ forall cst, const_of s = Some cst -> v = eval w [] cst) ps vs.
  Definition args_ok (g : N) (vs : list Z) : Prop := forall ps, gget gs g = Some (Some ps) -> good ps vs.
  Definition fk (g : N) (vs : list Z) : list Z :=
    match keep_of gs g with Some ks => filter_keep ks vs | None => vs end.
  Definition Crel : Prop := forall g vs tr, args_ok g vs -> c' g (fk g vs) tr = c g vs tr.
  Hypothesis HC : Crel.

  (* facts about the analysis result that the simulation of a body uses *)
  Hypothesis HG1 : forall g fn ps, find_func P g = Some fn -> gget gs g = Some (Some ps) -> length ps = length (f_params fn).
  Hypothesis HG5 : forall g ps, gget gs g = Some (Some ps) -> exists fn, find_func P g = Some fn.
  Hypothesis Hself : forall ps, gget gs fname = Some (Some ps) ->
      forall i p, nth_error params i = Some p -> nth_error ps i = Some Unopt -> ~ In p X.
  Hypothesis Hselfp : forall fn, find_func P fname = Some fn -> f_params fn = params.
  Hypothesis Hclo : forall tr v h cx, w_clo w tr v = Some (h, cx) -> keep_of gs h = None.

  (* what is asked of a statement *)
  Definition sites_ok (s : stmt) : Prop :=
    forall g args ps, In (GCall g args) (gev_stmt s) -> gget gs g = Some (Some ps) -> metv args ps.
  Definition nouse (s : stmt) : Prop := forall x, In x X -> ~ In x (uses fname params s).
  Definition binds_ok (s : stmt) : Prop := forall x, In x (binders s ++ assigned s) -> ~ In x params.
  Definition cvars_ok (s : stmt) : Prop := forall x, In x (callee_vars s) -> alookup x lr = None.
  Definition stmt_ok (s : stmt) : Prop :=
    sites_ok s /\ nouse s /\ binds_ok s /\ cvars_ok s /\ calls_arity P s = true.

  Definition rrel (R R' : res) : Prop :=
    match R, R' with
    | RNext en tr, RNext en' tr' => tr = tr' /\ rel en en'
    | RBreak v en tr, RBreak v' en' tr' => v = v' /\ tr = tr' /\ rel en en'
    | RFail o, RFail o' => o = o'
    | _, _ => False
    end.

  Lemma good_of_metv ps args en :
    metv args ps -> length ps = length args -> good ps (map (eval w en) args).
  Proof.
    revert args. induction ps as [|s ps IH]; intros [|a args] Hm Hl; simpl in *; try discriminate; constructor.
    - pose proof (Hm 0%nat a s eq_refl eq_refl) as M. split.
      + destruct M as [M | [M | M]]; subst s; try discriminate. destruct a; discriminate.
      + intros cst Hc. destruct M as [M | [M | M]]; subst s; try discriminate.
        pose proof (const_of_lit _ _ Hc) as Hlit. apply const_of_classify in Hc. subst. apply eval_lit_env. exact Hlit.
    - apply IH; [|lia]. intros i a0 s0 Ha Hs. apply (Hm (S i) a0 s0); assumption.
  Qed.
End CpSim.
