(* C01mir - general facts about the semantics of Sem.v:
   * exec_mono / call_mono: more fuel (deeper calls, more loop iterations) never changes an outcome other than OutOfFuel;
   * exec_sim: a well-scoped statement run in two environments that agree on the names in scope, with callees
     answered by a refinement, gives related results (same trace, same values, environments agreeing on the new scope). *)
From Coq Require Import ZArith NArith List Bool Lia.
Import ListNotations.
From SV Require Import Common.Int32 C01mir.Syntax C01mir.Sem.
Open Scope Z_scope.

(* ---------- small facts ---------- *)
Lemma memb_app x a b : memb x (a ++ b) = memb x a || memb x b.
Proof. unfold memb. apply existsb_app. Qed.

Lemma memb_In x l : memb x l = true <-> In x l.
Proof.
  unfold memb. rewrite existsb_exists. split.
  - intros [y [Hy He]]. apply N.eqb_eq in He. subst. exact Hy.
  - intro H. exists x. split; [exact H | apply N.eqb_refl].
Qed.

Lemma memb_false_In x l : memb x l = false <-> ~ In x l.
Proof.
  rewrite <- memb_In. destruct (memb x l); split; intro H; try reflexivity; try discriminate.
  exfalso. apply H. reflexivity.
Qed.

Lemma wrap32_idem z : wrap32 (wrap32 z) = wrap32 z.
Proof. apply wrap32_id. apply wrap32_in. Qed.

Lemma eval_wrapped w en e : wrap32 (eval w en e) = eval w en e.
Proof. unfold eval. apply wrap32_idem. Qed.

Lemma lookup_app_l x (a b : env) : memb x (map fst a) = true -> lookup x (a ++ b) = lookup x a.
Proof.
  induction a as [|[y v] a IH]; simpl; intro H; [discriminate|].
  destruct (N.eqb x y); [reflexivity|]. apply IH. exact H.
Qed.

Lemma lookup_app_r x (a b : env) : memb x (map fst a) = false -> lookup x (a ++ b) = lookup x b.
Proof.
  induction a as [|[y v] a IH]; simpl; intro H; [reflexivity|].
  destruct (N.eqb x y); [discriminate|]. apply IH. exact H.
Qed.

Lemma map_fst_combine {A B} (l : list A) (m : list B) : length l = length m -> map fst (combine l m) = l.
Proof.
  revert m. induction l as [|x l IH]; intros [|y m] H; simpl in *; try reflexivity; try discriminate.
  f_equal. apply IH. lia.
Qed.

(* ---------- refinement of callee answers ---------- *)
Definition crefines (c c' : callf_t) : Prop :=
  forall f vs tr, c f vs tr <> CFail FOof -> c' f vs tr = c f vs tr.

Lemma crefines_refl c : crefines c c.
Proof. intros f vs tr _. reflexivity. Qed.

(* ---------- monotonicity ---------- *)
Section Mono.
  Variable w : world.
  Variables c c' : callf_t.
  Variables lf lf' : nat.
  Hypothesis Hc : crefines c c'.
  Hypothesis Hlf : (lf <= lf')%nat.

  Lemma loop_mono (b b' : env -> trace -> res) next :
    (forall en tr, b en tr <> RFail FOof -> b' en tr = b en tr) ->
    forall n n' en tr, (n <= n')%nat ->
      loop b next n en tr <> RFail FOof -> loop b' next n' en tr = loop b next n en tr.
  Proof.
    intros Hb n. induction n as [|n IH]; intros n' en tr Hn H; simpl in *.
    - congruence.
    - destruct n' as [|n']; [lia|]. simpl.
      assert (Hb1 : b en tr <> RFail FOof).
      { intro E. rewrite E in H. congruence. }
      rewrite (Hb _ _ Hb1). destruct (b en tr) as [en1 tr1| |]; try reflexivity.
      apply IH; [lia | exact H].
  Qed.

  Lemma exec_mono_both :
    (forall s en tr, exec w c lf s en tr <> RFail FOof -> exec w c' lf' s en tr = exec w c lf s en tr) /\
    (forall ss en tr, exec_list (exec w c lf) ss en tr <> RFail FOof ->
                      exec_list (exec w c' lf') ss en tr = exec_list (exec w c lf) ss en tr).
  Proof.
    apply stmt_stmts_ind2.
    - (* SBin *) intros; reflexivity.
    - intros; reflexivity.
    - intros; reflexivity.
    - (* SCall *) intros cl args rty ret en tr H. simpl in *. destruct cl as [f atys frty | x t].
      + assert (Hn : c f (map (eval w en) args) tr <> CFail FOof).
        { intro E. rewrite E in H. congruence. }
        rewrite (Hc _ _ _ Hn). reflexivity.
      + destruct (w_clo w tr (wrap32 (lookup x en))) as [[f cx]|]; [|reflexivity].
        assert (Hn : c f (cx :: map (eval w en) args) tr <> CFail FOof).
        { intro E. rewrite E in H. congruence. }
        rewrite (Hc _ _ _ Hn). reflexivity.
    - (* SIf *) intros cnd s1 s2 fas IH1 IH2 en tr H. simpl in *.
      destruct (cond (eval w en cnd)) as [[|]|]; [| |reflexivity].
      + rewrite IH1; [reflexivity|]. intro E. rewrite E in H. congruence.
      + rewrite IH2; [reflexivity|]. intro E. rewrite E in H. congruence.
    - (* SSIf *) intros cnd inv ss IH en tr H. simpl in *.
      destruct (cond (eval w en cnd)) as [b|]; [|reflexivity].
      destruct (xorb b inv); [|reflexivity]. apply IH. exact H.
    - intros; reflexivity.
    - (* SWhile *) intros lvs ss bc IH en tr H. simpl in *.
      rewrite (loop_mono (exec_list (exec w c lf) ss) (exec_list (exec w c' lf') ss) (bind_e2 w lvs) IH lf lf'); [reflexivity|exact Hlf|].
      intro E. rewrite E in H. congruence.
    - intros; reflexivity.
    - intros; reflexivity.
    - intros; reflexivity.
    - intros; reflexivity.
    - intros; reflexivity.
    - (* cons *) intros s r IHs IHr en tr H. simpl in *.
      assert (Hs : exec w c lf s en tr <> RFail FOof).
      { intro E. rewrite E in H. congruence. }
      rewrite (IHs _ _ Hs). destruct (exec w c lf s en tr); try reflexivity. apply IHr. exact H.
  Qed.

  Lemma exec_list_mono ss en tr :
    exec_list (exec w c lf) ss en tr <> RFail FOof ->
    exec_list (exec w c' lf') ss en tr = exec_list (exec w c lf) ss en tr.
  Proof. apply exec_mono_both. Qed.

  Lemma run_body_mono fn vs tr :
    run_body w c lf fn vs tr <> CFail FOof -> run_body w c' lf' fn vs tr = run_body w c lf fn vs tr.
  Proof.
    unfold run_body, exec_block. destruct (negb (length vs =? length (f_params fn))%nat); [reflexivity|].
    intro H. rewrite exec_list_mono; [reflexivity|]. intro E. rewrite E in H. congruence.
  Qed.
End Mono.

Lemma call_mono_S w P n : crefines (call w P n) (call w P (S n)).
Proof.
  induction n as [|n IH]; intros f vs tr H.
  - simpl in H. congruence.
  - change (call w P (S (S n)) f vs tr) with
      (match find_func P f with None => call_ext w f vs tr | Some fn => run_body w (call w P (S n)) (S (S n)) fn vs tr end).
    change (call w P (S n) f vs tr) with
      (match find_func P f with None => call_ext w f vs tr | Some fn => run_body w (call w P n) (S n) fn vs tr end) in *.
    destruct (find_func P f) as [fn|]; [|reflexivity].
    apply run_body_mono; [exact IH | lia | exact H].
Qed.

Lemma call_mono w P n m : (n <= m)%nat -> crefines (call w P n) (call w P m).
Proof.
  intro H. induction H as [|m H IH].
  - apply crefines_refl.
  - intros f vs tr Hn. rewrite (call_mono_S w P m f vs tr).
    + apply IH. exact Hn.
    + rewrite (IH f vs tr Hn). exact Hn.
Qed.

Lemma outcome_oof r : outcome_of r <> OutOfFuel -> r <> CFail FOof.
Proof. intros H E. subst. apply H. reflexivity. Qed.

Theorem sem_mono w P n m f args :
  (n <= m)%nat -> sem w P f args n <> OutOfFuel -> sem w P f args m = sem w P f args n.
Proof.
  intros Hnm H. unfold sem in *. rewrite (call_mono w P n m Hnm f args [] (outcome_oof _ H)). reflexivity.
Qed.

(* ---------- simulation between environments that agree on the scope ---------- *)
(* variables are only read through wrap32 (eval, the closure lookup), so agreement is up to wrap32 *)
Definition agree (S : list name) (en en' : env) : Prop :=
  forall x, memb x S = true -> wrap32 (lookup x en) = wrap32 (lookup x en').

Lemma agree_refl S en : agree S en en.
Proof. intros x _. reflexivity. Qed.

Lemma agree_weaken S S' en en' : (forall x, memb x S' = true -> memb x S = true) -> agree S en en' -> agree S' en en'.
Proof. intros H A x Hx. apply A. apply H. exact Hx. Qed.

Lemma agree_app_r A S en en' : agree (A ++ S) en en' -> agree S en en'.
Proof. apply agree_weaken. intros x H. rewrite memb_app, H. apply orb_true_r. Qed.

Lemma agree_cons S x v en en' : agree S en en' -> agree (x :: S) ((x, v) :: en) ((x, v) :: en').
Proof.
  intros A y Hy. simpl. destruct (N.eqb y x) eqn:E; [reflexivity|].
  apply A. unfold memb in *. simpl in Hy. rewrite E in Hy. exact Hy.
Qed.

Lemma agree_bind_same S x v en en' : agree S en en' -> agree S ((x, v) :: en) ((x, v) :: en').
Proof. intros A y Hy. simpl. destruct (N.eqb y x); [reflexivity|]. apply A. exact Hy. Qed.

Lemma eval_agree w S en en' e : in_scope S e = true -> agree S en en' -> eval w en e = eval w en' e.
Proof.
  intros H A. destruct e as [z|z|s|x t]; try reflexivity. unfold eval. apply A. exact H.
Qed.

Lemma map_eval_agree w S en en' es :
  forallb (in_scope S) es = true -> agree S en en' -> map (eval w en) es = map (eval w en') es.
Proof.
  intros H A. induction es as [|e es IH]; [reflexivity|]. simpl in *.
  apply andb_true_iff in H. destruct H as [H1 H2]. f_equal; [eapply eval_agree; eauto | apply IH; exact H2].
Qed.

Lemma agree_bind_qs S qs (g g' : quad -> Z) en en' :
  (forall q, In q qs -> g q = g' q) -> agree S en en' ->
  agree (map q_name qs ++ S) (combine (map q_name qs) (map g qs) ++ en) (combine (map q_name qs) (map g' qs) ++ en').
Proof.
  intros Hg A. induction qs as [|q qs IH]; simpl.
  - exact A.
  - intros y Hy. simpl. destruct (N.eqb y (q_name q)) eqn:E.
    + f_equal. apply Hg. left. reflexivity.
    + apply IH.
      * intros q0 Hq0. apply Hg. right. exact Hq0.
      * unfold memb in *. simpl in Hy. rewrite E in Hy. exact Hy.
Qed.

(* results related: same kind, same trace, same value; environments agree on Sn (normal end) / Sb (break) *)
Definition rsim (Sn Sb : list name) (R R' : res) : Prop :=
  match R, R' with
  | RNext en tr, RNext en' tr' => tr = tr' /\ agree Sn en en'
  | RBreak v en tr, RBreak v' en' tr' => v = v' /\ tr = tr' /\ agree Sb en en'
  | RFail o, RFail o' => o = o'
  | _, _ => False
  end.

Section Sim.
  Variable w : world.
  Variables c c' : callf_t.
  Variables lf lf' : nat.
  Hypothesis Hc : crefines c c'.
  Hypothesis Hlf : (lf <= lf')%nat.

  Lemma loop_sim (b b' : env -> trace -> res) (next : env -> env) (Sl Sd : list name) :
    (forall en en' tr, agree Sl en en' -> b en tr <> RFail FOof -> rsim (Sd ++ Sl) Sl (b en tr) (b' en' tr)) ->
    (forall en en', agree (Sd ++ Sl) en en' -> agree Sl (next en) (next en')) ->
    forall n n' en en' tr, (n <= n')%nat -> agree Sl en en' ->
      loop b next n en tr <> RFail FOof -> rsim Sl Sl (loop b next n en tr) (loop b' next n' en' tr).
  Proof.
    intros Hb Hnext n. induction n as [|n IH]; intros n' en en' tr Hn A H; simpl in *.
    - congruence.
    - destruct n' as [|n']; [lia|]. simpl.
      assert (Hb1 : b en tr <> RFail FOof).
      { intro E. rewrite E in H. congruence. }
      specialize (Hb en en' tr A Hb1).
      destruct (b en tr) as [en1 tr1|v en1 tr1|o]; destruct (b' en' tr) as [en1' tr1'|v' en1' tr1'|o']; simpl in Hb; try contradiction.
      + destruct Hb as [-> A1]. apply IH; [lia | apply Hnext; exact A1 | exact H].
      + simpl. exact Hb.
      + simpl. exact Hb.
  Qed.

  Lemma rsim_weaken Sn Sb Sn' Sb' R R' :
    (forall x, memb x Sn' = true -> memb x Sn = true) ->
    (forall x, memb x Sb' = true -> memb x Sb = true) ->
    rsim Sn Sb R R' -> rsim Sn' Sb' R R'.
  Proof.
    intros Hn Hb. destruct R, R'; simpl; try tauto.
    - intros [-> A]. split; [reflexivity | eapply agree_weaken; eauto].
    - intros [-> [-> A]]. repeat split. eapply agree_weaken; eauto.
  Qed.

  Lemma exec_sim_both :
    (forall s S en en' tr, scoped S s = true -> agree S en en' -> exec w c lf s en tr <> RFail FOof ->
        rsim (defs s ++ S) S (exec w c lf s en tr) (exec w c' lf' s en' tr)) /\
    (forall ss S en en' tr, scoped_l S ss = true -> agree S en en' -> exec_list (exec w c lf) ss en tr <> RFail FOof ->
        rsim (defs_l ss ++ S) S (exec_list (exec w c lf) ss en tr) (exec_list (exec w c' lf') ss en' tr)).
  Proof.
    apply stmt_stmts_ind2.
    - (* SBin *) intros x op e1 e2 S en en' tr Hs A _. simpl in *.
      apply andb_true_iff in Hs. destruct Hs as [_ Hs]. apply andb_true_iff in Hs. destruct Hs as [H1 H2].
      rewrite <- (eval_agree w S en en' e1 H1 A), <- (eval_agree w S en en' e2 H2 A).
      destruct (rt_binop op (eval w en e1) (eval w en e2)); simpl; [|reflexivity].
      split; [reflexivity | apply agree_cons; exact A].
    - (* SNot *) intros x e S en en' tr Hs A _. simpl in *.
      apply andb_true_iff in Hs. destruct Hs as [_ H1].
      rewrite <- (eval_agree w S en en' e H1 A). split; [reflexivity | apply agree_cons; exact A].
    - (* SPrim *) intros x p e S en en' tr Hs A _. simpl in *.
      apply andb_true_iff in Hs. destruct Hs as [_ H1].
      rewrite <- (eval_agree w S en en' e H1 A). split; [reflexivity | apply agree_cons; exact A].
    - (* SCall *) intros cl args rty ret S en en' tr Hs A H. simpl in *.
      apply andb_true_iff in Hs. destruct Hs as [_ Hs]. apply andb_true_iff in Hs. destruct Hs as [H1 H2].
      rewrite <- (map_eval_agree w S en en' args H2 A).
      assert (Hret : forall v tr1, rsim (opt_names ret ++ S) S (RNext (bind_opt ret v en) tr1) (RNext (bind_opt ret v en') tr1)).
      { intros v tr1. destruct ret as [r|]; simpl; (split; [reflexivity|]); [apply agree_cons; exact A | exact A]. }
      destruct cl as [f atys frty | x t].
      + assert (Hn : c f (map (eval w en) args) tr <> CFail FOof).
        { intro E. rewrite E in H. congruence. }
        rewrite (Hc _ _ _ Hn). destruct (c f (map (eval w en) args) tr) as [v tr1|o]; [apply Hret | reflexivity].
      + simpl in H1. rewrite <- (A x H1).
        destruct (w_clo w tr (wrap32 (lookup x en))) as [[f cx]|]; [|reflexivity].
        assert (Hn : c f (cx :: map (eval w en) args) tr <> CFail FOof).
        { intro E. rewrite E in H. congruence. }
        rewrite (Hc _ _ _ Hn). destruct (c f (cx :: map (eval w en) args) tr) as [v tr1|o]; [apply Hret | reflexivity].
    - (* SIf *) intros cnd s1 s2 fas IH1 IH2 S en en' tr Hs A H.
      cbn [scoped] in Hs. fold scoped_l in Hs. simpl in H |- *.
      apply andb_true_iff in Hs. destruct Hs as [_ Hs].
      apply andb_true_iff in Hs. destruct Hs as [Hs Hfas].
      apply andb_true_iff in Hs. destruct Hs as [Hs Hs2].
      apply andb_true_iff in Hs. destruct Hs as [Hcnd Hs1].
      rewrite <- (eval_agree w S en en' cnd Hcnd A).
      destruct (cond (eval w en cnd)) as [[|]|]; [| |reflexivity].
      + assert (Hn : exec_list (exec w c lf) s1 en tr <> RFail FOof).
        { intro E. rewrite E in H. congruence. }
        specialize (IH1 S en en' tr Hs1 A Hn).
        destruct (exec_list (exec w c lf) s1 en tr) as [en1 tr1|v en1 tr1|o];
          destruct (exec_list (exec w c' lf') s1 en' tr) as [en1' tr1'|v' en1' tr1'|o']; simpl in IH1; try contradiction.
        * destruct IH1 as [-> A1]. simpl. split; [reflexivity|].
          unfold bind_e1. apply agree_bind_qs.
          -- intros q Hq. rewrite forallb_forall in Hfas. specialize (Hfas q Hq).
             apply andb_true_iff in Hfas. destruct Hfas as [Hq1 _]. eapply eval_agree; eauto.
          -- eapply agree_app_r. exact A1.
        * exact IH1.
        * exact IH1.
      + assert (Hn : exec_list (exec w c lf) s2 en tr <> RFail FOof).
        { intro E. rewrite E in H. congruence. }
        specialize (IH2 S en en' tr Hs2 A Hn).
        destruct (exec_list (exec w c lf) s2 en tr) as [en1 tr1|v en1 tr1|o];
          destruct (exec_list (exec w c' lf') s2 en' tr) as [en1' tr1'|v' en1' tr1'|o']; simpl in IH2; try contradiction.
        * destruct IH2 as [-> A1]. simpl. split; [reflexivity|].
          unfold bind_e2. apply agree_bind_qs.
          -- intros q Hq. rewrite forallb_forall in Hfas. specialize (Hfas q Hq).
             apply andb_true_iff in Hfas. destruct Hfas as [_ Hq2]. eapply eval_agree; eauto.
          -- eapply agree_app_r. exact A1.
        * exact IH2.
        * exact IH2.
    - (* SSIf *) intros cnd inv ss IH S en en' tr Hs A H.
      cbn [scoped] in Hs. fold scoped_l in Hs. simpl in H |- *.
      apply andb_true_iff in Hs. destruct Hs as [_ Hs].
      apply andb_true_iff in Hs. destruct Hs as [Hcnd Hss].
      rewrite <- (eval_agree w S en en' cnd Hcnd A).
      destruct (cond (eval w en cnd)) as [b|]; [|reflexivity].
      destruct (xorb b inv).
      + specialize (IH S en en' tr Hss A H).
        eapply rsim_weaken; [| |exact IH]; intros x Hx; [rewrite memb_app, Hx; apply orb_true_r | exact Hx].
      + simpl. split; [reflexivity | exact A].
    - (* SBreak *) intros e S en en' tr Hs A _. simpl in *.
      rewrite <- (eval_agree w S en en' e Hs A). repeat split. exact A.
    - (* SWhile *) intros lvs ss bc IH S en en' tr Hs A H.
      cbn [scoped] in Hs. fold scoped_l in Hs. simpl in H |- *.
      apply andb_true_iff in Hs. destruct Hs as [_ Hs].
      apply andb_true_iff in Hs. destruct Hs as [Hs He2].
      apply andb_true_iff in Hs. destruct Hs as [Hs Hss].
      apply andb_true_iff in Hs. destruct Hs as [_ He1].
      assert (A0 : agree (map q_name lvs ++ S) (bind_e1 w lvs en) (bind_e1 w lvs en')).
      { unfold bind_e1. apply agree_bind_qs; [|exact A].
        intros q Hq. rewrite forallb_forall in He1. eapply eval_agree; eauto. }
      assert (Hn : loop (exec_list (exec w c lf) ss) (bind_e2 w lvs) lf (bind_e1 w lvs en) tr <> RFail FOof).
      { intro E. rewrite E in H. congruence. }
      pose proof (loop_sim (exec_list (exec w c lf) ss) (exec_list (exec w c' lf') ss) (bind_e2 w lvs)
                    (map q_name lvs ++ S) (defs_l ss)
                    (fun en0 en0' tr0 A0' Hn0 => IH (map q_name lvs ++ S) en0 en0' tr0 Hss A0' Hn0)) as HL.
      assert (Hnext : forall en0 en0', agree (defs_l ss ++ map q_name lvs ++ S) en0 en0' ->
                                       agree (map q_name lvs ++ S) (bind_e2 w lvs en0) (bind_e2 w lvs en0')).
      { intros en0 en0' A1. unfold bind_e2. apply agree_bind_qs.
        - intros q Hq. rewrite forallb_forall in He2. eapply eval_agree; eauto.
        - eapply agree_app_r. eapply agree_app_r. exact A1. }
      specialize (HL Hnext lf lf' _ _ tr Hlf A0 Hn).
      destruct (loop (exec_list (exec w c lf) ss) (bind_e2 w lvs) lf (bind_e1 w lvs en) tr) as [en1 tr1|v en1 tr1|o];
        destruct (loop (exec_list (exec w c' lf') ss) (bind_e2 w lvs) lf' (bind_e1 w lvs en') tr) as [en1' tr1'|v' en1' tr1'|o'];
        simpl in HL; try contradiction; simpl.
      + reflexivity.
      + destruct HL as [-> [-> A1]]. split; [reflexivity|].
        apply agree_app_r in A1. destruct bc as [[b tb]|]; simpl; [apply agree_cons; exact A1 | exact A1].
      + exact HL.
    - (* SDecl *) intros x t S en en' tr _ A _. simpl. split; [reflexivity | apply agree_cons; exact A].
    - (* SAssign *) intros x e S en en' tr Hs A _. simpl in *.
      apply andb_true_iff in Hs. destruct Hs as [H1 _].
      rewrite <- (eval_agree w S en en' e H1 A). split; [reflexivity | apply agree_bind_same; exact A].
    - (* SStruct *) intros x t es S en en' tr Hs A _. simpl in *.
      apply andb_true_iff in Hs. destruct Hs as [_ H1].
      rewrite <- (map_eval_agree w S en en' es H1 A). split; [reflexivity | apply agree_cons; exact A].
    - (* SClosure *) intros x t f ft e S en en' tr Hs A _. simpl in *.
      apply andb_true_iff in Hs. destruct Hs as [_ H1].
      rewrite <- (eval_agree w S en en' e H1 A). split; [reflexivity | apply agree_cons; exact A].
    - (* nil *) intros S en en' tr _ A _. simpl. split; [reflexivity | exact A].
    - (* cons *) intros s r IHs IHr S en en' tr Hs A H. simpl in *.
      apply andb_true_iff in Hs. destruct Hs as [Hs Hr].
      assert (Hn : exec w c lf s en tr <> RFail FOof).
      { intro E. rewrite E in H. congruence. }
      specialize (IHs S en en' tr Hs A Hn).
      destruct (exec w c lf s en tr) as [en1 tr1|v en1 tr1|o];
        destruct (exec w c' lf' s en' tr) as [en1' tr1'|v' en1' tr1'|o']; simpl in IHs; try contradiction.
      + destruct IHs as [-> A1]. specialize (IHr (defs s ++ S) en1 en1' tr1' Hr A1 H).
        eapply rsim_weaken; [| |exact IHr]; intros x Hx.
        * simpl in Hx. rewrite app_assoc. exact Hx.
        * rewrite memb_app, Hx. apply orb_true_r.
      + exact IHs.
      + exact IHs.
  Qed.

  Lemma exec_list_sim ss S en en' tr :
    scoped_l S ss = true -> agree S en en' -> exec_list (exec w c lf) ss en tr <> RFail FOof ->
    rsim (defs_l ss ++ S) S (exec_list (exec w c lf) ss en tr) (exec_list (exec w c' lf') ss en' tr).
  Proof. apply exec_sim_both. Qed.
End Sim.
