(* C01mir - the tail-recursion rewrite (TailRec.v) preserves behaviour. *)
From Coq Require Import ZArith NArith List Bool Lia.
Import ListNotations.
From SV Require Import Common.Int32 C01mir.Syntax C01mir.Sem C01mir.TailRec C01mir.ProofsSem.
Open Scope Z_scope.

(* ---------- no Break escapes a block without Break ---------- *)
Lemma no_break_both w c lf :
  (forall s en tr v en1 tr1, no_break s = true -> exec w c lf s en tr <> RBreak v en1 tr1) /\
  (forall ss en tr v en1 tr1, no_break_l ss = true -> exec_list (exec w c lf) ss en tr <> RBreak v en1 tr1).
Proof.
  apply stmt_stmts_ind2; intros; simpl in *; try congruence.
  - destruct (rt_binop op (eval w en e1) (eval w en e2)); congruence.
  - destruct c0 as [f atys frty|x t].
    + destruct (c f (map (eval w en) args) tr); congruence.
    + destruct (w_clo w tr (wrap32 (lookup x en))) as [[f cx]|]; [|congruence].
      destruct (c f (cx :: map (eval w en) args) tr); congruence.
  - fold no_break_l in *. apply andb_true_iff in H1. destruct H1 as [H1 H2].
    destruct (cond (eval w en c0)) as [[|]|]; [| |congruence].
    + specialize (H en tr). destruct (exec_list (exec w c lf) s1 en tr); try congruence. eapply H; eauto.
    + specialize (H0 en tr). destruct (exec_list (exec w c lf) s2 en tr); try congruence. eapply H0; eauto.
  - fold no_break_l in *. destruct (cond (eval w en c0)) as [b|]; [|congruence].
    destruct (xorb b inv); [|congruence]. eapply H; eauto.
  - destruct (loop (exec_list (exec w c lf) ss) (bind_e2 w lvs) lf (bind_e1 w lvs en) tr); congruence.
  - apply andb_true_iff in H1. destruct H1 as [H1 H2].
    specialize (H en tr). destruct (exec w c lf s en tr); try congruence.
    + eapply H0; eauto.
    + eapply H; eauto.
Qed.

Lemma exec_list_single (ex : stmt -> env -> trace -> res) s en tr : exec_list ex [s] en tr = ex s en tr.
Proof. simpl. destruct (ex s en tr); reflexivity. Qed.

Lemma exec_list_app (ex : stmt -> env -> trace -> res) a b en tr :
  exec_list ex (a ++ b) en tr =
  match exec_list ex a en tr with RNext en1 tr1 => exec_list ex b en1 tr1 | o => o end.
Proof.
  revert en tr. induction a as [|s a IH]; intros en tr; simpl; [reflexivity|].
  destruct (ex s en tr); try reflexivity. apply IH.
Qed.

(* ---------- facts about the rewrite that do not involve the semantics ---------- *)
Definition below (k : N) (l : list name) : Prop := forall x, In x l -> (x < k)%N.

Lemma mk_fas_spec k a1 a2 ts args tfas k' :
  mk_fas k a1 a2 ts = (args, tfas, k') ->
  length a1 = length ts -> length a2 = length ts ->
  (k <= k')%N /\ length args = length ts /\ map q_e1 tfas = a1 /\ map q_e2 tfas = a2 /\
  (forall q, In q tfas -> (k <= q_name q)%N).
Proof.
  revert k a2 ts args tfas k'. induction a1 as [|e1 a1 IH]; intros k a2 ts args tfas k' H L1 L2.
  - destruct ts; [|discriminate]. destruct a2; [|discriminate]. simpl in H. inversion H; subst.
    repeat split; try reflexivity; try lia. intros q [].
  - destruct ts as [|t ts]; [discriminate|]. destruct a2 as [|e2 a2]; [discriminate|]. simpl in H.
    destruct (mk_fas (N.succ k) a1 a2 ts) as [[args0 fas0] k0] eqn:E. inversion H; subst.
    simpl in L1, L2. destruct (IH _ _ _ _ _ _ E) as [Hk [Hl [H1 [H2 Hq]]]]; try lia.
    repeat split; simpl; try lia; try (f_equal; assumption).
    intros q [<-|Hin]; simpl; [lia|]. specialize (Hq q Hin). lia.
Qed.

Lemma mk_fas_k_le k a1 a2 ts : (k <= snd (mk_fas k a1 a2 ts))%N.
Proof.
  revert k a2 ts. induction a1 as [|e1 a1 IH]; intros k a2 ts; simpl; [lia|].
  destruct a2 as [|e2 a2]; simpl; [lia|]. destruct ts as [|t ts]; simpl; [lia|].
  specialize (IH (N.succ k) a2 ts). destruct (mk_fas (N.succ k) a1 a2 ts) as [[x y] z]. simpl in *. lia.
Qed.

Section Static.
  Variable fname : N.
  Variable ptys : list ty.

  Lemma rw_stmts_cons s r rc k :
    rw_stmts false fname ptys (s :: r) rc k =
    match r with
    | [] => rw_last false fname ptys s rc k
    | _ :: _ => match rw_stmts false fname ptys r rc k with
                | (Some (ss', args, ds), k') => (Some (s :: ss', args, ds), k')
                | (None, k') => (None, k')
                end
    end.
  Proof. reflexivity. Qed.

  Lemma rw_last_if cnd s1 s2 fas rc k :
    rw_last false fname ptys (SIf cnd s1 s2 fas) rc k =
    let relevant := find (is_rc rc) fas in
    match (match rc with
           | Some _ => match relevant with
                       | Some q => Some (as_var (q_e1 q), as_var (q_e2 q))
                       | None => None
                       end
           | None => Some (None, None)
           end) with
    | None => (None, k)
    | Some (rc1, rc2) =>
        let (r1, k1) := rw_stmts false fname ptys s1 rc1 k in
        let (r2, k2) := rw_stmts false fname ptys s2 rc2 k1 in
        let d1 := match relevant with Some q => discarded rc (q_e1 q) | None => [] end in
        let d2 := match relevant with Some q => discarded rc (q_e2 q) | None => [] end in
        match r1, r2 with
        | None, None => (None, k2)
        | None, Some (st, args, ds) =>
            (Some (SSIf cnd false (s1 ++ [SBreak (match relevant with Some q => q_e1 q | None => EInt 0 end)]) :: st,
                   args, d2 ++ ds), k2)
        | Some (st, args, ds), None =>
            (Some (SSIf cnd true (s2 ++ [SBreak (match relevant with Some q => q_e2 q | None => EInt 0 end)]) :: st,
                   args, d1 ++ ds), k2)
        | Some (st1, a1, ds1), Some (st2, a2, ds2) =>
            let nfas := filter (fun q => negb (is_rc rc q)) fas in
            let '(args, tfas, k3) := mk_fas k2 a1 a2 ptys in
            (Some ([SIf cnd st1 st2 (nfas ++ tfas)], args, (d1 ++ ds1) ++ (d2 ++ ds2)), k3)
        end
    end.
  Proof. reflexivity. Qed.

  Lemma rw_k_le_both :
    (forall s rc k, (k <= snd (rw_last false fname ptys s rc k))%N) /\
    (forall ss rc k, (k <= snd (rw_stmts false fname ptys ss rc k))%N).
  Proof.
    apply stmt_stmts_ind2; try (intros; simpl; lia).
    - intros cl args rty ret rc k. simpl. destruct cl; simpl; [|lia].
      destruct (N.eqb f fname && opt_eqb N.eqb rc ret); simpl; lia.
    - intros cnd s1 s2 fas IH1 IH2 rc k. rewrite rw_last_if. cbv zeta.
      destruct (match rc with
                | Some _ => match find (is_rc rc) fas with
                            | Some q => Some (as_var (q_e1 q), as_var (q_e2 q)) | None => None end
                | None => Some (None, None) end) as [[rc1 rc2]|]; [|simpl; lia].
      specialize (IH1 rc1 k). destruct (rw_stmts false fname ptys s1 rc1 k) as [r1 k1]. simpl in IH1.
      specialize (IH2 rc2 k1). destruct (rw_stmts false fname ptys s2 rc2 k1) as [r2 k2]. simpl in IH2.
      destruct r1 as [[[st1 a1] ds1]|]; destruct r2 as [[[st2 a2] ds2]|]; simpl; try lia.
      pose proof (mk_fas_k_le k2 a1 a2 ptys) as Hm. destruct (mk_fas k2 a1 a2 ptys) as [[x y] z]. simpl in *. lia.
    - intros s r IHs IHr rc k. rewrite rw_stmts_cons. destruct r as [|s2 r]; [apply IHs|].
      specialize (IHr rc k). destruct (rw_stmts false fname ptys (s2 :: r) rc k) as [[[[a b] d]|] k']; simpl in *; lia.
  Qed.

  Lemma rw_stmts_k_le ss rc k : (k <= snd (rw_stmts false fname ptys ss rc k))%N.
  Proof. apply rw_k_le_both. Qed.

  Lemma rw_len_both :
    (forall s rc k ss' args ds k', rw_last false fname ptys s rc k = (Some (ss', args, ds), k') ->
        self_arity fname (length ptys) s = true -> length args = length ptys) /\
    (forall ss rc k ss' args ds k', rw_stmts false fname ptys ss rc k = (Some (ss', args, ds), k') ->
        forallb (self_arity fname (length ptys)) ss = true -> length args = length ptys).
  Proof.
    apply stmt_stmts_ind2; try (intros; simpl in *; discriminate).
    - (* SCall *) intros cl args0 rty ret rc k ss' args ds k' H Ha. simpl in *.
      destruct cl as [g atys frty|x t]; [|discriminate].
      destruct (N.eqb g fname && opt_eqb N.eqb rc ret) eqn:E; [|discriminate].
      apply andb_true_iff in E. destruct E as [E _]. rewrite E in Ha. inversion H; subst.
      apply Nat.eqb_eq; exact Ha.
    - (* SIf *) intros cnd s1 s2 fas IH1 IH2 rc k ss' args ds k' H Ha. rewrite rw_last_if in H. cbv zeta in H.
      simpl in Ha. apply andb_true_iff in Ha. destruct Ha as [Ha1 Ha2].
      destruct (match rc with
                | Some _ => match find (is_rc rc) fas with
                            | Some q => Some (as_var (q_e1 q), as_var (q_e2 q)) | None => None end
                | None => Some (None, None) end) as [[rc1 rc2]|]; [|discriminate].
      destruct (rw_stmts false fname ptys s1 rc1 k) as [r1 k1] eqn:E1.
      destruct (rw_stmts false fname ptys s2 rc2 k1) as [r2 k2] eqn:E2.
      destruct r1 as [[[st1 a1] ds1]|]; destruct r2 as [[[st2 a2] ds2]|]; try discriminate.
      + pose proof (IH1 _ _ _ _ _ _ E1 Ha1) as L1. pose proof (IH2 _ _ _ _ _ _ E2 Ha2) as L2.
        destruct (mk_fas k2 a1 a2 ptys) as [[x y] z] eqn:Em. inversion H; subst.
        destruct (mk_fas_spec _ _ _ _ _ _ _ Em L1 L2) as [_ [Hl _]]. exact Hl.
      + inversion H; subst. eapply IH1; eauto.
      + inversion H; subst. eapply IH2; eauto.
    - (* cons *) intros s r IHs IHr rc k ss' args ds k' H Ha. rewrite rw_stmts_cons in H. simpl in Ha.
      apply andb_true_iff in Ha. destruct Ha as [Ha1 Ha2]. destruct r as [|s2 r]; [eapply IHs; eauto|].
      destruct (rw_stmts false fname ptys (s2 :: r) rc k) as [[[[a b] d]|] k0] eqn:E; [|discriminate].
      inversion H; subst. eapply IHr; eauto.
  Qed.
End Static.

(* ---------- one iteration of the loop version against the body of the recursive version ---------- *)
Definition rct (rc : option name) (en : env) (v : Z) : Prop :=
  match rc with Some r => wrap32 (lookup r en) = wrap32 v | None => True end.
Definition rcb (rc : option name) (en : env) (v : Z) : Prop :=
  match rc with Some r => v = wrap32 (lookup r en) | None => v = 0 end.

Definition bind_g (w : world) (g : quad -> expr) (qs : list quad) (en : env) : env :=
  combine (map q_name qs) (map (fun q => eval w en (g q)) qs) ++ en.

Lemma lookup_bind_find w g r fas q en :
  find (is_rc (Some r)) fas = Some q -> lookup r (bind_g w g fas en) = eval w en (g q).
Proof.
  unfold bind_g. induction fas as [|q0 fas IH]; simpl; [discriminate|].
  unfold is_rc at 1. simpl. destruct (N.eqb r (q_name q0)) eqn:E.
  - intro H. inversion H; subst. reflexivity.
  - intro H. apply IH. exact H.
Qed.

Lemma find_is_rc_none fas : find (is_rc None) fas = None.
Proof. induction fas as [|q fas IH]; simpl; [reflexivity|exact IH]. Qed.

Lemma find_In {A} (p : A -> bool) l x : find p l = Some x -> In x l.
Proof.
  induction l as [|y l IH]; simpl; [discriminate|]. destruct (p y).
  - intro H. inversion H. left. reflexivity.
  - intro H. right. apply IH. exact H.
Qed.

Lemma eval_lit w en en' e : as_var e = None -> eval w en e = eval w en' e.
Proof. destruct e; simpl; try reflexivity. discriminate. Qed.

Lemma as_var_some e x : as_var e = Some x -> exists t, e = EVar x t.
Proof. destruct e; simpl; try discriminate. intro H. inversion H. eexists. reflexivity. Qed.

(* the expected collector of the enclosing if-else, from the one of the branch *)
Definition sub_rc (rc : option name) (rel : option quad) (g : quad -> expr) : option (option name) :=
  match rc with
  | Some _ => match rel with Some q => Some (as_var (g q)) | None => None end
  | None => Some None
  end.
Definition sub_disc (rc : option name) (rel : option quad) (g : quad -> expr) : list expr :=
  match rel with Some q => discarded rc (g q) | None => [] end.
Definition brk_expr (rel : option quad) (g : quad -> expr) : expr :=
  match rel with Some q => g q | None => EInt 0 end.

Lemma up_t w g rc fas rc' en2 v :
  sub_rc rc (find (is_rc rc) fas) g = Some rc' ->
  (forall e, In e (sub_disc rc (find (is_rc rc) fas) g) -> e = EInt 0 /\ wrap32 v = 0) ->
  rct rc' en2 v -> rct rc (bind_g w g fas en2) v.
Proof.
  intros Hs Hd Ht. destruct rc as [r|]; [|exact I]. simpl in *.
  destruct (find (is_rc (Some r)) fas) as [q|] eqn:Ef; [|discriminate]. inversion Hs; subst. clear Hs.
  rewrite (lookup_bind_find w g r fas q en2 Ef). simpl in Hd. unfold discarded in Hd.
  destruct (as_var (g q)) as [x|] eqn:Ev.
  - destruct (as_var_some _ _ Ev) as [t Hg]. rewrite Hg. simpl in Ht. unfold eval. rewrite wrap32_idem. exact Ht.
  - destruct (Hd (g q)) as [He Hv]; [left; reflexivity|]. rewrite He, Hv. reflexivity.
Qed.

Lemma up_b w g rc fas rc' en2 v :
  sub_rc rc (find (is_rc rc) fas) g = Some rc' ->
  (forall e, In e (sub_disc rc (find (is_rc rc) fas) g) -> e = EInt 0) ->
  rcb rc' en2 v -> rcb rc (bind_g w g fas en2) v.
Proof.
  intros Hs Hd Ht. destruct rc as [r|].
  - simpl in *. destruct (find (is_rc (Some r)) fas) as [q|] eqn:Ef; [|discriminate]. inversion Hs; subst. clear Hs.
    rewrite (lookup_bind_find w g r fas q en2 Ef). simpl in Hd. unfold discarded in Hd.
    destruct (as_var (g q)) as [x|] eqn:Ev.
    + destruct (as_var_some _ _ Ev) as [t Hg]. rewrite Hg. simpl in Ht. unfold eval. rewrite wrap32_idem. exact Ht.
    + rewrite (Hd (g q)); [|left; reflexivity]. simpl in Ht. subst. reflexivity.
  - simpl in *. inversion Hs; subst. exact Ht.
Qed.

Lemma brk_b w g rc fas rc' en2 :
  sub_rc rc (find (is_rc rc) fas) g = Some rc' ->
  rcb rc (bind_g w g fas en2) (eval w en2 (brk_expr (find (is_rc rc) fas) g)).
Proof.
  intros Hs. destruct rc as [r|].
  - simpl in *. destruct (find (is_rc (Some r)) fas) as [q|] eqn:Ef; [|discriminate].
    rewrite (lookup_bind_find w g r fas q en2 Ef). simpl. symmetry. apply eval_wrapped.
  - simpl. rewrite find_is_rc_none. reflexivity.
Qed.

(* the new final assignments of the both-branches case hand the arguments over *)
Lemma eval_temps w (g : quad -> expr) en :
  forall a1 a2 ts k args tfas k', mk_fas k a1 a2 ts = (args, tfas, k') ->
  length a1 = length ts -> length a2 = length ts ->
  forall (pre : env), (forall x, In x (map fst pre) -> (x < k)%N) ->
  map (eval w (pre ++ combine (map q_name tfas) (map (fun q => eval w en (g q)) tfas) ++ en)) args =
  map (fun q => eval w en (g q)) tfas.
Proof.
  induction a1 as [|e1 a1 IH]; intros a2 ts k args tfas k' H L1 L2 pre Hpre.
  - destruct ts; [|discriminate]. destruct a2; [|discriminate]. simpl in H. inversion H; subst. reflexivity.
  - destruct ts as [|t ts]; [discriminate|]. destruct a2 as [|e2 a2]; [discriminate|]. simpl in H.
    destruct (mk_fas (N.succ k) a1 a2 ts) as [[args0 fas0] k0] eqn:E. inversion H; subst. simpl. f_equal.
    + unfold eval at 1. rewrite lookup_app_r.
      * simpl. rewrite N.eqb_refl. apply eval_wrapped.
      * apply memb_false_In. intro Hin. specialize (Hpre _ Hin). lia.
    + assert (L1' : length a1 = length ts) by (simpl in L1; lia).
      assert (L2' : length a2 = length ts) by (simpl in L2; lia).
      specialize (IH _ _ _ _ _ _ E L1' L2' (pre ++ [(k, eval w en (g {| q_name := k; q_ty := t; q_e1 := e1; q_e2 := e2 |}))])).
      rewrite <- app_assoc in IH. simpl in IH. apply IH.
      intros x Hx. rewrite map_app in Hx. apply in_app_or in Hx. simpl in Hx. destruct Hx as [Hx|[Hx|[]]]; [specialize (Hpre _ Hx); lia | subst; lia].
Qed.

Lemma fresh_in_single S r : fresh_in S [r] = true -> memb r S = false.
Proof.
  unfold fresh_in. simpl. intro H. apply andb_true_iff in H. destruct H as [H _].
  apply negb_true_iff in H. exact H.
Qed.

Lemma map_eval_fresh w S args r v en en' :
  forallb (in_scope S) args = true -> memb r S = false -> agree S en en' ->
  map (eval w ((r, v) :: en')) args = map (eval w en) args.
Proof.
  intros H Hr A. induction args as [|e args IH]; [reflexivity|]. simpl in H.
  apply andb_true_iff in H. destruct H as [H1 H2]. simpl. f_equal; [|apply IH; exact H2].
  destruct e as [z|z|s|x t]; try reflexivity. simpl in H1. unfold eval. simpl.
  destruct (N.eqb x r) eqn:E.
  - apply N.eqb_eq in E. subst. rewrite H1 in Hr. discriminate.
  - symmetry. apply A. exact H1.
Qed.

Lemma opt_eqb_eq (a b : option name) : opt_eqb N.eqb a b = true -> a = b.
Proof.
  destruct a, b; simpl; try discriminate; try reflexivity. intro H. apply N.eqb_eq in H. subst. reflexivity.
Qed.

Lemma combine_app {A B} (a1 a2 : list A) (b1 b2 : list B) :
  length a1 = length b1 -> combine (a1 ++ a2) (b1 ++ b2) = combine a1 b1 ++ combine a2 b2.
Proof.
  revert b1. induction a1 as [|x a1 IH]; intros [|y b1] H; simpl in *; try discriminate; try reflexivity.
  f_equal. apply IH. lia.
Qed.

Definition bindR (R : res) (k : env -> trace -> res) : res :=
  match R with RNext e t => k e t | RBreak v e t => RBreak v e t | RFail o => RFail o end.

Lemma agree_sym S en en' : agree S en en' -> agree S en' en.
Proof. intros A x Hx. symmetry. apply A. exact Hx. Qed.

Lemma rsim_sym Sn Sb R R' : rsim Sn Sb R R' -> rsim Sn Sb R' R.
Proof.
  destruct R, R'; simpl; try tauto.
  - intros [-> A]. split; [reflexivity|apply agree_sym; exact A].
  - intros [-> [-> A]]. repeat split. apply agree_sym. exact A.
  - intros ->. reflexivity.
Qed.

(* The relation between one run of the original body and one iteration of the loop version is established once, for
   either direction of reasoning: `prem R R'` says which of the two runs (source R, target R') is known not to be out
   of fuel; `sim_s` / `sim_l` relate the two runs of a statement that the rewrite leaves alone. *)
Section RwSim.
  Variable w : world.
  Variables c c' : callf_t.
  Variables lf lf' : nat.
  Variable fname : N.
  Variable ptys : list ty.
  Variable prem : res -> res -> Prop.
  Hypothesis prem_l : forall R R' k, prem (bindR R k) R' -> prem R R'.
  Hypothesis prem_r : forall R R' k', prem R (bindR R' k') -> prem R R'.
  Hypothesis prem_b : forall R R' k k', prem (bindR R k) (bindR R' k') -> prem R R'.
  Hypothesis sim_s : forall s S en en' tr, scoped S s = true -> agree S en en' ->
      prem (exec w c lf s en tr) (exec w c' lf' s en' tr) ->
      rsim (defs s ++ S) S (exec w c lf s en tr) (exec w c' lf' s en' tr).
  Hypothesis sim_l : forall ss S en en' tr, scoped_l S ss = true -> agree S en en' ->
      prem (exec_list (exec w c lf) ss en tr) (exec_list (exec w c' lf') ss en' tr) ->
      rsim (defs_l ss ++ S) S (exec_list (exec w c lf) ss en tr) (exec_list (exec w c' lf') ss en' tr).

  (* every result of `fname` is 0 (needed only when a result is discarded, see TailRec.rw_res) *)
  Definition ret0 : Prop := forall vs tr v tr2, c fname vs tr = CRet v tr2 -> wrap32 v = 0.
  Definition ds_ok (ds : list expr) : Prop := forall e, In e ds -> e = EInt 0 /\ ret0.

  (* `src` is the source computation (the original block, calls answered by c); tgt / args the rewritten block
     (calls answered by c') and the loop values.  From environments that agree on the scope, when the run named by
     `prem` is not out of fuel:
     (T) the rewritten block ends normally, the loop values evaluate to the arguments of the tail call, and the
         source result is that of the call, flowing into the expected collector;
     (B) the rewritten block breaks with the value the source leaves in the expected collector;
     (F) both fail alike. *)
  Definition spec (src : env -> trace -> res) (rc : option name) (tgt : env -> trace -> res) (args : list expr) (S : list name) : Prop :=
    forall en en' tr, agree S en en' -> prem (src en tr) (tgt en' tr) ->
    (exists en1' tr1, tgt en' tr = RNext en1' tr1 /\
        match c fname (map (eval w en1') args) tr1 with
        | CRet v tr2 => exists en2, src en tr = RNext en2 tr2 /\ rct rc en2 v
        | CFail o => src en tr = RFail o
        end)
    \/ (exists en2 tr1 en1' v, src en tr = RNext en2 tr1 /\
          tgt en' tr = RBreak v en1' tr1 /\ rcb rc en2 v)
    \/ (exists o, src en tr = RFail o /\ tgt en' tr = RFail o).

  Definition after (g : quad -> expr) (fas : list quad) (sb : list stmt) : env -> trace -> res :=
    fun en tr => bindR (exec_list (exec w c lf) sb en tr) (fun en1 tr1 => RNext (bind_g w g fas en1) tr1).

  (* the branch that was rewritten, when the other one was not: its statements run after the SingleIf *)
  Lemma lift_spec g sb rc rc' fas st args S :
    spec (exec_list (exec w c lf) sb) rc' st args S ->
    sub_rc rc (find (is_rc rc) fas) g = Some rc' ->
    ds_ok (sub_disc rc (find (is_rc rc) fas) g) ->
    spec (after g fas sb) rc st args S.
  Proof.
    intros Hsp Hs Hd en en' tr A Hn. unfold after in *.
    pose proof (prem_l _ _ _ Hn) as Hn1.
    destruct (Hsp en en' tr A Hn1) as [[en1' [tr1 [Ht Hm]]]|[[en2 [tr1 [en1' [v [Hr [Ht Hb]]]]]]|[o [Hr Ht]]]].
    - left. exists en1', tr1. split; [exact Ht|].
      destruct (c fname (map (eval w en1') args) tr1) as [v tr2|o] eqn:Ec.
      + destruct Hm as [en2 [Hr Hv]]. exists (bind_g w g fas en2). rewrite Hr. split; [reflexivity|].
        eapply up_t; eauto. intros e He. destruct (Hd e He) as [H0 Hr0]. split; [exact H0|]. eapply Hr0; eauto.
      + rewrite Hm. reflexivity.
    - right. left. exists (bind_g w g fas en2), tr1, en1', v. rewrite Hr. split; [reflexivity|]. split; [exact Ht|].
      eapply up_b; eauto. intros e He. apply (Hd e He).
    - right. right. exists o. rewrite Hr. split; [reflexivity|exact Ht].
  Qed.

  (* the branch that was not rewritten: it runs inside the SingleIf and breaks with the value of the collector *)
  Lemma brk_spec g sb rc rc' fas S en en' tr :
    scoped_l S sb = true -> no_break_l sb = true ->
    in_scope (defs_l sb ++ S) (brk_expr (find (is_rc rc) fas) g) = true ->
    sub_rc rc (find (is_rc rc) fas) g = Some rc' ->
    agree S en en' ->
    prem (after g fas sb en tr) (exec_list (exec w c' lf') (sb ++ [SBreak (brk_expr (find (is_rc rc) fas) g)]) en' tr) ->
    (exists en2 tr1 en1' v, after g fas sb en tr = RNext en2 tr1 /\
        exec_list (exec w c' lf') (sb ++ [SBreak (brk_expr (find (is_rc rc) fas) g)]) en' tr = RBreak v en1' tr1 /\
        rcb rc en2 v)
    \/ (exists o, after g fas sb en tr = RFail o /\
          exec_list (exec w c' lf') (sb ++ [SBreak (brk_expr (find (is_rc rc) fas) g)]) en' tr = RFail o).
  Proof.
    intros Hs Hnb Hb Hsub A Hn. unfold after in *. rewrite exec_list_app in Hn |- *.
    assert (Hn1 : prem (exec_list (exec w c lf) sb en tr) (exec_list (exec w c' lf') sb en' tr)).
    { apply (prem_b _ _ (fun en1 tr1 => RNext (bind_g w g fas en1) tr1)
                        (fun en1 tr1 => exec_list (exec w c' lf') [SBreak (brk_expr (find (is_rc rc) fas) g)] en1 tr1)).
      exact Hn. }
    pose proof (sim_l sb S en en' tr Hs A Hn1) as Hsim.
    destruct (exec_list (exec w c lf) sb en tr) as [en1 tr1|v en1 tr1|o] eqn:E1.
    - destruct (exec_list (exec w c' lf') sb en' tr) as [en1' tr1'|v' en1' tr1'|o']; simpl in Hsim; try contradiction.
      destruct Hsim as [<- A1]. left. exists (bind_g w g fas en1), tr1, en1', (eval w en1' (brk_expr (find (is_rc rc) fas) g)).
      split; [reflexivity|]. split; [reflexivity|].
      rewrite <- (eval_agree w _ en1 en1' _ Hb A1). eapply brk_b; eauto.
    - exfalso. eapply (proj2 (no_break_both w c lf)); eauto.
    - destruct (exec_list (exec w c' lf') sb en' tr) as [en1' tr1'|v' en1' tr1'|o']; simpl in Hsim; try contradiction.
      subst o'. right. exists o. split; reflexivity.
  Qed.

  (* both branches were rewritten: the arguments travel through new final assignments *)
  Lemma lift_both g sb rc rc' fas nfas tfas st a args S :
    spec (exec_list (exec w c lf) sb) rc' (exec_list (exec w c' lf') st) a S ->
    map g tfas = a ->
    (forall en, map (eval w (bind_g w g (nfas ++ tfas) en)) args = map (fun q => eval w en (g q)) tfas) ->
    sub_rc rc (find (is_rc rc) fas) g = Some rc' ->
    ds_ok (sub_disc rc (find (is_rc rc) fas) g) ->
    spec (after g fas sb) rc
         (fun en' tr => bindR (exec_list (exec w c' lf') st en' tr) (fun e t => RNext (bind_g w g (nfas ++ tfas) e) t)) args S.
  Proof.
    intros Hsp Ha Hev Hs Hd en en' tr A Hn. unfold after in *.
    pose proof (prem_b _ _ _ _ Hn) as Hn1.
    destruct (Hsp en en' tr A Hn1) as [[en1' [tr1 [Ht Hm]]]|[[en2 [tr1 [en1' [v [Hr [Ht Hb]]]]]]|[o [Hr Ht]]]].
    - left. exists (bind_g w g (nfas ++ tfas) en1'), tr1. rewrite Ht. split; [reflexivity|].
      rewrite Hev. rewrite <- Ha in Hm. rewrite map_map in Hm.
      destruct (c fname (map (fun q => eval w en1' (g q)) tfas) tr1) as [v tr2|o] eqn:Ec.
      + destruct Hm as [en2 [Hr Hv]]. exists (bind_g w g fas en2). rewrite Hr. split; [reflexivity|].
        eapply up_t; eauto. intros e He. destruct (Hd e He) as [H0 Hr0]. split; [exact H0|]. eapply Hr0; eauto.
      + rewrite Hm. reflexivity.
    - right. left. exists (bind_g w g fas en2), tr1, en1', v. rewrite Hr, Ht. split; [reflexivity|]. split; [reflexivity|].
      eapply up_b; eauto. intros e He. apply (Hd e He).
    - right. right. exists o. rewrite Hr, Ht. split; reflexivity.
  Qed.

  Lemma pair_rc rc fas rc1 rc2 :
    (match rc with
     | Some _ => match find (is_rc rc) fas with
                 | Some q => Some (as_var (q_e1 q), as_var (q_e2 q))
                 | None => None
                 end
     | None => Some (None, None)
     end) = Some (rc1, rc2) ->
    sub_rc rc (find (is_rc rc) fas) q_e1 = Some rc1 /\ sub_rc rc (find (is_rc rc) fas) q_e2 = Some rc2.
  Proof.
    destruct rc as [r|]; simpl.
    - destruct (find (is_rc (Some r)) fas); [|discriminate]. intro H. inversion H. split; reflexivity.
    - intro H. inversion H. split; reflexivity.
  Qed.

  Lemma brk_in_scope rc fas (g : quad -> expr) S :
    forallb (fun q => in_scope S (g q)) fas = true -> in_scope S (brk_expr (find (is_rc rc) fas) g) = true.
  Proof.
    intro H. unfold brk_expr. destruct (find (is_rc rc) fas) as [q|] eqn:E; [|reflexivity].
    rewrite forallb_forall in H. apply H. eapply find_In; eauto.
  Qed.

  Lemma below_le k k' l : (k <= k')%N -> below k l -> below k' l.
  Proof. intros H B x Hx. specialize (B x Hx). lia. Qed.

  Lemma ds_ok_app a b : ds_ok (a ++ b) -> ds_ok a /\ ds_ok b.
  Proof. intro H. split; intros e He; apply H; apply in_or_app; [left|right]; exact He. Qed.

  Lemma rw_sim_both :
    (forall s rc k ss' args ds k' S, rw_last false fname ptys s rc k = (Some (ss', args, ds), k') ->
        scoped S s = true -> no_break s = true -> self_arity fname (length ptys) s = true ->
        below k (binders s) -> ds_ok ds ->
        spec (exec w c lf s) rc (exec_list (exec w c' lf') ss') args S) /\
    (forall ss rc k ss' args ds k' S, rw_stmts false fname ptys ss rc k = (Some (ss', args, ds), k') ->
        scoped_l S ss = true -> no_break_l ss = true -> forallb (self_arity fname (length ptys)) ss = true ->
        below k (binders_l ss) -> ds_ok ds ->
        spec (exec_list (exec w c lf) ss) rc (exec_list (exec w c' lf') ss') args S).
  Proof.
    apply stmt_stmts_ind2; try (intros; simpl in *; discriminate).
    - (* SCall *)
      intros cl args0 rty ret rc k ss' args ds k' S H Hs _ Ha _ _. simpl in H.
      destruct cl as [g atys frty|x t]; [|discriminate].
      destruct (N.eqb g fname && opt_eqb N.eqb rc ret) eqn:E; [|discriminate].
      apply andb_true_iff in E. destruct E as [Eg Er]. apply N.eqb_eq in Eg. subst g.
      apply opt_eqb_eq in Er. subst ret. inversion H; subst; clear H.
      simpl in Hs. apply andb_true_iff in Hs. destruct Hs as [Hfr Hargs].
      intros en en' tr A _. left. simpl.
      destruct rc as [r|].
      + exists ((r, 0) :: en'), tr. split; [reflexivity|].
        rewrite (map_eval_fresh w S args r 0 en en' Hargs (fresh_in_single _ _ Hfr) A).
        destruct (c fname (map (eval w en) args) tr) as [v tr2|o]; [|reflexivity].
        exists ((r, v) :: en). split; [reflexivity|]. simpl. rewrite N.eqb_refl. reflexivity.
      + exists en', tr. split; [reflexivity|].
        rewrite <- (map_eval_agree w S en en' args Hargs A).
        destruct (c fname (map (eval w en) args) tr) as [v tr2|o]; [|reflexivity].
        exists en. split; [reflexivity|exact I].
    - (* SIf *)
      intros cnd s1 s2 fas IH1 IH2 rc k ss' args ds k' S H Hs Hnb Ha Hbel Hds.
      rewrite rw_last_if in H. cbv zeta in H.
      cbn [scoped] in Hs. fold scoped_l in Hs.
      apply andb_true_iff in Hs. destruct Hs as [_ Hs].
      apply andb_true_iff in Hs. destruct Hs as [Hs Hfas].
      apply andb_true_iff in Hs. destruct Hs as [Hs Hs2].
      apply andb_true_iff in Hs. destruct Hs as [Hcnd Hs1].
      simpl in Hnb. fold no_break_l in Hnb. apply andb_true_iff in Hnb. destruct Hnb as [Hnb1 Hnb2].
      simpl in Ha. apply andb_true_iff in Ha. destruct Ha as [Ha1 Ha2].
      assert (Hb1 : below k (binders_l s1)).
      { intros x Hx. apply Hbel. simpl. fold binders_l. apply in_or_app. left. exact Hx. }
      assert (Hb2 : below k (binders_l s2)).
      { intros x Hx. apply Hbel. simpl. fold binders_l. apply in_or_app. right. apply in_or_app. left. exact Hx. }
      assert (Hbf : below k (map q_name fas)).
      { intros x Hx. apply Hbel. simpl. fold binders_l. apply in_or_app. right. apply in_or_app. right. exact Hx. }
      assert (Hf1 : forallb (fun q => in_scope (defs_l s1 ++ S) (q_e1 q)) fas = true).
      { apply forallb_forall. intros q Hq. rewrite forallb_forall in Hfas. specialize (Hfas q Hq).
        apply andb_true_iff in Hfas. apply Hfas. }
      assert (Hf2 : forallb (fun q => in_scope (defs_l s2 ++ S) (q_e2 q)) fas = true).
      { apply forallb_forall. intros q Hq. rewrite forallb_forall in Hfas. specialize (Hfas q Hq).
        apply andb_true_iff in Hfas. apply Hfas. }
      destruct (match rc with
                | Some _ => match find (is_rc rc) fas with
                            | Some q => Some (as_var (q_e1 q), as_var (q_e2 q)) | None => None end
                | None => Some (None, None) end) as [[rc1 rc2]|] eqn:Epair; [|discriminate].
      destruct (pair_rc _ _ _ _ Epair) as [Hsub1 Hsub2].
      destruct (rw_stmts false fname ptys s1 rc1 k) as [r1 k1] eqn:E1.
      destruct (rw_stmts false fname ptys s2 rc2 k1) as [r2 k2] eqn:E2.
      assert (K1 : (k <= k1)%N) by (pose proof (rw_stmts_k_le fname ptys s1 rc1 k) as X; rewrite E1 in X; exact X).
      assert (K2 : (k1 <= k2)%N) by (pose proof (rw_stmts_k_le fname ptys s2 rc2 k1) as X; rewrite E2 in X; exact X).
      (* the source: the branch taken, then the final assignments *)
      assert (Hsrc : forall en tr, exec w c lf (SIf cnd s1 s2 fas) en tr =
                match cond (eval w en cnd) with
                | None => RFail FStuck
                | Some true => after q_e1 fas s1 en tr
                | Some false => after q_e2 fas s2 en tr
                end).
      { intros en tr. unfold after, bindR. simpl. destruct (cond (eval w en cnd)) as [[|]|]; reflexivity. }
      destruct r1 as [[[st1 a1] ds1]|]; destruct r2 as [[[st2 a2] ds2]|]; try discriminate.
      + (* both branches end in a tail call *)
        destruct (mk_fas k2 a1 a2 ptys) as [[args' tfas] k3] eqn:Em. inversion H; subst; clear H.
        pose proof (proj2 (rw_len_both fname ptys) _ _ _ _ _ _ _ E1 Ha1) as L1.
        pose proof (proj2 (rw_len_both fname ptys) _ _ _ _ _ _ _ E2 Ha2) as L2.
        destruct (mk_fas_spec _ _ _ _ _ _ _ Em L1 L2) as [_ [_ [Hm1 [Hm2 _]]]].
        destruct (ds_ok_app _ _ Hds) as [Hds1 Hds2].
        destruct (ds_ok_app _ _ Hds1) as [Hd1 Hds1']. destruct (ds_ok_app _ _ Hds2) as [Hd2 Hds2'].
        set (nfas := filter (fun q => negb (is_rc rc q)) fas) in *.
        assert (Hev : forall (g : quad -> expr) en,
                   map (eval w (bind_g w g (nfas ++ tfas) en)) args = map (fun q => eval w en (g q)) tfas).
        { intros g en. unfold bind_g. rewrite !map_app. rewrite combine_app by (rewrite !map_length; reflexivity).
          rewrite <- app_assoc.
          apply (eval_temps w g en a1 a2 ptys k2 args tfas _ Em L1 L2).
          intros x Hx. rewrite map_fst_combine in Hx by (rewrite !map_length; reflexivity).
          assert (Hin : In x (map q_name fas)).
          { unfold nfas in Hx. apply in_map_iff in Hx. destruct Hx as [q [<- Hq]]. apply filter_In in Hq.
            apply in_map. apply Hq. }
          specialize (Hbf x Hin). lia. }
        pose proof (lift_both q_e1 s1 rc rc1 fas nfas tfas st1 a1 args S
                      (IH1 _ _ _ _ _ _ _ E1 Hs1 Hnb1 Ha1 Hb1 Hds1') Hm1 (Hev q_e1) Hsub1 Hd1) as SP1.
        pose proof (lift_both q_e2 s2 rc rc2 fas nfas tfas st2 a2 args S
                      (IH2 _ _ _ _ _ _ _ E2 Hs2 Hnb2 Ha2 (below_le _ _ _ K1 Hb2) Hds2') Hm2 (Hev q_e2) Hsub2 Hd2) as SP2.
        assert (Htgt : forall en' tr, exec_list (exec w c' lf') [SIf cnd st1 st2 (nfas ++ tfas)] en' tr =
                  match cond (eval w en' cnd) with
                  | None => RFail FStuck
                  | Some true => bindR (exec_list (exec w c' lf') st1 en' tr) (fun e t => RNext (bind_g w q_e1 (nfas ++ tfas) e) t)
                  | Some false => bindR (exec_list (exec w c' lf') st2 en' tr) (fun e t => RNext (bind_g w q_e2 (nfas ++ tfas) e) t)
                  end).
        { intros en' tr. rewrite exec_list_single. unfold bindR. simpl. destruct (cond (eval w en' cnd)) as [[|]|]; reflexivity. }
        intros en en' tr A Hn. rewrite Hsrc in Hn |- *. rewrite Htgt in Hn |- *.
        rewrite <- (eval_agree w S en en' cnd Hcnd A) in Hn |- *.
        destruct (cond (eval w en cnd)) as [[|]|].
        * apply (SP1 en en' tr A Hn).
        * apply (SP2 en en' tr A Hn).
        * right. right. exists FStuck. split; reflexivity.
      + (* only the first branch ends in a tail call *)
        inversion H; subst; clear H.
        destruct (ds_ok_app _ _ Hds) as [Hd1 Hds1].
        pose proof (lift_spec q_e1 s1 rc rc1 fas (exec_list (exec w c' lf') st1) args S
                      (IH1 _ _ _ _ _ _ _ E1 Hs1 Hnb1 Ha1 Hb1 Hds1) Hsub1 Hd1) as SP1.
        assert (Htgt : forall en' tr,
                  exec_list (exec w c' lf') (SSIf cnd true (s2 ++ [SBreak (brk_expr (find (is_rc rc) fas) q_e2)]) :: st1) en' tr =
                  match cond (eval w en' cnd) with
                  | None => RFail FStuck
                  | Some true => exec_list (exec w c' lf') st1 en' tr
                  | Some false => bindR (exec_list (exec w c' lf') (s2 ++ [SBreak (brk_expr (find (is_rc rc) fas) q_e2)]) en' tr)
                                        (exec_list (exec w c' lf') st1)
                  end).
        { intros en' tr. unfold bindR. cbn [exec_list exec]. destruct (cond (eval w en' cnd)) as [[|]|]; reflexivity. }
        intros en en' tr A Hn. unfold brk_expr in Htgt. rewrite Hsrc in Hn |- *. rewrite Htgt in Hn |- *.
        rewrite <- (eval_agree w S en en' cnd Hcnd A) in Hn |- *.
        destruct (cond (eval w en cnd)) as [[|]|].
        * apply (SP1 en en' tr A Hn).
        * pose proof (prem_r _ _ _ Hn) as Hn2.
          destruct (brk_spec q_e2 s2 rc rc2 fas S en en' tr Hs2 Hnb2 (brk_in_scope rc fas q_e2 _ Hf2) Hsub2 A Hn2)
            as [[en2 [tr1 [en1' [v [Hr [Ht Hb]]]]]]|[o [Hr Ht]]].
          -- right. left. exists en2, tr1, en1', v. unfold brk_expr in Ht. rewrite Ht. repeat split; assumption.
          -- right. right. exists o. unfold brk_expr in Ht. rewrite Ht. split; [assumption|reflexivity].
        * right. right. exists FStuck. split; reflexivity.
      + (* only the second branch ends in a tail call *)
        inversion H; subst; clear H.
        destruct (ds_ok_app _ _ Hds) as [Hd2 Hds2].
        pose proof (lift_spec q_e2 s2 rc rc2 fas (exec_list (exec w c' lf') st2) args S
                      (IH2 _ _ _ _ _ _ _ E2 Hs2 Hnb2 Ha2 (below_le _ _ _ K1 Hb2) Hds2) Hsub2 Hd2) as SP2.
        assert (Htgt : forall en' tr,
                  exec_list (exec w c' lf') (SSIf cnd false (s1 ++ [SBreak (brk_expr (find (is_rc rc) fas) q_e1)]) :: st2) en' tr =
                  match cond (eval w en' cnd) with
                  | None => RFail FStuck
                  | Some true => bindR (exec_list (exec w c' lf') (s1 ++ [SBreak (brk_expr (find (is_rc rc) fas) q_e1)]) en' tr)
                                       (exec_list (exec w c' lf') st2)
                  | Some false => exec_list (exec w c' lf') st2 en' tr
                  end).
        { intros en' tr. unfold bindR. cbn [exec_list exec]. destruct (cond (eval w en' cnd)) as [[|]|]; reflexivity. }
        intros en en' tr A Hn. unfold brk_expr in Htgt. rewrite Hsrc in Hn |- *. rewrite Htgt in Hn |- *.
        rewrite <- (eval_agree w S en en' cnd Hcnd A) in Hn |- *.
        destruct (cond (eval w en cnd)) as [[|]|].
        * pose proof (prem_r _ _ _ Hn) as Hn2.
          destruct (brk_spec q_e1 s1 rc rc1 fas S en en' tr Hs1 Hnb1 (brk_in_scope rc fas q_e1 _ Hf1) Hsub1 A Hn2)
            as [[en2 [tr1 [en1' [v [Hr [Ht Hb]]]]]]|[o [Hr Ht]]].
          -- right. left. exists en2, tr1, en1', v. unfold brk_expr in Ht. rewrite Ht. repeat split; assumption.
          -- right. right. exists o. unfold brk_expr in Ht. rewrite Ht. split; [assumption|reflexivity].
        * apply (SP2 en en' tr A Hn).
        * right. right. exists FStuck. split; reflexivity.
    - (* cons *)
      intros s r IHs IHr rc k ss' args ds k' S H Hs Hnb Ha Hbel Hds. rewrite rw_stmts_cons in H.
      simpl in Hs, Hnb, Ha. apply andb_true_iff in Hs. destruct Hs as [Hs Hsr].
      apply andb_true_iff in Hnb. destruct Hnb as [Hnb Hnbr]. apply andb_true_iff in Ha. destruct Ha as [Ha Har].
      destruct r as [|s2 r].
      + intros en en' tr A Hn. rewrite exec_list_single in Hn |- *.
        eapply IHs; eauto. intros x Hx. apply Hbel. simpl. rewrite app_nil_r. exact Hx.
      + destruct (rw_stmts false fname ptys (s2 :: r) rc k) as [[[[st a] d]|] k0] eqn:E; [|discriminate].
        inversion H; subst; clear H.
        assert (Hbr : below k (binders_l (s2 :: r))).
        { intros x Hx. apply Hbel. simpl. apply in_or_app. right. exact Hx. }
        pose proof (IHr _ _ _ _ _ _ (defs s ++ S) E Hsr Hnbr Har Hbr Hds) as SPr.
        intros en en' tr A Hn.
        change (exec_list (exec w c lf) (s :: s2 :: r) en tr) with
          (bindR (exec w c lf s en tr) (exec_list (exec w c lf) (s2 :: r))) in *.
        change (exec_list (exec w c' lf') (s :: st) en' tr) with
          (bindR (exec w c' lf' s en' tr) (exec_list (exec w c' lf') st)) in *.
        pose proof (prem_b _ _ _ _ Hn) as Hn1.
        pose proof (sim_s s S en en' tr Hs A Hn1) as Hsim.
        destruct (exec w c lf s en tr) as [en1 tr1|v en1 tr1|o] eqn:Es.
        * destruct (exec w c' lf' s en' tr) as [en1' tr1'|v' en1' tr1'|o']; simpl in Hsim; try contradiction.
          destruct Hsim as [<- A1]. apply (SPr en1 en1' tr1 A1 Hn).
        * exfalso. eapply (proj1 (no_break_both w c lf)); eauto.
        * destruct (exec w c' lf' s en' tr) as [en1' tr1'|v' en1' tr1'|o']; simpl in Hsim; try contradiction.
          subst o'. right. right. exists o. split; reflexivity.
  Qed.
End RwSim.

(* the two uses: the source run is not out of fuel (callees of the target refine those of the source), and the
   target run is not out of fuel (callees of the source refine those of the target) *)
Definition prem_fwd (R R' : res) : Prop := R <> RFail FOof.
Definition prem_rev (R R' : res) : Prop := R' <> RFail FOof.

Lemma bindR_oof R k : bindR R k <> RFail FOof -> R <> RFail FOof.
Proof. intros H E. subst. apply H. reflexivity. Qed.

Definition rw_sim_fwd w c c' lf lf' fname ptys (Hc : crefines c c') (Hlf : (lf <= lf')%nat) :=
  rw_sim_both w c c' lf lf' fname ptys prem_fwd
    (fun R R' k H => bindR_oof R k H) (fun R R' k' H => H) (fun R R' k k' H => bindR_oof R k H)
    (fun s S en en' tr Hs A H => proj1 (exec_sim_both w c c' lf lf' Hc Hlf) s S en en' tr Hs A H)
    (fun ss S en en' tr Hs A H => proj2 (exec_sim_both w c c' lf lf' Hc Hlf) ss S en en' tr Hs A H).

Definition rw_sim_rev w c c' lf lf' fname ptys (Hc : crefines c' c) (Hlf : (lf' <= lf)%nat) :=
  rw_sim_both w c c' lf lf' fname ptys prem_rev
    (fun R R' k H => H) (fun R R' k' H => bindR_oof R' k' H) (fun R R' k k' H => bindR_oof R' k' H)
    (fun s S en en' tr Hs A H => rsim_sym _ _ _ _ (proj1 (exec_sim_both w c' c lf' lf Hc Hlf) s S en' en tr Hs (agree_sym _ _ _ A) H))
    (fun ss S en en' tr Hs A H => rsim_sym _ _ _ _ (proj2 (exec_sim_both w c' c lf' lf Hc Hlf) ss S en' en tr Hs (agree_sym _ _ _ A) H)).

(* ---------- a function whose return value passes `ret_const` returns 0 only ---------- *)
Lemma is_zero_eq e : is_zero e = true -> e = EInt 0.
Proof.
  unfold is_zero. destruct e; simpl; try discriminate. intro H. apply Z.eqb_eq in H. subst. reflexivity.
Qed.

Lemma eval_zero w en : eval w en (EInt 0) = 0.
Proof. reflexivity. Qed.

Lemma last_of_cons {A} (d : A) f s r : last_of d f (s :: r) = match r with [] => f s | _ :: _ => last_of d f r end.
Proof. reflexivity. Qed.

Section RetConst.
  Variable w : world.
  Variable c : callf_t.
  Variable lf : nat.
  Variable fname : N.
  Hypothesis Hret : forall vs tr v tr2, c fname vs tr = CRet v tr2 -> wrap32 v = 0.

  Lemma rcst_sound_both :
    (forall s e en tr en2 tr2, rcst fname s e = true -> exec w c lf s en tr = RNext en2 tr2 -> eval w en2 e = 0) /\
    (forall ss e en tr en2 tr2, last_of (is_zero e) (fun s => rcst fname s e) ss = true ->
        exec_list (exec w c lf) ss en tr = RNext en2 tr2 -> eval w en2 e = 0).
  Proof.
    apply stmt_stmts_ind2.
    1-3, 6-12: (intros; match goal with H : rcst _ _ ?e = true |- _ => simpl in H; destruct (as_var e) eqn:Ev;
                 [discriminate | apply is_zero_eq in H; subst; reflexivity] end).
    - (* SCall *) intros cl args rty ret e en tr en2 tr2 H He. simpl in H. destruct (as_var e) as [x|] eqn:Ev.
      + destruct (as_var_some _ _ Ev) as [t ->]. destruct cl as [g atys frty|y ty]; [|discriminate].
        destruct ret as [r|]; [|discriminate]. apply andb_true_iff in H. destruct H as [Hg Hr].
        apply N.eqb_eq in Hg. apply N.eqb_eq in Hr. subst. simpl in He.
        destruct (c fname (map (eval w en) args) tr) as [v tr'|o] eqn:Ec; [|discriminate].
        inversion He; subst. unfold eval. simpl. rewrite N.eqb_refl. eapply Hret; eauto.
      + apply is_zero_eq in H. subst. reflexivity.
    - (* SIf *) intros cnd s1 s2 fas IH1 IH2 e en tr en2 tr2 H He. simpl in H. destruct (as_var e) as [x|] eqn:Ev.
      + destruct (as_var_some _ _ Ev) as [t ->].
        destruct (find (is_rc (Some x)) fas) as [q|] eqn:Ef; [|discriminate].
        apply andb_true_iff in H. destruct H as [H1 H2]. simpl in He.
        destruct (cond (eval w en cnd)) as [[|]|]; [| |discriminate].
        * destruct (exec_list (exec w c lf) s1 en tr) as [en1 tr1| |] eqn:E1; try discriminate.
          inversion He; subst. unfold eval. change (bind_e1 w fas en1) with (bind_g w q_e1 fas en1).
          rewrite (lookup_bind_find w q_e1 x fas q en1 Ef). rewrite eval_wrapped. eapply IH1; eauto.
        * destruct (exec_list (exec w c lf) s2 en tr) as [en1 tr1| |] eqn:E1; try discriminate.
          inversion He; subst. unfold eval. change (bind_e2 w fas en1) with (bind_g w q_e2 fas en1).
          rewrite (lookup_bind_find w q_e2 x fas q en1 Ef). rewrite eval_wrapped. eapply IH2; eauto.
      + apply is_zero_eq in H. subst. reflexivity.
    - (* nil *) intros e en tr en2 tr2 H _. simpl in H. apply is_zero_eq in H. subst. reflexivity.
    - (* cons *) intros s r IHs IHr e en tr en2 tr2 H He. rewrite last_of_cons in H. destruct r as [|s2 r].
      + rewrite exec_list_single in He. eapply IHs; eauto.
      + change (exec_list (exec w c lf) (s :: s2 :: r) en tr) with
          (match exec w c lf s en tr with RNext e0 t => exec_list (exec w c lf) (s2 :: r) e0 t | o => o end) in He.
        destruct (exec w c lf s en tr) as [en1 tr1| |]; try discriminate. eapply IHr; eauto.
  Qed.
End RetConst.

Lemma ret_const_sound w P fn :
  find_func P (f_name fn) = Some fn -> ret_const fn = true ->
  forall n vs tr v tr2, call w P n (f_name fn) vs tr = CRet v tr2 -> v = 0.
Proof.
  intros Hf Hr n. induction n as [|n IH]; intros vs tr v tr2 H; [discriminate|].
  simpl in H. rewrite Hf in H. unfold run_body in H.
  destruct (negb (length vs =? length (f_params fn))%nat); [discriminate|].
  unfold exec_block in H.
  destruct (exec_list (exec w (call w P n) (S n)) (f_body fn) (init_env fn vs) tr) as [en2 tr'| |] eqn:E; try discriminate.
  inversion H; subst.
  assert (H0 : forall vs0 tr0 v0 tr3, call w P n (f_name fn) vs0 tr0 = CRet v0 tr3 -> wrap32 v0 = 0).
  { intros vs0 tr0 v0 tr3 Hc. rewrite (IH _ _ _ _ Hc). reflexivity. }
  eapply (proj2 (rcst_sound_both w (call w P n) (S n) (f_name fn) H0)); [exact Hr|exact E].
Qed.

(* ---------- results of calls ---------- *)
Lemma call_ret_wrapped w P fn n vs tr v tr2 :
  find_func P (f_name fn) = Some fn -> call w P n (f_name fn) vs tr = CRet v tr2 -> wrap32 v = v.
Proof.
  intros Hf H. destruct n as [|n]; [discriminate|]. simpl in H. rewrite Hf in H. unfold run_body in H.
  destruct (negb (length vs =? length (f_params fn))%nat); [discriminate|].
  destruct (exec_block w (call w P n) (S n) (f_body fn) (init_env fn vs) tr); try discriminate.
  inversion H; subst. apply eval_wrapped.
Qed.

Lemma call_ret_lit w P fn n vs tr v tr2 en :
  find_func P (f_name fn) = Some fn -> as_var (f_ret fn) = None ->
  call w P n (f_name fn) vs tr = CRet v tr2 -> v = eval w en (f_ret fn).
Proof.
  intros Hf Hl H. destruct n as [|n]; [discriminate|]. simpl in H. rewrite Hf in H. unfold run_body in H.
  destruct (negb (length vs =? length (f_params fn))%nat); [discriminate|].
  destruct (exec_block w (call w P n) (S n) (f_body fn) (init_env fn vs) tr); try discriminate.
  inversion H; subst. apply eval_lit. exact Hl.
Qed.

(* ---------- the loop version of a function ---------- *)
Definition lrun (w : world) (cf : callf_t) (lf : nat) (lvs : list quad) (stmts : list stmt) (bc : option (name * ty))
           (ret : expr) (m : nat) (en : env) (tr : trace) : cres :=
  match loop (exec_list (exec w cf lf) stmts) (bind_e2 w lvs) m en tr with
  | RBreak v en1 tr1 => CRet (eval w (bind_bc bc v en1) ret) tr1
  | RNext _ _ => CFail FStuck
  | RFail o => CFail o
  end.

Lemma lrun_mono w cf cf' lf lf' lvs stmts bc ret m m' en tr :
  crefines cf cf' -> (lf <= lf')%nat -> (m <= m')%nat ->
  lrun w cf lf lvs stmts bc ret m en tr <> CFail FOof ->
  lrun w cf' lf' lvs stmts bc ret m' en tr = lrun w cf lf lvs stmts bc ret m en tr.
Proof.
  intros Hc Hlf Hm H. unfold lrun in *.
  rewrite (loop_mono lf lf' Hlf (exec_list (exec w cf lf) stmts) (exec_list (exec w cf' lf') stmts) (bind_e2 w lvs)
             (fun en0 tr0 => exec_list_mono w cf cf' lf lf' Hc Hlf stmts en0 tr0) m m' en tr Hm); [reflexivity|].
  intro E. rewrite E in H. congruence.
Qed.

Lemma lrun_S w cf lf lvs stmts bc ret m en tr :
  lrun w cf lf lvs stmts bc ret (S m) en tr =
  match exec_list (exec w cf lf) stmts en tr with
  | RNext en1 tr1 => lrun w cf lf lvs stmts bc ret m (bind_e2 w lvs en1) tr1
  | RBreak v en1 tr1 => CRet (eval w (bind_bc bc v en1) ret) tr1
  | RFail o => CFail o
  end.
Proof. unfold lrun. simpl. destruct (exec_list (exec w cf lf) stmts en tr); reflexivity. Qed.

Lemma run_loop_fn w cf lf nm ps atys rty lvs stmts bc ret vs tr :
  run_body w cf lf (mkfunc nm ps atys rty [SWhile lvs stmts bc] ret) vs tr =
  if negb (length vs =? length ps)%nat then CFail FStuck
  else lrun w cf lf lvs stmts bc ret lf (bind_e1 w lvs (combine ps vs)) tr.
Proof.
  unfold run_body, exec_block, init_env, lrun. simpl f_params. simpl f_body. simpl f_ret.
  destruct (negb (length vs =? length ps)%nat); [reflexivity|].
  rewrite exec_list_single. simpl.
  destruct (loop (exec_list (exec w cf lf) stmts) (bind_e2 w lvs) lf (bind_e1 w lvs (combine ps vs)) tr) as [en1 tr1|v en1 tr1|o];
    reflexivity.
Qed.

Lemma mk_lvs_spec tp ps ts args :
  length ts = length ps -> length args = length ps ->
  map q_name (mk_lvs tp ps ts args) = ps /\ map q_e2 (mk_lvs tp ps ts args) = args /\
  (forall w en, map (fun q => eval w en (q_e1 q)) (mk_lvs tp ps ts args) = map (fun p => wrap32 (lookup (tp p) en)) ps).
Proof.
  revert ts args. induction ps as [|p ps IH]; intros ts args L1 L2.
  - destruct ts; [|discriminate]. destruct args; [|discriminate]. simpl. repeat split; reflexivity.
  - destruct ts as [|t ts]; [discriminate|]. destruct args as [|a args]; [discriminate|]. simpl in *.
    destruct (IH ts args) as [H1 [H2 H3]]; try lia. repeat split; try (f_equal; assumption).
    intros w en. simpl. f_equal. apply H3.
Qed.

Lemma lookup_combine_map (h : name -> Z) ps x : In x ps -> lookup x (combine ps (map h ps)) = h x.
Proof.
  induction ps as [|p ps IH]; simpl; [intros []|]. intros H. destruct (N.eqb x p) eqn:E.
  - apply N.eqb_eq in E. subst. reflexivity.
  - destruct H as [->|H]; [rewrite N.eqb_refl in E; discriminate|]. apply IH. exact H.
Qed.

Lemma lookup_tp tp ps vs x :
  nodupb (map tp ps) = true -> In x ps -> lookup (tp x) (combine (map tp ps) vs) = lookup x (combine ps vs).
Proof.
  revert vs. induction ps as [|p ps IH]; intros vs Hn Hx; [destruct Hx|].
  destruct vs as [|v vs]; [reflexivity|]. simpl in *. apply andb_true_iff in Hn. destruct Hn as [Hp Hn].
  destruct (N.eqb x p) eqn:E.
  - apply N.eqb_eq in E. subst. rewrite N.eqb_refl. reflexivity.
  - destruct Hx as [->|Hx]; [rewrite N.eqb_refl in E; discriminate|].
    destruct (N.eqb (tp x) (tp p)) eqn:E2.
    + apply N.eqb_eq in E2. apply negb_true_iff in Hp. apply memb_false_In in Hp. exfalso. apply Hp.
      rewrite <- E2. apply in_map. exact Hx.
    + apply IH; assumption.
Qed.

Lemma agree_start w tp ps ts args vs :
  nodupb (map tp ps) = true -> length ts = length ps -> length args = length ps -> length vs = length ps ->
  agree ps (combine ps vs) (bind_e1 w (mk_lvs tp ps ts args) (combine (map tp ps) vs)).
Proof.
  intros Hn L1 L2 L3 x Hx. apply memb_In in Hx. unfold bind_e1.
  destruct (mk_lvs_spec tp ps ts args L1 L2) as [H1 [_ H3]]. rewrite H1, H3.
  rewrite lookup_app_l.
  - rewrite (lookup_combine_map (fun p => wrap32 (lookup (tp p) (combine (map tp ps) vs))) ps x Hx).
    rewrite wrap32_idem. rewrite (lookup_tp tp ps vs x Hn Hx). reflexivity.
  - rewrite map_fst_combine by (rewrite map_length; reflexivity). apply memb_In. exact Hx.
Qed.

Lemma agree_next w tp ps ts args vs en1 :
  length ts = length ps -> length args = length ps -> map (eval w en1) args = vs ->
  agree ps (combine ps vs) (bind_e2 w (mk_lvs tp ps ts args) en1).
Proof.
  intros L1 L2 Hv x Hx. unfold bind_e2.
  destruct (mk_lvs_spec tp ps ts args L1 L2) as [H1 [H2 _]]. rewrite H1.
  replace (map (fun q => eval w en1 (q_e2 q)) (mk_lvs tp ps ts args)) with vs.
  - rewrite lookup_app_l; [reflexivity|].
    rewrite map_fst_combine; [exact Hx|]. rewrite <- Hv. rewrite map_length. lia.
  - rewrite <- Hv, <- H2 at 1. rewrite map_map. reflexivity.
Qed.

(* ---------- the theorem ---------- *)
Definition bc_of (rc0 : option name) (fn : func) : option (name * ty) :=
  match rc0 with Some x => Some (x, f_rty fn) | None => None end.

Lemma belowb_below k l : belowb k l = true -> below k l.
Proof.
  unfold belowb, below. intros H x Hx. rewrite forallb_forall in H. specialize (H x Hx). apply N.ltb_lt in H. exact H.
Qed.

Lemma top_rc_some fn x : top_rc fn = Some (Some x) -> exists t, f_ret fn = EVar x t.
Proof. unfold top_rc. destruct (f_ret fn); try discriminate. intro H. inversion H. eexists. reflexivity. Qed.

Lemma top_rc_none fn : top_rc fn = Some None -> as_var (f_ret fn) = None.
Proof. unfold top_rc. destruct (f_ret fn); try discriminate; reflexivity. Qed.

Section Main.
  Variable w : world.
  Variable tp : name -> name.

  (* f' is f, or the rewrite of a function that satisfies the side conditions *)
  Definition fn_rewritten (f f' : func) : Prop :=
    f' = f \/ exists k, wf_tail tp k f = true /\ f' = tail_rec_rewrite false tp k f.

  Lemma rewrite_name k f : f_name (tail_rec_rewrite false tp k f) = f_name f.
  Proof.
    unfold tail_rec_rewrite. destruct (top_rc f); [|reflexivity].
    destruct (fst (rw_stmts false (f_name f) (f_atys f) (f_body f) o k)) as [[[a b] d]|]; reflexivity.
  Qed.

  Lemma find_rewritten_gen P P' g :
    Forall2 fn_rewritten P P' ->
    match find_func P g with
    | None => find_func P' g = None
    | Some fn => exists fn', find_func P' g = Some fn' /\ fn_rewritten fn fn'
    end.
  Proof.
    intro HP. induction HP as [|f f' l l' Hf Hl IH]; simpl; [reflexivity|].
    assert (Hn : f_name f' = f_name f).
    { destruct Hf as [->|[k [_ ->]]]; [reflexivity|apply rewrite_name]. }
    rewrite Hn. destruct (N.eqb (f_name f) g).
    - exists f'. split; [reflexivity|exact Hf].
    - exact IH.
  Qed.

  Variables P P' : program.
  Hypothesis HP : Forall2 fn_rewritten P P'.

  Lemma find_rewritten g :
    match find_func P g with
    | None => find_func P' g = None
    | Some fn => exists fn', find_func P' g = Some fn' /\ fn_rewritten fn fn'
    end.
  Proof. apply find_rewritten_gen. exact HP. Qed.

  Definition LoopClaim (n : nat) : Prop :=
    forall fn k rc0 stmts args ds k',
      find_func P (f_name fn) = Some fn -> wf_tail tp k fn = true -> top_rc fn = Some rc0 ->
      rw_stmts false (f_name fn) (f_atys fn) (f_body fn) rc0 k = (Some (stmts, args, ds), k') ->
      forall vs tr en', length vs = length (f_params fn) ->
        agree (f_params fn) (combine (f_params fn) vs) en' ->
        call w P n (f_name fn) vs tr <> CFail FOof ->
        lrun w (call w P' (pred n)) n (mk_lvs tp (f_params fn) (f_atys fn) args) stmts (bc_of rc0 fn) (f_ret fn) n en' tr
        = call w P n (f_name fn) vs tr.

  Lemma loop_claim_step m :
    crefines (call w P m) (call w P' m) -> LoopClaim m -> LoopClaim (S m).
  Proof.
    intros IHc IHl fn k rc0 stmts args ds k' Hfind Hwf Htop Hrw vs tr en' Hlen A Hn.
    unfold wf_tail in Hwf.
    apply andb_true_iff in Hwf. destruct Hwf as [Hwf Htok].
    apply andb_true_iff in Hwf. destruct Hwf as [Hwf Htp].
    apply andb_true_iff in Hwf. destruct Hwf as [Hwf Hbel].
    apply andb_true_iff in Hwf. destruct Hwf as [Hwf Har].
    unfold wf_func in Hwf.
    apply andb_true_iff in Hwf. destruct Hwf as [Hwf Hnb].
    apply andb_true_iff in Hwf. destruct Hwf as [Hwf Hret].
    apply andb_true_iff in Hwf. destruct Hwf as [Hwf Hsc].
    apply andb_true_iff in Hwf. destruct Hwf as [Hnd Hlt]. apply Nat.eqb_eq in Hlt.
    rewrite <- Hlt in Har.
    assert (Largs : length args = length (f_params fn)).
    { rewrite <- Hlt. eapply (proj2 (rw_len_both (f_name fn) (f_atys fn))); eauto. }
    (* discarded results *)
    assert (Hds : ds_ok (call w P m) (f_name fn) ds).
    { unfold tail_ok in Htok. rewrite Htop, Hrw in Htok. simpl in Htok.
      apply andb_true_iff in Htok. destruct Htok as [Hz Hrc]. intros e He. split.
      - rewrite forallb_forall in Hz. apply is_zero_eq. apply Hz. exact He.
      - destruct ds as [|d0 ds0]; [destruct He|]. intros vs0 tr0 v0 tr2 Hcall.
        rewrite (ret_const_sound w P fn Hfind Hrc m _ _ _ _ Hcall). reflexivity. }
    pose proof (proj2 (rw_sim_fwd w (call w P m) (call w P' m) (S m) (S m) (f_name fn) (f_atys fn) IHc (le_n _))
                  (f_body fn) rc0 k stmts args ds k' (f_params fn) Hrw Hsc Hnb Har (belowb_below _ _ Hbel) Hds) as SP.
    (* the source *)
    simpl pred. simpl in Hn |- *. rewrite Hfind in Hn |- *. unfold run_body in Hn |- *.
    rewrite Hlen, Nat.eqb_refl in Hn |- *. simpl negb in Hn |- *. cbv iota in Hn |- *. unfold exec_block, init_env in Hn |- *.
    rewrite lrun_S.
    assert (Hn1 : exec_list (exec w (call w P m) (S m)) (f_body fn) (combine (f_params fn) vs) tr <> RFail FOof).
    { intro E. rewrite E in Hn. congruence. }
    destruct (SP _ en' tr A Hn1) as [[en1' [tr1 [Ht Hm]]]|[[en2 [tr1 [en1' [v [Hr [Ht Hb]]]]]]|[o [Hr Ht]]]].
    - (* the tail call is reached: one iteration, then the rest of the loop is the loop version of the callee *)
      rewrite Ht.
      set (vs1 := map (eval w en1') args) in *.
      assert (Lvs1 : length vs1 = length (f_params fn)) by (unfold vs1; rewrite map_length; exact Largs).
      assert (Hcall : call w P m (f_name fn) vs1 tr1 <> CFail FOof).
      { intro E. rewrite E in Hm. rewrite Hm in Hn. congruence. }
      pose proof (agree_next w tp (f_params fn) (f_atys fn) args vs1 en1' Hlt Largs eq_refl) as A1.
      pose proof (IHl fn k rc0 stmts args ds k' Hfind
                    ltac:(unfold wf_tail, wf_func; rewrite Hnd, Hlt, Nat.eqb_refl, Hsc, Hret, Hnb, Hbel, Htp, Htok; rewrite <- Hlt, Har; reflexivity)
                    Htop Hrw vs1 tr1 _ Lvs1 A1 Hcall) as IH.
      rewrite (lrun_mono w (call w P' (pred m)) (call w P' m) m (S m) _ stmts _ _ m m _ tr1).
      + rewrite IH.
        destruct (call w P m (f_name fn) vs1 tr1) as [v tr2|o] eqn:Ec.
        * destruct Hm as [en2 [Hr Hv]]. rewrite Hr. f_equal.
          destruct rc0 as [r|].
          -- destruct (top_rc_some _ _ Htop) as [t ->]. simpl in Hv. unfold eval. rewrite Hv.
             symmetry. eapply call_ret_wrapped; eauto.
          -- eapply call_ret_lit; eauto. apply top_rc_none. exact Htop.
        * rewrite Hm. reflexivity.
      + apply call_mono. lia.
      + lia.
      + lia.
      + rewrite IH. exact Hcall.
    - (* the loop is left *)
      rewrite Ht, Hr. f_equal.
      destruct rc0 as [r|].
      + destruct (top_rc_some _ _ Htop) as [t ->]. simpl in Hb. unfold eval, bind_bc, bc_of. simpl. rewrite N.eqb_refl.
        rewrite Hb. rewrite wrap32_idem. reflexivity.
      + simpl. apply eval_lit. apply top_rc_none. exact Htop.
    - rewrite Ht, Hr. reflexivity.
  Qed.

  Lemma call_refines_step m :
    crefines (call w P m) (call w P' m) -> LoopClaim (S m) -> crefines (call w P (S m)) (call w P' (S m)).
  Proof.
    intros IHc HL g vs tr Hn.
    pose proof (find_rewritten g) as Hfr.
    change (call w P' (S m) g vs tr) with
      (match find_func P' g with None => call_ext w g vs tr | Some fn => run_body w (call w P' m) (S m) fn vs tr end).
    change (call w P (S m) g vs tr) with
      (match find_func P g with None => call_ext w g vs tr | Some fn => run_body w (call w P m) (S m) fn vs tr end) in Hn |- *.
    destruct (find_func P g) as [fn|] eqn:Hfind; [|rewrite Hfr; reflexivity].
    destruct Hfr as [fn' [Hf' Hrw]]. rewrite Hf'.
    assert (Hsame : run_body w (call w P' m) (S m) fn vs tr = run_body w (call w P m) (S m) fn vs tr).
    { apply run_body_mono; [exact IHc | lia | exact Hn]. }
    destruct Hrw as [->|[k [Hwf ->]]]; [exact Hsame|].
    unfold tail_rec_rewrite. destruct (top_rc fn) as [rc0|] eqn:Htop; [|exact Hsame].
    destruct (rw_stmts false (f_name fn) (f_atys fn) (f_body fn) rc0 k) as [[[[stmts args] ds]|] k'] eqn:Hrw; simpl fst; [|exact Hsame].
    (* the loop version *)
    assert (Hg : f_name fn = g).
    { clear - Hfind. induction P as [|f l IH]; simpl in Hfind; [discriminate|].
      destruct (N.eqb (f_name f) g) eqn:E; [inversion Hfind; subst; apply N.eqb_eq; exact E | apply IH; exact Hfind]. }
    cbv iota beta. rewrite run_loop_fn. rewrite map_length.
    destruct (negb (length vs =? length (f_params fn))%nat) eqn:Hlen.
    { unfold run_body. rewrite Hlen. reflexivity. }
    apply negb_false_iff in Hlen. apply Nat.eqb_eq in Hlen.
    pose proof Hwf as Hwf0. unfold wf_tail in Hwf.
    apply andb_true_iff in Hwf. destruct Hwf as [Hwf Htok].
    apply andb_true_iff in Hwf. destruct Hwf as [Hwf Htp].
    apply andb_true_iff in Hwf. destruct Hwf as [Hwf Hbel].
    apply andb_true_iff in Hwf. destruct Hwf as [Hwf Har].
    unfold wf_func in Hwf.
    apply andb_true_iff in Hwf. destruct Hwf as [Hwf Hnb].
    apply andb_true_iff in Hwf. destruct Hwf as [Hwf Hret].
    apply andb_true_iff in Hwf. destruct Hwf as [Hwf Hsc].
    apply andb_true_iff in Hwf. destruct Hwf as [Hnd Hlt]. apply Nat.eqb_eq in Hlt.
    assert (Largs : length args = length (f_params fn)).
    { rewrite <- Hlt. eapply (proj2 (rw_len_both (f_name fn) (f_atys fn))); eauto. rewrite Hlt. exact Har. }
    subst g.
    pose proof (HL fn k rc0 stmts args ds k' Hfind Hwf0 Htop Hrw vs tr _ Hlen
                  (agree_start w tp (f_params fn) (f_atys fn) args vs Htp Hlt Largs Hlen)) as HLL.
    simpl pred in HLL. unfold bc_of in HLL.
    assert (Hcs : call w P (S m) (f_name fn) vs tr = run_body w (call w P m) (S m) fn vs tr).
    { simpl. rewrite Hfind. reflexivity. }
    rewrite HLL; [exact Hcs | rewrite Hcs; exact Hn].
  Qed.

  Theorem tailrec_refines n : crefines (call w P n) (call w P' n) /\ LoopClaim n.
  Proof.
    induction n as [|n [IHc IHl]].
    - split.
      + intros f vs tr H. simpl in H. congruence.
      + intros fn k rc0 stmts args ds k' _ _ _ _ vs tr en' _ _ H. simpl in H. congruence.
    - pose proof (loop_claim_step n IHc IHl) as HL. split; [|exact HL].
      apply call_refines_step; assumption.
  Qed.
End Main.

Lemma not_rewritable tp k f : rewritable k f = false -> tail_rec_rewrite false tp k f = f.
Proof.
  unfold rewritable, tail_rec_rewrite. destruct (top_rc f) as [rc|]; [|reflexivity].
  destruct (fst (rw_stmts false (f_name f) (f_atys f) (f_body f) rc k)) as [[[a b] d]|]; [discriminate|reflexivity].
Qed.

Lemma tail_rec_program_rewritten tp k P :
  wf_tail_program tp k P = true -> Forall2 (fn_rewritten tp) P (tail_rec_program false tp k P).
Proof.
  revert k. induction P as [|f r IH]; intros k H; simpl; [constructor|].
  simpl in H. apply andb_true_iff in H. destruct H as [H1 H2]. constructor; [|apply IH; exact H2].
  apply orb_true_iff in H1. destruct H1 as [H1|H1].
  - left. apply (not_rewritable tp). apply negb_true_iff in H1. exact H1.
  - right. exists k. split; [exact H1|reflexivity].
Qed.

(* the statement at the level of observable behaviour *)
Theorem tailrec_preserves_rel w tp P P' :
  Forall2 (fn_rewritten tp) P P' ->
  forall f args fuel, sem w P f args fuel <> OutOfFuel -> sem w P' f args fuel = sem w P f args fuel.
Proof.
  intros HP f args fuel H. unfold sem in *.
  rewrite (proj1 (tailrec_refines w tp P P' HP fuel) f args [] (outcome_oof _ H)). reflexivity.
Qed.

Theorem tailrec_preserves w tp k P :
  wf_tail_program tp k P = true ->
  forall f args fuel, sem w P f args fuel <> OutOfFuel ->
    sem w (tail_rec_program false tp k P) f args fuel = sem w P f args fuel.
Proof. intro H. apply (tailrec_preserves_rel w tp). apply tail_rec_program_rewritten. exact H. Qed.
