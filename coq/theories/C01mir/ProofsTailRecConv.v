(* C01mir - the converse of ProofsTailRec.tailrec_preserves: the loop version does not terminate more often.
   Every outcome other than OutOfFuel of the REWRITTEN program at fuel n is the outcome of the ORIGINAL program at
   fuel `bnd n` (the recursive version spends one level of call depth per iteration, so it needs more fuel: at most
   n + 1 more per level of the call tree, hence a quadratic bound). *)
From Coq Require Import ZArith NArith List Bool Lia.
Import ListNotations.
From SV Require Import Common.Int32 C01mir.Syntax C01mir.Sem C01mir.TailRec C01mir.ProofsSem.
From SV Require Import C01mir.ProofsTailRec.
Open Scope Z_scope.

Fixpoint bnd (n : nat) : nat := match n with O => O | S n => bnd n + n + 2 end.

Lemma bnd_ge n : (n <= bnd n)%nat.
Proof. induction n as [|n IH]; simpl; lia. Qed.

Lemma bnd_S n : bnd (S n) = S (bnd n + S n).
Proof. simpl. lia. Qed.

Lemma crefines_trans a b c : crefines a b -> crefines b c -> crefines a c.
Proof.
  intros Hab Hbc f vs tr H. rewrite <- (Hab f vs tr H). apply Hbc. rewrite (Hab f vs tr H). exact H.
Qed.

Lemma call_S w P n g vs tr :
  call w P (S n) g vs tr =
  match find_func P g with None => call_ext w g vs tr | Some fn => run_body w (call w P n) (S n) fn vs tr end.
Proof. reflexivity. Qed.

Section Conv.
  Variable w : world.
  Variable tp : name -> name.
  Variables P P' : program.
  Hypothesis HP : Forall2 (fn_rewritten tp) P P'.

  Lemma rev_loop n :
    crefines (call w P' n) (call w P (bnd n)) ->
    forall fn k rc0 stmts args ds k',
      find_func P (f_name fn) = Some fn -> wf_tail tp k fn = true -> top_rc fn = Some rc0 ->
      rw_stmts false (f_name fn) (f_atys fn) (f_body fn) rc0 k = (Some (stmts, args, ds), k') ->
      forall m vs tr en', length vs = length (f_params fn) ->
        agree (f_params fn) (combine (f_params fn) vs) en' ->
        lrun w (call w P' n) (S n) (mk_lvs tp (f_params fn) (f_atys fn) args) stmts (bc_of rc0 fn) (f_ret fn) m en' tr <> CFail FOof ->
        call w P (S (bnd n + m)) (f_name fn) vs tr =
        lrun w (call w P' n) (S n) (mk_lvs tp (f_params fn) (f_atys fn) args) stmts (bc_of rc0 fn) (f_ret fn) m en' tr.
  Proof.
    intros IHc fn k rc0 stmts args ds k' Hfind Hwf Htop Hrw.
    unfold wf_tail in Hwf.
    apply andb_true_iff in Hwf. destruct Hwf as [Hwf Htok].
    apply andb_true_iff in Hwf. destruct Hwf as [Hwf Htp].
    apply andb_true_iff in Hwf. destruct Hwf as [Hwf Hbel].
    apply andb_true_iff in Hwf. destruct Hwf as [Hwf Har].
    unfold wf_func in Hwf.
    apply andb_true_iff in Hwf. destruct Hwf as [Hwf Hnb].
    apply andb_true_iff in Hwf. destruct Hwf as [Hwf Hret].
    apply andb_true_iff in Hwf. destruct Hwf as [Hwf Hsc].
    apply andb_true_iff in Hwf. destruct Hwf as [Hnd Hlt]. apply Nat.eqb_eq in Hlt.
    rewrite <- Hlt in Har.
    assert (Largs : length args = length (f_params fn)).
    { rewrite <- Hlt. eapply (proj2 (rw_len_both (f_name fn) (f_atys fn))); eauto. }
    assert (Hds : forall F, ds_ok (call w P F) (f_name fn) ds).
    { intro F. unfold tail_ok in Htok. rewrite Htop, Hrw in Htok. simpl in Htok.
      apply andb_true_iff in Htok. destruct Htok as [Hz Hrc]. intros e He. split.
      - rewrite forallb_forall in Hz. apply is_zero_eq. apply Hz. exact He.
      - destruct ds as [|d0 ds0]; [destruct He|]. intros vs0 tr0 v0 tr2 Hcall.
        rewrite (ret_const_sound w P fn Hfind Hrc F _ _ _ _ Hcall). reflexivity. }
    induction m as [|m IHm]; intros vs tr en' Hlen A Hn.
    - exfalso. apply Hn. reflexivity.
    - rewrite lrun_S in Hn |- *.
      assert (Hcr : crefines (call w P' n) (call w P (bnd n + S m))).
      { eapply crefines_trans; [exact IHc|]. apply call_mono. lia. }
      pose proof (proj2 (rw_sim_rev w (call w P (bnd n + S m)) (call w P' n) (S (bnd n + S m)) (S n) (f_name fn) (f_atys fn) Hcr
                          ltac:(pose proof (bnd_ge n); lia))
                    (f_body fn) rc0 k stmts args ds k' (f_params fn) Hrw Hsc Hnb Har (belowb_below _ _ Hbel) (Hds _)) as SP.
      assert (Hn1 : prem_rev (exec_list (exec w (call w P (bnd n + S m)) (S (bnd n + S m))) (f_body fn) (combine (f_params fn) vs) tr)
                             (exec_list (exec w (call w P' n) (S n)) stmts en' tr)).
      { unfold prem_rev. intro E. rewrite E in Hn. apply Hn. reflexivity. }
      rewrite call_S, Hfind. unfold run_body. rewrite Hlen, Nat.eqb_refl. simpl negb. cbv iota. unfold exec_block, init_env.
      destruct (SP _ en' tr A Hn1) as [[en1' [tr1 [Ht Hm]]]|[[en2 [tr1 [en1' [v [Hr [Ht Hb]]]]]]|[o [Hr Ht]]]].
      + (* one more iteration: the recursive version makes the tail call *)
        rewrite Ht in Hn |- *.
        set (vs1 := map (eval w en1') args) in *.
        assert (Lvs1 : length vs1 = length (f_params fn)) by (unfold vs1; rewrite map_length; exact Largs).
        pose proof (agree_next w tp (f_params fn) (f_atys fn) args vs1 en1' Hlt Largs eq_refl) as A1.
        pose proof (IHm vs1 tr1 _ Lvs1 A1 Hn) as IH.
        rewrite Nat.add_succ_r in Hm |- *. rewrite <- IH.
        destruct (call w P (S (bnd n + m)) (f_name fn) vs1 tr1) as [v tr2|o] eqn:Ec.
        * destruct Hm as [en2 [Hr Hv]]. rewrite Hr. f_equal.
          destruct rc0 as [r|].
          -- destruct (top_rc_some _ _ Htop) as [t ->]. simpl in Hv. unfold eval. rewrite Hv.
             eapply call_ret_wrapped; eauto.
          -- symmetry. eapply call_ret_lit; eauto. apply top_rc_none. exact Htop.
        * rewrite Hm. reflexivity.
      + rewrite Ht, Hr. f_equal.
        destruct rc0 as [r|].
        * destruct (top_rc_some _ _ Htop) as [t ->]. simpl in Hb. unfold eval, bind_bc, bc_of. simpl. rewrite N.eqb_refl.
          rewrite Hb. rewrite wrap32_idem. reflexivity.
        * simpl. apply eval_lit. apply top_rc_none. exact Htop.
      + rewrite Ht, Hr. reflexivity.
  Qed.

  Lemma rev_call_step n :
    crefines (call w P' n) (call w P (bnd n)) -> crefines (call w P' (S n)) (call w P (bnd (S n))).
  Proof.
    intros IHc g vs tr Hn. rewrite bnd_S. rewrite (call_S w P') in Hn |- *. rewrite (call_S w P).
    pose proof (find_rewritten_gen tp P P' g HP) as Hfr.
    destruct (find_func P g) as [fn|] eqn:Hfind; [|rewrite Hfr; reflexivity].
    destruct Hfr as [fn' [Hf' Hrw]]. rewrite Hf' in Hn |- *.
    assert (Hcr : crefines (call w P' n) (call w P (bnd n + S n))).
    { eapply crefines_trans; [exact IHc|]. apply call_mono. lia. }
    assert (Hsame : run_body w (call w P' n) (S n) fn vs tr <> CFail FOof ->
                    run_body w (call w P (bnd n + S n)) (S (bnd n + S n)) fn vs tr = run_body w (call w P' n) (S n) fn vs tr).
    { intro H. apply run_body_mono; [exact Hcr | lia | exact H]. }
    destruct Hrw as [->|[k [Hwf ->]]]; [apply Hsame; exact Hn|].
    unfold tail_rec_rewrite in Hn |- *. destruct (top_rc fn) as [rc0|] eqn:Htop; [|apply Hsame; exact Hn].
    destruct (rw_stmts false (f_name fn) (f_atys fn) (f_body fn) rc0 k) as [[[[stmts args] ds]|] k'] eqn:Hrw; simpl fst in Hn |- *;
      [|apply Hsame; exact Hn].
    assert (Hg : f_name fn = g).
    { clear - Hfind. induction P as [|f l IH]; simpl in Hfind; [discriminate|].
      destruct (N.eqb (f_name f) g) eqn:E; [inversion Hfind; subst; apply N.eqb_eq; exact E | apply IH; exact Hfind]. }
    cbv iota beta in Hn |- *. rewrite run_loop_fn in Hn |- *. rewrite map_length in Hn |- *.
    destruct (negb (length vs =? length (f_params fn))%nat) eqn:Hlen.
    { unfold run_body. rewrite Hlen. reflexivity. }
    apply negb_false_iff in Hlen. apply Nat.eqb_eq in Hlen.
    pose proof Hwf as Hwf0. unfold wf_tail in Hwf.
    apply andb_true_iff in Hwf. destruct Hwf as [Hwf Htok].
    apply andb_true_iff in Hwf. destruct Hwf as [Hwf Htp].
    apply andb_true_iff in Hwf. destruct Hwf as [Hwf Hbel].
    apply andb_true_iff in Hwf. destruct Hwf as [Hwf Har].
    unfold wf_func in Hwf.
    apply andb_true_iff in Hwf. destruct Hwf as [Hwf Hnb].
    apply andb_true_iff in Hwf. destruct Hwf as [Hwf Hret].
    apply andb_true_iff in Hwf. destruct Hwf as [Hwf Hsc].
    apply andb_true_iff in Hwf. destruct Hwf as [Hnd Hlt]. apply Nat.eqb_eq in Hlt.
    assert (Largs : length args = length (f_params fn)).
    { rewrite <- Hlt. eapply (proj2 (rw_len_both (f_name fn) (f_atys fn))); eauto. rewrite Hlt. exact Har. }
    subst g.
    pose proof (rev_loop n IHc fn k rc0 stmts args ds k' Hfind Hwf0 Htop Hrw (S n) vs tr _ Hlen
                  (agree_start w tp (f_params fn) (f_atys fn) args vs Htp Hlt Largs Hlen)) as HLL.
    unfold bc_of in HLL. rewrite call_S, Hfind in HLL. apply HLL. exact Hn.
  Qed.

  Theorem tailrec_converse_call n : crefines (call w P' n) (call w P (bnd n)).
  Proof.
    induction n as [|n IH].
    - intros f vs tr H. simpl in H. congruence.
    - apply rev_call_step. exact IH.
  Qed.
End Conv.

Theorem tailrec_converse_rel w tp P P' :
  Forall2 (fn_rewritten tp) P P' ->
  forall f args fuel, sem w P' f args fuel <> OutOfFuel -> sem w P f args (bnd fuel) = sem w P' f args fuel.
Proof.
  intros HP f args fuel H. unfold sem in *.
  rewrite (tailrec_converse_call w tp P P' HP fuel f args [] (outcome_oof _ H)). reflexivity.
Qed.

Theorem tailrec_converse w tp k P :
  wf_tail_program tp k P = true ->
  forall f args fuel, sem w (tail_rec_program false tp k P) f args fuel <> OutOfFuel ->
    sem w P f args (bnd fuel) = sem w (tail_rec_program false tp k P) f args fuel.
Proof. intro H. apply (tailrec_converse_rel w tp). apply tail_rec_program_rewritten. exact H. Qed.

(* both directions together: the two programs have the same determined outcomes *)
Theorem tailrec_same_outcomes w tp k P :
  wf_tail_program tp k P = true ->
  forall f args o, o <> OutOfFuel ->
    ((exists fuel, sem w P f args fuel = o) <-> (exists fuel, sem w (tail_rec_program false tp k P) f args fuel = o)).
Proof.
  intros H f args o Ho. split; intros [fuel E].
  - exists fuel. rewrite (tailrec_preserves w tp k P H f args fuel); [exact E | rewrite E; exact Ho].
  - exists (bnd fuel). rewrite (tailrec_converse w tp k P H f args fuel); [exact E | rewrite E; exact Ho].
Qed.
