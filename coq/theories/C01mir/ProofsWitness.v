(* C01mir - closed witnesses (vm_compute): the seeded variants C01-5 and C01-6 of the two stages do not preserve
   behaviour; concrete programs on which the hypotheses of the theorems hold and the stages change something. *)
From Coq Require Import ZArith NArith List Bool.
Import ListNotations.
From SV Require Import Common.Int32 C01mir.Syntax C01mir.Sem C01mir.TailRec C01mir.ConstParam
  C01mir.ProofsSem C01mir.ProofsTailRec C01mir.ProofsConstParam.
Open Scope Z_scope.

(* a world without closures: external calls return 0, allocations return 1000 + their position *)
Definition w0 : world :=
  mkworld (fun _ _ _ => Some 0) (fun tr _ _ => 1000 + Z.of_nat (length tr)) (fun s => 500 + Z.of_N s) (fun z => 2 * z + 1)
          (fun _ _ v => v) (fun _ _ => None).

Lemma w0_closures P : closures_ok w0 P.
Proof. intros tr v h cx H. discriminate. Qed.

Definition V (x : N) : expr := EVar x 1%N.

(* function g(a, b, n): int = if n <= 0 { a } else if n % 2 == 0 { g(b, a, n - 1) } else { g(a + 1, b, n - 1) }
   as lowered by the real compiler (names: a=2 b=3 n=4; function 0) *)
Definition g_fn : func :=
  mkfunc 0%N [2; 3; 4]%N [1; 1; 1]%N 1%N
    [SBin 5%N LE (V 4) (EInt 0);
     SIf (V 5) []
         [SBin 6%N MOD (V 4) (EInt 2); SBin 7%N EQ (V 6) (EInt 0);
          SIf (V 7)
              [SBin 8%N PLUS (V 4) (EInt (-1));
               SCall (CFn 0%N [1; 1; 1]%N 1%N) [V 3; V 2; V 8] 1%N (Some 9%N)]
              [SBin 10%N PLUS (V 2) (EInt 1); SBin 11%N PLUS (V 4) (EInt (-1));
               SCall (CFn 0%N [1; 1; 1]%N 1%N) [V 10; V 3; V 11] 1%N (Some 12%N)]
              [mkq 13%N 1%N (V 9) (V 12)]]
         [mkq 14%N 1%N (V 2) (V 13)]]
    (V 14).
Definition g_prog : program := [g_fn].
Definition tp0 (x : name) : name := (x + 100)%N.

Lemma g_wf : wf_tail_program tp0 50%N g_prog = true.
Proof. vm_compute. reflexivity. Qed.

Lemma g_rewritten : func_eqb (tail_rec_rewrite false tp0 50%N g_fn) g_fn = false.
Proof. vm_compute. reflexivity. Qed.

Lemma g_runs :
  sem w0 g_prog 0%N [1; 5; 3] 20 = Done 6 [] /\
  sem w0 (tail_rec_program false tp0 50%N g_prog) 0%N [1; 5; 3] 20 = Done 6 [].
Proof. vm_compute. split; reflexivity. Qed.

(* C01-5: the two branches' argument lists zipped the wrong way round *)
Lemma tailrec_swapped_refuted :
  exists (w : world) (tp : name -> name) (k : N) (P : program) (f : N) (args : list Z) (fuel : nat),
    wf_tail_program tp k P = true /\
    sem w P f args fuel <> OutOfFuel /\
    sem w (tail_rec_program true tp k P) f args fuel <> sem w P f args fuel.
Proof.
  exists w0, tp0, 50%N, g_prog, 0%N, [1; 5; 1], 20%nat.
  split; [vm_compute; reflexivity|]. split; vm_compute; discriminate.
Qed.

(* function r(a, b, n): int = if n <= 0 { a } else { r(b, a, n - 1) } and main() = r(1, 2, 1)
   (names: a=2 b=3 n=4; functions r=0 main=1) *)
Definition r_fn : func :=
  mkfunc 0%N [2; 3; 4]%N [1; 1; 1]%N 1%N
    [SBin 5%N LE (V 4) (EInt 0);
     SIf (V 5) []
         [SBin 6%N PLUS (V 4) (EInt (-1));
          SCall (CFn 0%N [1; 1; 1]%N 1%N) [V 3; V 2; V 6] 1%N (Some 7%N)]
         [mkq 8%N 1%N (V 2) (V 7)]]
    (V 8).
Definition r_main : func :=
  mkfunc 1%N [] [] 1%N [SCall (CFn 0%N [1; 1; 1]%N 1%N) [EInt 1; EInt 2; EInt 1] 1%N (Some 9%N)] (V 9).
Definition r_prog : program := [r_fn; r_main].

(* C01-6: a variable argument of a self call is not a use when it is ANY parameter *)
Lemma constparam_anypos_refuted :
  exists (w : world) (P : program) (entry : N) (args : list Z) (fuel : nat),
    wf_prog P = true /\ closures_ok w P /\
    params_kept (collect_all true P) entry = true /\
    sem w (const_param_elim true P) entry args fuel <> sem w P entry args fuel.
Proof.
  exists w0, r_prog, 1%N, [], 10%nat.
  split; [vm_compute; reflexivity|]. split; [apply w0_closures|]. split; vm_compute; [reflexivity|discriminate].
Qed.

(* a program in which constant-parameter elimination drops a constant, an unused and a forwarded parameter:
   h(k, d, x, n) = if n <= 0 { x + k } else { h(k, d, x * 2, n - 1) }, main() = h(7, 9, 1, 3) + h(7, 8, 2, 1)
   (names k=2 d=3 x=4 n=5) *)
Definition h_fn : func :=
  mkfunc 0%N [2; 3; 4; 5]%N [1; 1; 1; 1]%N 1%N
    [SBin 6%N LE (V 5) (EInt 0);
     SIf (V 6)
         [SBin 7%N PLUS (V 4) (V 2)]
         [SBin 8%N MUL (V 4) (EInt 2); SBin 9%N PLUS (V 5) (EInt (-1));
          SCall (CFn 0%N [1; 1; 1; 1]%N 1%N) [EInt 7; V 3; V 8; V 9] 1%N (Some 10%N)]
         [mkq 11%N 1%N (V 7) (V 10)]]
    (V 11).
Definition h_main : func :=
  mkfunc 1%N [] [] 1%N
    [SCall (CFn 0%N [1; 1; 1; 1]%N 1%N) [EInt 7; EInt 9; EInt 1; EInt 3] 1%N (Some 12%N);
     SCall (CFn 0%N [1; 1; 1; 1]%N 1%N) [EInt 7; EInt 8; EInt 2; EInt 1] 1%N (Some 13%N);
     SBin 14%N PLUS (V 12) (V 13)]
    (V 14).
Definition h_prog : program := [h_fn; h_main].

Lemma h_wf : wf_prog h_prog = true.
Proof. vm_compute. reflexivity. Qed.

Lemma h_dropped :
  map f_params (const_param_elim false h_prog) = [[4; 5]%N; []] /\ params_kept (collect_all false h_prog) 1%N = true.
Proof. vm_compute. split; reflexivity. Qed.

Lemma h_runs :
  sem w0 h_prog 1%N [] 10 = Done 26 [] /\ sem w0 (const_param_elim false h_prog) 1%N [] 10 = Done 26 [].
Proof. vm_compute. split; reflexivity. Qed.

(* Why tail_ok is a hypothesis: the rewrite also takes a self call WITHOUT return collector as a tail call when the
   enclosing if-else assigns a literal to the expected collector.  That is right for unit functions (the literal is 0
   and so is every result), and wrong on MIR like
     function d(n) { let c = 0 < n; let r; if c { let m = n + -1; d(m); r = 5 } else { r = 7 }; return r }
   where d(1) = 5 but the loop version returns 7.  The front end never produces this shape (a call has no collector only
   when the callee returns unit); every other conjunct of wf_tail holds of it. *)
Definition d_fn : func :=
  mkfunc 0%N [2]%N [1]%N 1%N
    [SBin 3%N LT (EInt 0) (V 2);
     SIf (V 3) [SBin 4%N PLUS (V 2) (EInt (-1)); SCall (CFn 0%N [1]%N 1%N) [V 4] 1%N None] []
         [mkq 5%N 1%N (EInt 5) (EInt 7)]]
    (V 5).

Lemma tailrec_discard_refuted :
  exists (w : world) (tp : name -> name) (k : N) (f : func) (args : list Z) (fuel : nat),
    wf_func f = true /\
    forallb (self_arity (f_name f) (length (f_params f))) (f_body f) = true /\
    belowb k (binders_l (f_body f)) = true /\ nodupb (map tp (f_params f)) = true /\
    tail_ok k f = false /\
    sem w [f] (f_name f) args fuel = Done 5 [] /\
    sem w [tail_rec_rewrite false tp k f] (f_name f) args fuel = Done 7 [].
Proof.
  exists w0, tp0, 50%N, d_fn, [1], 10%nat. vm_compute. repeat split; reflexivity.
Qed.

(* Why a PARAMETER at a return leaf of a unit function is not covered (TailRec.unit_param_class):
     function u(n, x) { let c = n > 0; let r; if c { let m = n + -1; u(m, x); r = 0 } else { r = x }; return r }
   is what the front end makes of `function u(n: int, x: unit): unit = if n > 0 { u(n - 1, x) } else { x }`.
   u(1, 3) is 0, the loop version returns 3.  With x = 0 - the only value a unit has in a compiled program - both
   return 0; that is an invariant of compiled programs, not of MIR. *)
Definition u_fn : func :=
  mkfunc 0%N [2; 3]%N [1; 1]%N 1%N
    [SBin 4%N GT (V 2) (EInt 0);
     SIf (V 4) [SBin 5%N PLUS (V 2) (EInt (-1)); SCall (CFn 0%N [1; 1]%N 1%N) [V 5; V 3] 1%N None] []
         [mkq 6%N 1%N (EInt 0) (V 3)]]
    (V 6).

Lemma tailrec_unit_param_refuted :
  exists (w : world) (tp : name -> name) (k : N) (f : func) (fuel : nat),
    unit_param_class tp k [f] f = true /\ tail_ok k f = false /\
    sem w [f] (f_name f) [1; 3] fuel = Done 0 [] /\
    sem w [tail_rec_rewrite false tp k f] (f_name f) [1; 3] fuel = Done 3 [] /\
    sem w [f] (f_name f) [1; 0] fuel = sem w [tail_rec_rewrite false tp k f] (f_name f) [1; 0] fuel.
Proof.
  exists w0, tp0, 50%N, u_fn, 10%nat. vm_compute. repeat split; reflexivity.
Qed.
