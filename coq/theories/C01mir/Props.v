(* C01mir - property theorems: the two MIR->MIR stages that run before the optimiser preserve the behaviour of the
   program (C01: compiled code behaves as the source semantics prescribe; these stages are part of "compiled").
   Only statements + `exact` + non-vacuity examples + Print Assumptions. *)
From Coq Require Import ZArith NArith List Bool.
Import ListNotations.
From SV Require Import Common.Int32 C01mir.Syntax C01mir.Sem C01mir.TailRec C01mir.ConstParam
  C01mir.ProofsSem C01mir.ProofsTailRec.
Open Scope Z_scope.

(* ------------------------------------------------------------------------------------------------------------
   (A) mir_tail_recursion_rewrite.rs.

   sem w P f args fuel : the observable behaviour (result + history of external calls and allocations, or the kind
   of abnormal end) of function f of program P on args, with `fuel` bounding the call depth and the iterations of
   every loop.  P' is P with every function that the stage rewrites replaced by its loop version.

   Direction and fuel.  The recursive version needs call depth proportional to the number of iterations, the loop
   version needs none, so the two cannot be compared at equal fuel in both directions.  Proved: every behaviour of
   the SOURCE program that is determined within the fuel (any outcome but OutOfFuel: result, trap, external call that
   does not return, stuck) is the behaviour of the REWRITTEN program at the SAME fuel.  That is the direction
   "compiled code behaves as the source prescribes": whatever the source semantics says about a run - with whatever
   fuel it takes to say it - the compiled program does.  (By call_mono the rewritten program then shows it at every
   larger fuel as well.  The converse - the loop version does not terminate more often - is not stated here.) *)

Theorem C01mir_tailrec_preserves :
  forall (w : world) (tp : name -> name) (k : N) (P : program),
    wf_tail_program tp k P = true ->
    forall f args fuel,
      sem w P f args fuel <> OutOfFuel ->
      sem w (tail_rec_program false tp k P) f args fuel = sem w P f args fuel.
Proof. exact tailrec_preserves. Qed.

(* the same for any choice of the temporaries, function by function: f' is f or the rewrite of a wf_tail function *)
Theorem C01mir_tailrec_preserves_rel :
  forall (w : world) (tp : name -> name) (P P' : program),
    Forall2 (fn_rewritten tp) P P' ->
    forall f args fuel,
      sem w P f args fuel <> OutOfFuel -> sem w P' f args fuel = sem w P f args fuel.
Proof. exact tailrec_preserves_rel. Qed.

(* more fuel never changes a determined outcome *)
Theorem C01mir_fuel_monotone :
  forall (w : world) (P : program) (n m : nat) f args,
    (n <= m)%nat -> sem w P f args n <> OutOfFuel -> sem w P f args m = sem w P f args n.
Proof. exact sem_mono. Qed.

Print Assumptions C01mir_tailrec_preserves.
Print Assumptions C01mir_tailrec_preserves_rel.
Print Assumptions C01mir_fuel_monotone.
