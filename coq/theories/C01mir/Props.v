(* C01mir - property theorems: the two MIR->MIR stages that run before the optimiser preserve the behaviour of the
   program (C01: compiled code behaves as the source semantics prescribe; these stages are part of "compiled").
   Only statements + `exact` + non-vacuity examples + Print Assumptions. *)
From Coq Require Import ZArith NArith List Bool.
Import ListNotations.
From SV Require Import Common.Int32 C01mir.Syntax C01mir.Sem C01mir.TailRec C01mir.ConstParam
  C01mir.ProofsSem C01mir.ProofsTailRec C01mir.ProofsTailRecConv C01mir.ProofsConstParam C01mir.ProofsWitness.
Open Scope Z_scope.

(* ------------------------------------------------------------------------------------------------------------
   (A) mir_tail_recursion_rewrite.rs.

   sem w P f args fuel : the observable behaviour (result + history of external calls and allocations, or the kind
   of abnormal end) of function f of program P on args, with `fuel` bounding the call depth and the iterations of
   every loop.  P' is P with every function that the stage rewrites replaced by its loop version.

   Direction and fuel.  The recursive version needs call depth proportional to the number of iterations, the loop
   version needs none, so the two cannot be compared at equal fuel in both directions.  Proved: every behaviour of
   the SOURCE program that is determined within the fuel (any outcome but OutOfFuel: result, trap, external call that
   does not return, stuck) is the behaviour of the REWRITTEN program at the SAME fuel.  That is the direction
   "compiled code behaves as the source prescribes": whatever the source semantics says about a run - with whatever
   fuel it takes to say it - the compiled program does (C01mir_tailrec_preserves; by C01mir_fuel_monotone the
   rewritten program then shows it at every larger fuel as well).  The converse (C01mir_tailrec_converse): every
   determined outcome of the REWRITTEN program at fuel n is the outcome of the source program at fuel
   bnd n = n (n + 3) / 2 - the loop version does not terminate more often.  Together (C01mir_tailrec_same_outcomes):
   the two programs have the same determined outcomes, and hence both run out of every fuel or neither does. *)

Theorem C01mir_tailrec_preserves :
  forall (w : world) (tp : name -> name) (k : N) (P : program),
    wf_tail_program tp k P = true ->
    forall f args fuel,
      sem w P f args fuel <> OutOfFuel ->
      sem w (tail_rec_program false tp k P) f args fuel = sem w P f args fuel.
Proof. exact tailrec_preserves. Qed.

(* the same for any choice of the temporaries, function by function: f' is f or the rewrite of a wf_tail function *)
Theorem C01mir_tailrec_preserves_rel :
  forall (w : world) (tp : name -> name) (P P' : program),
    Forall2 (fn_rewritten tp) P P' ->
    forall f args fuel,
      sem w P f args fuel <> OutOfFuel -> sem w P' f args fuel = sem w P f args fuel.
Proof. exact tailrec_preserves_rel. Qed.

(* the converse: the loop version does not terminate (or trap, or get stuck) more often *)
Theorem C01mir_tailrec_converse :
  forall (w : world) (tp : name -> name) (k : N) (P : program),
    wf_tail_program tp k P = true ->
    forall f args fuel,
      sem w (tail_rec_program false tp k P) f args fuel <> OutOfFuel ->
      sem w P f args (bnd fuel) = sem w (tail_rec_program false tp k P) f args fuel.
Proof. exact tailrec_converse. Qed.

Theorem C01mir_tailrec_converse_rel :
  forall (w : world) (tp : name -> name) (P P' : program),
    Forall2 (fn_rewritten tp) P P' ->
    forall f args fuel,
      sem w P' f args fuel <> OutOfFuel -> sem w P f args (bnd fuel) = sem w P' f args fuel.
Proof. exact tailrec_converse_rel. Qed.

(* same outcome up to fuel *)
Theorem C01mir_tailrec_same_outcomes :
  forall (w : world) (tp : name -> name) (k : N) (P : program),
    wf_tail_program tp k P = true ->
    forall f args o, o <> OutOfFuel ->
      ((exists fuel, sem w P f args fuel = o) <->
       (exists fuel, sem w (tail_rec_program false tp k P) f args fuel = o)).
Proof. exact tailrec_same_outcomes. Qed.

(* more fuel never changes a determined outcome *)
Theorem C01mir_fuel_monotone :
  forall (w : world) (P : program) (n m : nat) f args,
    (n <= m)%nat -> sem w P f args n <> OutOfFuel -> sem w P f args m = sem w P f args n.
Proof. exact sem_mono. Qed.

(* the seeded variant C01-5 (a2.zip(a1) when both branches end in a tail call) is NOT behaviour preserving *)
Theorem C01mir_tailrec_swapped_refuted :
  exists (w : world) (tp : name -> name) (k : N) (P : program) (f : N) (args : list Z) (fuel : nat),
    wf_tail_program tp k P = true /\
    sem w P f args fuel <> OutOfFuel /\
    sem w (tail_rec_program true tp k P) f args fuel <> sem w P f args fuel.
Proof. exact tailrec_swapped_refuted. Qed.

(* the hypothesis tail_ok (part of wf_tail) cannot be dropped: on MIR in which a self call without return collector
   stands where the enclosing if-else assigns a literal other than what the function returns, the rewrite changes the
   result (5 becomes 7).  The front end does not produce such MIR (see ProofsWitness.v); tail_ok is evaluated on every
   real function that is rewritten. *)
Theorem C01mir_tailrec_discard_refuted :
  exists (w : world) (tp : name -> name) (k : N) (f : func) (args : list Z) (fuel : nat),
    wf_func f = true /\
    forallb (self_arity (f_name f) (length (f_params f))) (f_body f) = true /\
    belowb k (binders_l (f_body f)) = true /\ nodupb (map tp (f_params f)) = true /\
    tail_ok k f = false /\
    sem w [f] (f_name f) args fuel = Done 5 [] /\
    sem w [tail_rec_rewrite false tp k f] (f_name f) args fuel = Done 7 [].
Proof. exact tailrec_discard_refuted. Qed.

(* likewise a PARAMETER at a return leaf of a unit function (`if n > 0 { u(n - 1, x) } else { x }`, x: unit) is outside
   the theorem: u(1, 3) = 0 but the loop version returns 3; with x = 0, the only value of a unit in a compiled program,
   they agree.  The check recognises this class (TailRec.unit_param_class: every call site passes the literal 0 or
   hands the parameter on) and reports such functions as covered by testing only. *)
Theorem C01mir_tailrec_unit_param_refuted :
  exists (w : world) (tp : name -> name) (k : N) (f : func) (fuel : nat),
    unit_param_class tp k [f] f = true /\ tail_ok k f = false /\
    sem w [f] (f_name f) [1; 3] fuel = Done 0 [] /\
    sem w [tail_rec_rewrite false tp k f] (f_name f) [1; 3] fuel = Done 3 [] /\
    sem w [f] (f_name f) [1; 0] fuel = sem w [tail_rec_rewrite false tp k f] (f_name f) [1; 0] fuel.
Proof. exact tailrec_unit_param_refuted. Qed.

(* non-vacuity: g(a, b, n) with a tail call in both branches satisfies the hypothesis, is rewritten, and both
   versions compute g(1, 5, 3) = 6 *)
Example C01mir_tailrec_example :
  wf_tail_program tp0 50%N g_prog = true /\
  func_eqb (tail_rec_rewrite false tp0 50%N g_fn) g_fn = false /\
  sem w0 g_prog 0%N [1; 5; 3] 20 = Done 6 [] /\
  sem w0 (tail_rec_program false tp0 50%N g_prog) 0%N [1; 5; 3] 20 = Done 6 [].
Proof. exact (conj g_wf (conj g_rewritten g_runs)). Qed.

(* ------------------------------------------------------------------------------------------------------------
   (B) mir_constant_param_elimination.rs.

   For every program that satisfies wf_prog (function names and the parameters of a function pairwise different,
   parameters never bound or assigned again, direct calls with the right number of arguments, no called variable
   replaced by a constant) and every world whose closures denote functions named by a ClosureInit of the program or
   external functions: a function all of whose parameters survive the stage (entry points have none; params_kept)
   behaves after the stage exactly as before it - same outcome at the same fuel, OutOfFuel included (the stage keeps
   the call structure, so no fuel relation is needed).  For the other functions the general statement is
   ProofsConstParam.cp_crel: called with the surviving arguments they behave as the original called with arguments
   that carry the constants the analysis found. *)

Theorem C01mir_constparam_preserves :
  forall (w : world) (P : program) (entry : N) (args : list Z) (fuel : nat),
    wf_prog P = true -> closures_ok w P ->
    params_kept (collect_all false P) entry = true ->
    sem w (const_param_elim false P) entry args fuel = sem w P entry args fuel.
Proof. exact constparam_preserves. Qed.

(* the general statement, for every function of the program (the entry point `main` of a real program has one unused
   parameter `_this` before this stage, which the stage drops): called with the surviving arguments (fk), the
   rewritten function behaves as the original called with any arguments that carry the constants the analysis
   found at the positions it replaces (args_ok; it also asks that no parameter state is Referenced - the state of a
   used parameter of a function that has no call site at all) *)
Theorem C01mir_constparam_preserves_general :
  forall (w : world) (P : program) (g : N) (vs : list Z) (fuel : nat),
    wf_prog P = true -> closures_ok w P ->
    args_ok w (collect_all false P) g vs ->
    sem w (const_param_elim false P) g (fk (collect_all false P) g vs) fuel = sem w P g vs fuel.
Proof. exact constparam_preserves_general. Qed.

(* the seeded variant C01-6 (a variable argument of a self call is not a use when it is ANY parameter) is NOT
   behaviour preserving *)
Theorem C01mir_constparam_anypos_refuted :
  exists (w : world) (P : program) (entry : N) (args : list Z) (fuel : nat),
    wf_prog P = true /\ closures_ok w P /\
    params_kept (collect_all true P) entry = true /\
    sem w (const_param_elim true P) entry args fuel <> sem w P entry args fuel.
Proof. exact constparam_anypos_refuted. Qed.

(* non-vacuity: h(k, d, x, n) called with k = 7 everywhere, d unused and only handed on: both disappear;
   main computes 26 before and after *)
Example C01mir_constparam_example :
  wf_prog h_prog = true /\ closures_ok w0 h_prog /\
  map f_params (const_param_elim false h_prog) = [[4; 5]%N; []] /\
  sem w0 h_prog 1%N [] 10 = Done 26 [] /\ sem w0 (const_param_elim false h_prog) 1%N [] 10 = Done 26 [].
Proof. exact (conj h_wf (conj (w0_closures h_prog) (conj (proj1 h_dropped) h_runs))). Qed.

Print Assumptions C01mir_tailrec_preserves.
Print Assumptions C01mir_tailrec_preserves_rel.
Print Assumptions C01mir_tailrec_converse.
Print Assumptions C01mir_tailrec_converse_rel.
Print Assumptions C01mir_tailrec_same_outcomes.
Print Assumptions C01mir_fuel_monotone.
Print Assumptions C01mir_tailrec_swapped_refuted.
Print Assumptions C01mir_tailrec_discard_refuted.
Print Assumptions C01mir_tailrec_unit_param_refuted.
Print Assumptions C01mir_constparam_preserves.
Print Assumptions C01mir_constparam_preserves_general.
Print Assumptions C01mir_constparam_anypos_refuted.
