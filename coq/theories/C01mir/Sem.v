(* C01mir - executable semantics of whole MIR programs (Syntax.v).  Definitions only.

   A program is a list of functions.  `call P n f vs tr` runs function `f` of `P` on the argument values `vs`
   after the history `tr`; a callee that is not a function of `P` (the runtime library: println, string and
   vector builtins) is external and answered by the world.

   DECISIONS (those of C02deep.Sem / harness/src/mirsem.rs unless said otherwise)
   * values are 32-bit words (Z read through wrap32): ints and, opaquely, references, i31 values, string
     constants.  The world (an oracle) gives the result of every external call and the reference returned by
     every allocation (StructInit, ClosureInit) as a function of the whole history, the value of string / i31
     constants, the result of the pure primitives (field load, pointer test, cast - of the history too, since a
     load reads what an earlier allocation stored), and which function and context a closure value denotes.
     An external call that does not return (Process.panic, a trap inside the runtime library) is `None`.
   * the history `trace` (newest first) records every external call with its argument values AND every
     allocation with its field values: the observable behaviour of a run is its outcome + this trace (the
     projection to external calls is what a user can see; allocations are kept because the world answers from the
     history, and both stages studied here keep them in place anyway).
   * arithmetic: Common/Int32.rt_binop (the WebAssembly instruction selected for the operator; wrapping add, sub, mul);
     division by zero and MIN / -1 trap.
   * conditions of IfElse / SingleIf must be 0 or 1, anything else is Stuck (ill-typed MIR); Not is `xor 1`.
   * a variable that was never assigned reads 0; the environment is flat (function-level locals, as in the
     WebAssembly lowering): names assigned in a branch stay assigned.  LateInitDeclaration sets its
     name to 0 (a fresh local; well-formed MIR assigns before it reads), LateInitAssignment assigns.
   * While: loop variables are initialised and updated simultaneously (evaluate all, then assign).
   * a call through a closure variable passes the context as first argument (lir_lowering.rs).
   * calling a function of the program with the wrong number of arguments is Stuck; so is a Break that escapes
     every loop.
   * FUEL: one number `n` bounds the call depth AND the iterations of every loop: a function entered with fuel
     `S n` runs each of its loops for at most `S n` iterations and its callees with fuel `n`; fuel 0 is
     OutOfFuel.  More fuel never changes an outcome other than OutOfFuel (ProofsSem.call_mono). *)
From Coq Require Import ZArith NArith List Bool.
Import ListNotations.
From SV Require Import Common.Int32 C01mir.Syntax.
Open Scope Z_scope.

Inductive evk :=
| KExt (f : N)                 (* call of a function that is not part of the program *)
| KStruct (t : ty)             (* StructInit *)
| KClosure (t : ty) (f : N).   (* ClosureInit *)
Definition event := (evk * list Z)%type.
Definition trace := list event.                (* newest first *)

Record world := mkworld {
  w_ext : trace -> N -> list Z -> option Z;
  w_new : trace -> evk -> list Z -> Z;
  w_str : name -> Z;
  w_i31 : Z -> Z;
  w_prim : trace -> prim -> Z -> Z;
  w_clo : trace -> Z -> option (N * Z) }.

Definition env := list (name * Z).

Fixpoint lookup (x : name) (en : env) : Z :=
  match en with [] => 0 | (y, v) :: r => if N.eqb x y then v else lookup x r end.

Definition eval (w : world) (en : env) (e : expr) : Z :=
  wrap32 (match e with EInt z => z | EI31 z => w_i31 w z | EStr s => w_str w s | EVar x _ => lookup x en end).

(* abnormal ends *)
Inductive fail :=
| FTrap (tr : trace)      (* arithmetic trap of the target *)
| FAbort (tr : trace)     (* an external call did not return *)
| FStuck                  (* ill-formed MIR *)
| FOof.                   (* out of fuel *)

Inductive res :=
| RNext (en : env) (tr : trace)
| RBreak (v : Z) (en : env) (tr : trace)
| RFail (o : fail).

(* result of a call *)
Inductive cres :=
| CRet (v : Z) (tr : trace)
| CFail (o : fail).

Definition cond (v : Z) : option bool :=
  if v =? 0 then Some false else if v =? 1 then Some true else None.

Definition bind_opt (o : option name) (v : Z) (en : env) : env :=
  match o with Some x => (x, v) :: en | None => en end.
Definition bind_bc (o : option (name * ty)) (v : Z) (en : env) : env :=
  match o with Some (x, _) => (x, v) :: en | None => en end.

(* simultaneous assignment of the e1 (resp. e2) components *)
Definition bind_e1 (w : world) (qs : list quad) (en : env) : env :=
  combine (map q_name qs) (map (fun q => eval w en (q_e1 q)) qs) ++ en.
Definition bind_e2 (w : world) (qs : list quad) (en : env) : env :=
  combine (map q_name qs) (map (fun q => eval w en (q_e2 q)) qs) ++ en.

Definition exec_list (ex : stmt -> env -> trace -> res) : list stmt -> env -> trace -> res :=
  fix go ss en tr :=
    match ss with
    | [] => RNext en tr
    | s :: r => match ex s en tr with RNext en' tr' => go r en' tr' | o => o end
    end.

Fixpoint loop (body : env -> trace -> res) (next : env -> env) (n : nat) (en : env) (tr : trace) : res :=
  match n with
  | O => RFail FOof
  | S n' => match body en tr with
            | RNext en' tr' => loop body next n' (next en') tr'
            | o => o
            end
  end.

Definition callf_t := N -> list Z -> trace -> cres.

Section Exec.
  Variable w : world.
  Variable callf : callf_t.     (* how a call of a named function is answered (functions of the program and externals) *)
  Variable lf : nat.            (* iterations allowed to each loop *)

  Fixpoint exec (s : stmt) (en : env) (tr : trace) {struct s} : res :=
    match s with
    | SBin x op e1 e2 =>
        match rt_binop op (eval w en e1) (eval w en e2) with
        | Val v => RNext ((x, v) :: en) tr
        | TrapArith => RFail (FTrap tr)
        end
    | SNot x e => RNext ((x, Z.lxor (eval w en e) 1) :: en) tr
    | SPrim x p e => RNext ((x, w_prim w tr p (eval w en e)) :: en) tr
    | SCall c args _ ret =>
        let vs := map (eval w en) args in
        match c with
        | CFn f _ _ =>
            match callf f vs tr with
            | CRet v tr' => RNext (bind_opt ret v en) tr'
            | CFail o => RFail o
            end
        | CVar x _ =>
            match w_clo w tr (wrap32 (lookup x en)) with
            | None => RFail FStuck
            | Some (f, cx) =>
                match callf f (cx :: vs) tr with
                | CRet v tr' => RNext (bind_opt ret v en) tr'
                | CFail o => RFail o
                end
            end
        end
    | SIf c s1 s2 fas =>
        match cond (eval w en c) with
        | None => RFail FStuck
        | Some true => match exec_list exec s1 en tr with
                       | RNext en' tr' => RNext (bind_e1 w fas en') tr'
                       | o => o
                       end
        | Some false => match exec_list exec s2 en tr with
                        | RNext en' tr' => RNext (bind_e2 w fas en') tr'
                        | o => o
                        end
        end
    | SSIf c inv ss =>
        match cond (eval w en c) with
        | None => RFail FStuck
        | Some b => if xorb b inv then exec_list exec ss en tr else RNext en tr
        end
    | SBreak e => RBreak (eval w en e) en tr
    | SWhile lvs ss bc =>
        match loop (exec_list exec ss) (bind_e2 w lvs) lf (bind_e1 w lvs en) tr with
        | RBreak v en' tr' => RNext (bind_bc bc v en') tr'
        | RNext _ _ => RFail FStuck
        | o => o
        end
    | SDecl x _ => RNext ((x, 0) :: en) tr
    | SAssign x e => RNext ((x, eval w en e) :: en) tr
    | SStruct x t es =>
        let vs := map (eval w en) es in
        RNext ((x, w_new w tr (KStruct t) vs) :: en) ((KStruct t, vs) :: tr)
    | SClosure x t f _ e =>
        let vs := [eval w en e] in
        RNext ((x, w_new w tr (KClosure t f) vs) :: en) ((KClosure t f, vs) :: tr)
    end.

  Definition exec_block : list stmt -> env -> trace -> res := exec_list exec.
End Exec.

Definition init_env (f : func) (args : list Z) : env := combine (f_params f) args.

(* the body of `fn` on `vs`, callees answered by `callf`, loops bounded by `lf` *)
Definition run_body (w : world) (callf : callf_t) (lf : nat) (fn : func) (vs : list Z) (tr : trace) : cres :=
  if negb (length vs =? length (f_params fn))%nat then CFail FStuck else
  match exec_block w callf lf (f_body fn) (init_env fn vs) tr with
  | RNext en tr' => CRet (eval w en (f_ret fn)) tr'
  | RBreak _ _ _ => CFail FStuck
  | RFail o => CFail o
  end.

Definition call_ext (w : world) (f : N) (vs : list Z) (tr : trace) : cres :=
  match w_ext w tr f vs with
  | Some v => CRet v ((KExt f, vs) :: tr)
  | None => CFail (FAbort ((KExt f, vs) :: tr))
  end.

Fixpoint call (w : world) (P : program) (n : nat) (f : N) (vs : list Z) (tr : trace) : cres :=
  match n with
  | O => CFail FOof
  | S n' =>
      match find_func P f with
      | None => call_ext w f vs tr
      | Some fn => run_body w (call w P n') n fn vs tr
      end
  end.

(* observable behaviour of a run of `f` on `args` from the empty history *)
Inductive outcome :=
| Done (v : Z) (tr : trace)
| Trap (tr : trace)
| Abort (tr : trace)
| Stuck
| OutOfFuel.

Definition outcome_of (r : cres) : outcome :=
  match r with
  | CRet v tr => Done v tr
  | CFail (FTrap tr) => Trap tr
  | CFail (FAbort tr) => Abort tr
  | CFail FStuck => Stuck
  | CFail FOof => OutOfFuel
  end.

Definition sem (w : world) (P : program) (f : N) (args : list Z) (fuel : nat) : outcome :=
  outcome_of (call w P fuel f args []).
