(* C01mir - samlang's mid-level IR (crates/samlang-ast/src/mir.rs) as a deep embedding: ALL statement forms,
   whole programs (a list of functions).  Definitions only (plus the induction principle of the nested type).

   The two compiler stages studied here (mir_constant_param_elimination.rs, mir_tail_recursion_rewrite.rs) run on
   the MIR of the whole program, directly after specialisation and type deduplication.  A whole-program
   transformation can only be tied to the code if every statement form of the program can be written down, so
   this syntax has one constructor per variant of mir::Statement (C02deep.Syntax covers a fragment of the
   functions the optimiser sees one at a time, and erases types).

   Types are kept as opaque numbers (`ty`): the harness interns every mir::Type / TypeNameId / FunctionType of a
   job.  The stages copy, filter and attach types (argument_types.retain, the type of a new loop variable, of a
   new final assignment, of the break collector); keeping them makes the output comparison see that too.
   The semantics (Sem.v) ignores them.
   Names are numbers given by the harness (PStr -> N, per job); function names likewise (FunctionName -> N). *)
From Coq Require Import ZArith NArith List Bool.
Import ListNotations.
From SV Require Import Common.Int32.

Definition name := N.
Definition ty := N.

Inductive expr :=
| EInt (z : Z)                (* Int32Literal *)
| EI31 (z : Z)                (* Int31Literal *)
| EStr (s : name)             (* StringName *)
| EVar (x : name) (t : ty).   (* Variable(VariableName { name, type_ }) *)

Inductive prim :=
| PIdx (t : ty) (i : N)       (* IndexedAccess { type_, index } *)
| PIsPtr (t : ty)             (* IsPointer { pointer_type } *)
| PCast (t : ty).             (* Cast { type_ } *)

(* Callee::FunctionName(FunctionNameExpression { name, type_: FunctionType { argument_types, return_type } })
   | Callee::Variable(VariableName) *)
Inductive callee :=
| CFn (f : N) (atys : list ty) (rty : ty)
| CVar (x : name) (t : ty).

(* IfElseFinalAssignment { name, type_, e1, e2 } and GenenalLoopVariable { name, type_, initial_value, loop_value } *)
Record quad := mkq { q_name : name; q_ty : ty; q_e1 : expr; q_e2 : expr }.

Inductive stmt :=
| SBin (x : name) (op : binop) (e1 e2 : expr)                      (* Binary *)
| SNot (x : name) (e : expr)                                        (* Not *)
| SPrim (x : name) (p : prim) (e : expr)                            (* IndexedAccess / IsPointer / Cast *)
| SCall (c : callee) (args : list expr) (rty : ty) (ret : option name)
| SIf (c : expr) (s1 s2 : list stmt) (fas : list quad)              (* IfElse *)
| SSIf (c : expr) (inv : bool) (ss : list stmt)                     (* SingleIf *)
| SBreak (e : expr)
| SWhile (lvs : list quad) (ss : list stmt) (bc : option (name * ty))
| SDecl (x : name) (t : ty)                                         (* LateInitDeclaration *)
| SAssign (x : name) (e : expr)                                     (* LateInitAssignment *)
| SStruct (x : name) (t : ty) (es : list expr)                      (* StructInit *)
| SClosure (x : name) (t : ty) (f : N) (ft : ty) (e : expr).        (* ClosureInit { .., function_name: {name, type_}, context } *)

Record func := mkfunc {
  f_name : N;
  f_params : list name;
  f_atys : list ty;         (* type_.argument_types *)
  f_rty : ty;               (* type_.return_type *)
  f_body : list stmt;
  f_ret : expr }.

Definition program := list func.      (* Sources.functions *)

(* induction over statements and statement lists together *)
Section StmtInd.
  Variable P : stmt -> Prop.
  Variable Q : list stmt -> Prop.
  Hypothesis HBin : forall x op e1 e2, P (SBin x op e1 e2).
  Hypothesis HNot : forall x e, P (SNot x e).
  Hypothesis HPrim : forall x p e, P (SPrim x p e).
  Hypothesis HCall : forall c args rty ret, P (SCall c args rty ret).
  Hypothesis HIf : forall c s1 s2 fas, Q s1 -> Q s2 -> P (SIf c s1 s2 fas).
  Hypothesis HSIf : forall c inv ss, Q ss -> P (SSIf c inv ss).
  Hypothesis HBreak : forall e, P (SBreak e).
  Hypothesis HWhile : forall lvs ss bc, Q ss -> P (SWhile lvs ss bc).
  Hypothesis HDecl : forall x t, P (SDecl x t).
  Hypothesis HAssign : forall x e, P (SAssign x e).
  Hypothesis HStruct : forall x t es, P (SStruct x t es).
  Hypothesis HClosure : forall x t f ft e, P (SClosure x t f ft e).
  Hypothesis HNil : Q [].
  Hypothesis HCons : forall s r, P s -> Q r -> Q (s :: r).

  Fixpoint stmt_ind2 (s : stmt) : P s :=
    let fix go (ss : list stmt) : Q ss :=
      match ss with [] => HNil | s :: r => HCons s r (stmt_ind2 s) (go r) end in
    match s with
    | SBin x op e1 e2 => HBin x op e1 e2
    | SNot x e => HNot x e
    | SPrim x p e => HPrim x p e
    | SCall c args rty ret => HCall c args rty ret
    | SIf c s1 s2 fas => HIf c s1 s2 fas (go s1) (go s2)
    | SSIf c inv ss => HSIf c inv ss (go ss)
    | SBreak e => HBreak e
    | SWhile lvs ss bc => HWhile lvs ss bc (go ss)
    | SDecl x t => HDecl x t
    | SAssign x e => HAssign x e
    | SStruct x t es => HStruct x t es
    | SClosure x t f ft e => HClosure x t f ft e
    end.

  Fixpoint stmts_ind2 (ss : list stmt) : Q ss :=
    match ss with [] => HNil | s :: r => HCons s r (stmt_ind2 s) (stmts_ind2 r) end.

  Lemma stmt_stmts_ind2 : (forall s, P s) /\ (forall ss, Q ss).
  Proof. split; [exact stmt_ind2 | exact stmts_ind2]. Qed.
End StmtInd.

(* ---- names ---- *)
Definition memb (x : name) (l : list name) : bool := existsb (N.eqb x) l.

Definition opt_names (o : option name) : list name := match o with Some x => [x] | None => [] end.
Definition bc_names (o : option (name * ty)) : list name := match o with Some (x, _) => [x] | None => [] end.

(* names a statement puts in scope for the statements that follow it.  LateInitDeclaration declares its name
   (the assignments to it happen later, usually inside branches; LateInitAssignment defines nothing new). *)
Definition defs (s : stmt) : list name :=
  match s with
  | SBin x _ _ _ | SNot x _ | SPrim x _ _ | SDecl x _ | SStruct x _ _ | SClosure x _ _ _ _ => [x]
  | SCall _ _ _ ret => opt_names ret
  | SIf _ _ _ fas => map q_name fas
  | SSIf _ _ _ | SBreak _ | SAssign _ _ => []
  | SWhile _ _ bc => bc_names bc
  end.

Fixpoint defs_l (ss : list stmt) : list name :=
  match ss with [] => [] | s :: r => defs_l r ++ defs s end.

(* every binder occurring in a statement, at any depth (assignment targets of LateInitAssignment are not binders) *)
Fixpoint binders (s : stmt) : list name :=
  let fix go (ss : list stmt) : list name :=
    match ss with [] => [] | s :: r => binders s ++ go r end in
  match s with
  | SBin x _ _ _ | SNot x _ | SPrim x _ _ | SDecl x _ | SStruct x _ _ | SClosure x _ _ _ _ => [x]
  | SCall _ _ _ ret => opt_names ret
  | SIf _ s1 s2 fas => go s1 ++ go s2 ++ map q_name fas
  | SSIf _ _ ss => go ss
  | SBreak _ | SAssign _ _ => []
  | SWhile lvs ss bc => map q_name lvs ++ go ss ++ bc_names bc
  end.
Fixpoint binders_l (ss : list stmt) : list name :=
  match ss with [] => [] | s :: r => binders s ++ binders_l r end.

(* targets of LateInitAssignment at any depth *)
Fixpoint assigned (s : stmt) : list name :=
  let fix go (ss : list stmt) : list name :=
    match ss with [] => [] | s :: r => assigned s ++ go r end in
  match s with
  | SAssign x _ => [x]
  | SIf _ s1 s2 _ => go s1 ++ go s2
  | SSIf _ _ ss | SWhile _ ss _ => go ss
  | _ => []
  end.
Fixpoint assigned_l (ss : list stmt) : list name :=
  match ss with [] => [] | s :: r => assigned s ++ assigned_l r end.

Fixpoint nodupb (l : list name) : bool :=
  match l with [] => true | x :: r => negb (memb x r) && nodupb r end.

Definition disjointb (a b : list name) : bool := forallb (fun x => negb (memb x b)) a.

(* ---- scoping without shadowing ----
   every variable that is read is in scope (parameters, results of earlier statements of the enclosing blocks,
   final-assignment names after their if-else, loop variables inside their loop, the break collector after its
   loop); names defined inside a branch / loop body are not visible after it; and no statement defines a name
   that is already in scope (MIR is in single-assignment form apart from LateInitAssignment). *)
Definition in_scope (S : list name) (e : expr) : bool :=
  match e with EVar x _ => memb x S | _ => true end.

Definition callee_in_scope (S : list name) (c : callee) : bool :=
  match c with CVar x _ => memb x S | CFn _ _ _ => true end.

Definition fresh_in (S : list name) (l : list name) : bool := nodupb l && disjointb l S.

Fixpoint scoped (S : list name) (s : stmt) : bool :=
  let fix go (S : list name) (ss : list stmt) : bool :=
    match ss with [] => true | s :: r => scoped S s && go (defs s ++ S) r end in
  fresh_in S (defs s) &&
  match s with
  | SBin _ _ e1 e2 => in_scope S e1 && in_scope S e2
  | SNot _ e | SPrim _ _ e | SBreak e | SClosure _ _ _ _ e => in_scope S e
  | SAssign x e => in_scope S e && memb x S
  | SDecl _ _ => true
  | SCall c args _ _ => callee_in_scope S c && forallb (in_scope S) args
  | SStruct _ _ es => forallb (in_scope S) es
  | SIf c s1 s2 fas =>
      in_scope S c && go S s1 && go S s2 &&
      forallb (fun q => in_scope (defs_l s1 ++ S) (q_e1 q) && in_scope (defs_l s2 ++ S) (q_e2 q)) fas
  | SSIf c _ ss => in_scope S c && go S ss
  | SWhile lvs ss _ =>
      fresh_in S (map q_name lvs) &&
      forallb (fun q => in_scope S (q_e1 q)) lvs &&
      go (map q_name lvs ++ S) ss &&
      forallb (fun q => in_scope (defs_l ss ++ map q_name lvs ++ S) (q_e2 q)) lvs
  end.
Fixpoint scoped_l (S : list name) (ss : list stmt) : bool :=
  match ss with [] => true | s :: r => scoped S s && scoped_l (defs s ++ S) r end.

(* a Break may only occur inside a While *)
Fixpoint no_break (s : stmt) : bool :=
  let fix go (ss : list stmt) : bool := match ss with [] => true | s :: r => no_break s && go r end in
  match s with
  | SBreak _ => false
  | SIf _ s1 s2 _ => go s1 && go s2
  | SSIf _ _ ss => go ss
  | _ => true
  end.
Fixpoint no_break_l (ss : list stmt) : bool :=
  match ss with [] => true | s :: r => no_break s && no_break_l r end.

(* well-formed function: parameters pairwise distinct, reads in scope, no shadowing, no Break outside a loop,
   as many parameter types as parameters *)
Definition wf_func (f : func) : bool :=
  nodupb (f_params f) &&
  (length (f_atys f) =? length (f_params f))%nat &&
  scoped_l (f_params f) (f_body f) &&
  in_scope (defs_l (f_body f) ++ f_params f) (f_ret f) &&
  no_break_l (f_body f).

Fixpoint find_func (P : program) (f : N) : option func :=
  match P with
  | [] => None
  | fn :: r => if N.eqb (f_name fn) f then Some fn else find_func r f
  end.

(* ---- decidable equality (used by the output comparison of Corr.v) ---- *)
Definition expr_eqb (a b : expr) : bool :=
  match a, b with
  | EInt x, EInt y | EI31 x, EI31 y => Z.eqb x y
  | EStr x, EStr y => N.eqb x y
  | EVar x t, EVar y u => N.eqb x y && N.eqb t u
  | _, _ => false
  end.

Definition prim_eqb (a b : prim) : bool :=
  match a, b with
  | PIdx t i, PIdx u j => N.eqb t u && N.eqb i j
  | PIsPtr t, PIsPtr u | PCast t, PCast u => N.eqb t u
  | _, _ => false
  end.

Definition binop_eqb (a b : binop) : bool :=
  match a, b with
  | MUL, MUL | DIV, DIV | MOD, MOD | PLUS, PLUS | MINUS, MINUS | LAND, LAND | LOR, LOR | SHL, SHL
  | SHR, SHR | XOR, XOR | LT, LT | LE, LE | GT, GT | GE, GE | EQ, EQ | NE, NE => true
  | _, _ => false
  end.

Fixpoint list_eqb {A} (eqb : A -> A -> bool) (a b : list A) : bool :=
  match a, b with
  | [], [] => true
  | x :: r, y :: s => eqb x y && list_eqb eqb r s
  | _, _ => false
  end.

Definition opt_eqb {A} (eqb : A -> A -> bool) (a b : option A) : bool :=
  match a, b with
  | None, None => true
  | Some x, Some y => eqb x y
  | _, _ => false
  end.

Definition callee_eqb (a b : callee) : bool :=
  match a, b with
  | CFn f ts r, CFn g us q => N.eqb f g && list_eqb N.eqb ts us && N.eqb r q
  | CVar x t, CVar y u => N.eqb x y && N.eqb t u
  | _, _ => false
  end.

Definition quad_eqb (a b : quad) : bool :=
  N.eqb (q_name a) (q_name b) && N.eqb (q_ty a) (q_ty b) && expr_eqb (q_e1 a) (q_e1 b) && expr_eqb (q_e2 a) (q_e2 b).

Definition bc_eqb (a b : name * ty) : bool := N.eqb (fst a) (fst b) && N.eqb (snd a) (snd b).

Fixpoint stmt_eqb (a b : stmt) : bool :=
  let fix go (x y : list stmt) : bool :=
    match x, y with
    | [], [] => true
    | s :: r, t :: u => stmt_eqb s t && go r u
    | _, _ => false
    end in
  match a, b with
  | SBin x op e1 e2, SBin y oq g1 g2 => N.eqb x y && binop_eqb op oq && expr_eqb e1 g1 && expr_eqb e2 g2
  | SNot x e, SNot y g => N.eqb x y && expr_eqb e g
  | SPrim x p e, SPrim y q g => N.eqb x y && prim_eqb p q && expr_eqb e g
  | SCall c args rt ret, SCall d brgs ru reu =>
      callee_eqb c d && list_eqb expr_eqb args brgs && N.eqb rt ru && opt_eqb N.eqb ret reu
  | SIf c s1 s2 fas, SIf d t1 t2 gas => expr_eqb c d && go s1 t1 && go s2 t2 && list_eqb quad_eqb fas gas
  | SSIf c i ss, SSIf d j ts => expr_eqb c d && Bool.eqb i j && go ss ts
  | SBreak e, SBreak g => expr_eqb e g
  | SWhile lvs ss bc, SWhile mvs ts bd => list_eqb quad_eqb lvs mvs && go ss ts && opt_eqb bc_eqb bc bd
  | SDecl x t, SDecl y u => N.eqb x y && N.eqb t u
  | SAssign x e, SAssign y g => N.eqb x y && expr_eqb e g
  | SStruct x t es, SStruct y u gs => N.eqb x y && N.eqb t u && list_eqb expr_eqb es gs
  | SClosure x t f ft e, SClosure y u g gt h => N.eqb x y && N.eqb t u && N.eqb f g && N.eqb ft gt && expr_eqb e h
  | _, _ => false
  end.
Definition stmts_eqb : list stmt -> list stmt -> bool := list_eqb stmt_eqb.

Definition func_eqb (a b : func) : bool :=
  N.eqb (f_name a) (f_name b) && list_eqb N.eqb (f_params a) (f_params b) && list_eqb N.eqb (f_atys a) (f_atys b) &&
  N.eqb (f_rty a) (f_rty b) && stmts_eqb (f_body a) (f_body b) && expr_eqb (f_ret a) (f_ret b).
Definition program_eqb : program -> program -> bool := list_eqb func_eqb.
