(* C01mir - Gallina mirror of crates/samlang-compiler/src/mir_tail_recursion_rewrite.rs.  Definitions only.

   `tail_rec_rewrite` = optimize_function_by_tailrec_rewrite (one function; hir_lowering.rs
   optimize_by_tail_rec_rewrite maps it over Sources.functions = `tail_rec_program`).

   Arguments of the mirror besides the function:
     tp    : the name "_tailrec_param_<x>" made for parameter x (heap.alloc_string(tail_rec_param_name(..)))
     k     : the next temporary of the heap's counter; the i-th heap.alloc_temp_str() of a run returns name k + i
             (the harness numbers the temporaries a run allocated in allocation order above all other names)
     swap  : false = the code as it is; true = the seeded variant C01-5 (a2.zip(a1) in the both-branches case) *)
From Coq Require Import ZArith NArith List Bool.
Import ListNotations.
From SV Require Import Common.Int32 C01mir.Syntax.

Definition as_var (e : expr) : option name := match e with EVar x _ => Some x | _ => None end.

(* `expected_return_collector.eq(&Some(it.name))` *)
Definition is_rc (rc : option name) (q : quad) : bool := opt_eqb N.eqb rc (Some (q_name q)).

(* for ((e1, e2), t) in a1.zip(a2).zip(function_parameter_types) { name = alloc_temp; args.push(var(name, t));
   new_final_assignments.push({name, t, e1, e2}) } *)
Fixpoint mk_fas (k : N) (a1 a2 : list expr) (ts : list ty) : list expr * list quad * N :=
  match a1, a2, ts with
  | e1 :: r1, e2 :: r2, t :: rt =>
      let '(args, fas, k') := mk_fas (N.succ k) r1 r2 rt in
      (EVar k t :: args, mkq k t e1 e2 :: fas, k')
  | _, _, _ => ([], [], k)
  end.

(* RewriteResult { stmts, args }; None = Err(the statements as they were).
   GHOST third component (not in the Rust, dropped by tail_rec_rewrite): the literals the source function returns
   on a path on which the rewrite takes a self call WITHOUT return collector as the tail call (the enclosing
   if-else assigns a literal to the expected collector instead of the call's result).  That is how unit
   functions look (`_t = 0` after `f(..)`); the preservation theorem needs to know that the function then
   always returns that literal (ProofsTailRec.tail_ok). *)
Definition rw_res := option (list stmt * list expr * list expr).

(* a statement list: everything but the last statement is kept, the last one is rewritten by `rw` *)
Definition rw_list (rw : stmt -> option name -> N -> rw_res * N) : list stmt -> option name -> N -> rw_res * N :=
  fix go (ss : list stmt) (rc : option name) (k : N) {struct ss} : rw_res * N :=
    match ss with
    | [] => (None, k)
    | s :: r =>
        match r with
        | [] => rw s rc k
        | _ :: _ =>
            match go r rc k with
            | (Some (ss', args, ds), k') => (Some (s :: ss', args, ds), k')
            | (None, k') => (None, k')
            end
        end
    end.

(* ghost: the literal assigned instead of a call result *)
Definition discarded (rc : option name) (e : expr) : list expr :=
  match rc, as_var e with Some _, None => [e] | _, _ => [] end.

Section TailRec.
  Variable swap : bool.
  Variable fname : N.               (* function_name *)
  Variable ptys : list ty.          (* function_parameter_types *)

  (* try_rewrite_stmts_for_tailrec_without_using_return_value on a statement list whose LAST statement is `s` *)
  Fixpoint rw_last (s : stmt) (rc : option name) (k : N) {struct s} : rw_res * N :=
    match s with
    | SCall (CFn g _ _) args _ ret =>
        if N.eqb g fname && opt_eqb N.eqb rc ret
        then (Some (match rc with Some r => [SBin r PLUS (EInt 0) (EInt 0)] | None => [] end, args, []), k)
        else (None, k)
    | SIf c s1 s2 fas =>
        let relevant := find (is_rc rc) fas in
        match (match rc with
               | Some _ => match relevant with
                           | Some q => Some (as_var (q_e1 q), as_var (q_e2 q))
                           | None => None
                           end
               | None => Some (None, None)
               end) with
        | None => (None, k)
        | Some (rc1, rc2) =>
            let (r1, k1) := rw_list rw_last s1 rc1 k in
            let (r2, k2) := rw_list rw_last s2 rc2 k1 in
            let d1 := match relevant with Some q => discarded rc (q_e1 q) | None => [] end in
            let d2 := match relevant with Some q => discarded rc (q_e2 q) | None => [] end in
            match r1, r2 with
            | None, None => (None, k2)
            | None, Some (st, args, ds) =>
                (Some (SSIf c false (s1 ++ [SBreak (match relevant with Some q => q_e1 q | None => EInt 0 end)]) :: st,
                       args, d2 ++ ds), k2)
            | Some (st, args, ds), None =>
                (Some (SSIf c true (s2 ++ [SBreak (match relevant with Some q => q_e2 q | None => EInt 0 end)]) :: st,
                       args, d1 ++ ds), k2)
            | Some (st1, a1, ds1), Some (st2, a2, ds2) =>
                let nfas := filter (fun q => negb (is_rc rc q)) fas in
                let '(args, tfas, k3) := if swap then mk_fas k2 a2 a1 ptys else mk_fas k2 a1 a2 ptys in
                (Some ([SIf c st1 st2 (nfas ++ tfas)], args, (d1 ++ ds1) ++ (d2 ++ ds2)), k3)
            end
        end
    | _ => (None, k)
    end.

  Definition rw_stmts : list stmt -> option name -> N -> rw_res * N := rw_list rw_last.
End TailRec.

(* parameters.zip(argument_types).zip(args).map(|((n, t), loop_value)| GenenalLoopVariable { n, t, var(tp n, t), loop_value }) *)
Fixpoint mk_lvs (tp : name -> name) (ps : list name) (ts : list ty) (args : list expr) : list quad :=
  match ps, ts, args with
  | n :: pr, t :: tr, a :: ar => mkq n t (EVar (tp n) t) a :: mk_lvs tp pr tr ar
  | _, _, _ => []
  end.

(* expected_return_collector of a function: None = no rewrite at all (StringName), Some None = literal *)
Definition top_rc (f : func) : option (option name) :=
  match f_ret f with
  | EInt _ | EI31 _ => Some None
  | EVar x _ => Some (Some x)
  | EStr _ => None
  end.

Definition tail_rec_rewrite (swap : bool) (tp : name -> name) (k : N) (f : func) : func :=
  match top_rc f with
  | None => f
  | Some rc =>
      match fst (rw_stmts swap (f_name f) (f_atys f) (f_body f) rc k) with
      | None => f
      | Some (stmts, args, _) =>
          mkfunc (f_name f) (map tp (f_params f)) (f_atys f) (f_rty f)
                 [SWhile (mk_lvs tp (f_params f) (f_atys f) args) stmts
                         (match rc with Some x => Some (x, f_rty f) | None => None end)]
                 (f_ret f)
      end
  end.

(* number of temporaries the rewrite of `f` draws *)
Definition temps_used (swap : bool) (k : N) (f : func) : N :=
  match top_rc f with
  | None => 0
  | Some rc => snd (rw_stmts swap (f_name f) (f_atys f) (f_body f) rc k) - k
  end%N.

(* optimize_by_tail_rec_rewrite: the functions in order, one counter *)
Fixpoint tail_rec_program (swap : bool) (tp : name -> name) (k : N) (P : program) : program :=
  match P with
  | [] => []
  | f :: r => tail_rec_rewrite swap tp k f :: tail_rec_program swap tp (k + temps_used swap k f) r
  end.

(* ---------- decidable side conditions of the preservation theorem (ProofsTailRec.v), evaluated on every real function ---------- *)

(* every direct call of `fname` has `n` arguments *)
Fixpoint self_arity (fname : N) (n : nat) (s : stmt) : bool :=
  match s with
  | SCall (CFn g _ _) args _ _ => if N.eqb g fname then (length args =? n)%nat else true
  | SIf _ s1 s2 _ => forallb (self_arity fname n) s1 && forallb (self_arity fname n) s2
  | SSIf _ _ ss | SWhile _ ss _ => forallb (self_arity fname n) ss
  | _ => true
  end.

(* `f` applied to the last statement of a list *)
Definition last_of {A} (dflt : A) (f : stmt -> A) : list stmt -> A :=
  fix go (ss : list stmt) : A :=
    match ss with
    | [] => dflt
    | s :: r => match r with [] => f s | _ :: _ => go r end
    end.

Definition is_zero (e : expr) : bool := expr_eqb e (EInt 0).

(* after a block whose last statement is `s`, the expression `e` is the literal 0 or holds the result of a self call
   or - through the final assignments of a trailing if-else - an expression of which the same is true:
   a function whose return value passes this check returns 0 whenever it returns (ProofsTailRec.ret_const_sound) *)
Fixpoint rcst (fname : N) (s : stmt) (e : expr) {struct s} : bool :=
  match as_var e with
  | None => is_zero e
  | Some x =>
      match s with
      | SCall (CFn g _ _) _ _ (Some r) => N.eqb g fname && N.eqb r x
      | SIf _ s1 s2 fas =>
          match find (is_rc (Some x)) fas with
          | Some q =>
              last_of (is_zero (q_e1 q)) (fun s => rcst fname s (q_e1 q)) s1 &&
              last_of (is_zero (q_e2 q)) (fun s => rcst fname s (q_e2 q)) s2
          | None => false
          end
      | _ => false
      end
  end.

Definition ret_const (f : func) : bool :=
  last_of (is_zero (f_ret f)) (fun s => rcst (f_name f) s (f_ret f)) (f_body f).

(* the discarded results (ghost component of rw_res) are harmless: each is the literal 0 and the function returns 0 only *)
Definition tail_ok (k : N) (f : func) : bool :=
  match top_rc f with
  | None => true
  | Some rc =>
      match fst (rw_stmts false (f_name f) (f_atys f) (f_body f) rc k) with
      | None => true
      | Some (_, _, ds) => forallb is_zero ds && (match ds with [] => true | _ :: _ => ret_const f end)
      end
  end.

Definition belowb (k : N) (l : list name) : bool := forallb (fun x => N.ltb x k) l.

(* hypothesis of tailrec_preserves about one function: well-scoped single-assignment body, self calls with the right
   number of arguments, the temporaries k, k+1, .. and the new parameter names are new, discarded results harmless *)
Definition wf_tail (tp : name -> name) (k : N) (f : func) : bool :=
  wf_func f &&
  forallb (self_arity (f_name f) (length (f_params f))) (f_body f) &&
  belowb k (binders_l (f_body f)) &&
  nodupb (map tp (f_params f)) &&
  tail_ok k f.

(* the rewrite applies to `f` *)
Definition rewritable (k : N) (f : func) : bool :=
  match top_rc f with
  | None => false
  | Some rc => match fst (rw_stmts false (f_name f) (f_atys f) (f_body f) rc k) with Some _ => true | None => false end
  end.

(* the side conditions along optimize_by_tail_rec_rewrite: every function that is rewritten satisfies wf_tail with
   the value the temporary counter has when its turn comes *)
Fixpoint wf_tail_program (tp : name -> name) (k : N) (P : program) : bool :=
  match P with
  | [] => true
  | f :: r => (negb (rewritable k f) || wf_tail tp k f) && wf_tail_program tp (k + temps_used false k f) r
  end.

(* ---------- the unit-parameter class (NOT covered by the theorem; see ProofsWitness.tailrec_unit_param_refuted) ----------
   A unit function may return a unit-typed PARAMETER at a leaf (`if n > 0 { f(n - 1, u) } else { u }`): the rewrite then
   lets the loop end with u where the recursive version returns the literal 0 after a discarded self call.  The two
   agree exactly when u is 0, which holds of programs compiled from source (every unit value is 0) but is not a fact
   about MIR.  `rleaves` recognises the shape: Some ps = every leaf of the return value is the literal 0, the result
   of a self call, or one of the parameters ps. *)
Definition leaf0 (params : list name) (e : expr) : option (list name) :=
  match as_var e with
  | None => if is_zero e then Some [] else None
  | Some x => if memb x params then Some [x] else None
  end.

Fixpoint rleaves (fname : N) (params : list name) (s : stmt) (e : expr) {struct s} : option (list name) :=
  match as_var e with
  | None => if is_zero e then Some [] else None
  | Some x =>
      let dflt := if memb x params then Some [x] else None in
      match s with
      | SCall (CFn g _ _) _ _ (Some r) => if N.eqb g fname && N.eqb r x then Some [] else dflt
      | SIf _ s1 s2 fas =>
          match find (is_rc (Some x)) fas with
          | Some q =>
              match last_of (leaf0 params (q_e1 q)) (fun s => rleaves fname params s (q_e1 q)) s1,
                    last_of (leaf0 params (q_e2 q)) (fun s => rleaves fname params s (q_e2 q)) s2 with
              | Some a, Some b => Some (a ++ b)
              | _, _ => None
              end
          | None => dflt
          end
      | _ => dflt
      end
  end.

Definition ret_leaves (f : func) : option (list name) :=
  last_of (leaf0 (f_params f) (f_ret f)) (fun s => rleaves (f_name f) (f_params f) s (f_ret f)) (f_body f).

(* every direct call of `g` in the statement has arguments that satisfy `pred` *)
Fixpoint calls_sat (g : N) (pred : list expr -> bool) (s : stmt) : bool :=
  match s with
  | SCall (CFn h _ _) args _ _ => if N.eqb h g then pred args else true
  | SIf _ s1 s2 _ => forallb (calls_sat g pred) s1 && forallb (calls_sat g pred) s2
  | SSIf _ _ ss | SWhile _ ss _ => forallb (calls_sat g pred) ss
  | _ => true
  end.

(* y is a late-init variable of the block (declared, hence 0) all of whose assignments assign the literal 0:
   how `let v = Process.println(..)` looks after lowering *)
Fixpoint declared (y : name) (s : stmt) : bool :=
  match s with
  | SDecl x _ => N.eqb x y
  | SIf _ s1 s2 _ => existsb (declared y) s1 || existsb (declared y) s2
  | SSIf _ _ ss | SWhile _ ss _ => existsb (declared y) ss
  | _ => false
  end.
Fixpoint assigns_zero (y : name) (s : stmt) : bool :=
  match s with
  | SAssign x e => if N.eqb x y then is_zero e else true
  | SIf _ s1 s2 _ => forallb (assigns_zero y) s1 && forallb (assigns_zero y) s2
  | SSIf _ _ ss | SWhile _ ss _ => forallb (assigns_zero y) ss
  | _ => true
  end.
Definition zero_arg (body : list stmt) (a : expr) : bool :=
  match a with
  | EInt 0 => true
  | EVar y _ => existsb (declared y) body && forallb (assigns_zero y) body
  | _ => false
  end.

Fixpoint index_of (x : name) (l : list name) : nat :=
  match l with [] => O | y :: r => if N.eqb x y then O else S (index_of x r) end.

(* wf_tail with tail_ok replaced by: the leaves are 0 / self-call results / parameters, each such parameter is handed
   on at its own position by every self call, and every other call site of the function in the program passes the
   literal 0 (or a late-init variable that is only ever assigned 0) there *)
Definition unit_param_class (tp : name -> name) (k : N) (P : program) (f : func) : bool :=
  wf_func f &&
  forallb (self_arity (f_name f) (length (f_params f))) (f_body f) &&
  belowb k (binders_l (f_body f)) &&
  nodupb (map tp (f_params f)) &&
  match ret_leaves f with
  | None => false
  | Some ps =>
      forallb (fun p =>
                 let i := index_of p (f_params f) in
                 forallb (fun g =>
                            forallb (calls_sat (f_name f)
                                       (fun args => if N.eqb (f_name g) (f_name f)
                                                    then match nth_error args i with Some (EVar y _) => N.eqb y p | _ => false end
                                                    else match nth_error args i with Some a => zero_arg (f_body g) a | None => false end))
                                    (f_body g)) P) ps
  end.
