(* C01 (pattern-lowering slice) — definitions evaluated with vm_compute on the cases printed by `vh hir-dump`
   (checks/c01_pat.py), and the witnesses of the refutations in Props.v. *)
From Coq Require Import ZArith NArith List Bool.
Import ListNotations.
From SV Require Import C01pat.Syntax C01pat.Sem C01pat.Lower.

(* ------------------------------------------------------------------ syntactic equality *)
Definition expr_eqb (a b : expr) : bool :=
  match a, b with
  | EInt x, EInt y => Z.eqb x y
  | EVar x, EVar y => N.eqb x y
  | _, _ => false
  end.
Fixpoint list_eqb {A} (eq : A -> A -> bool) (a b : list A) : bool :=
  match a, b with
  | [], [] => true
  | x :: r, y :: r' => eq x y && list_eqb eq r r'
  | _, _ => false
  end.
Definition optname_eqb (a b : option name) : bool :=
  match a, b with Some x, Some y => N.eqb x y | None, None => true | _, _ => false end.
Definition fas_eqb (a b : name * expr * expr) : bool :=
  N.eqb (fst (fst a)) (fst (fst b)) && expr_eqb (snd (fst a)) (snd (fst b)) && expr_eqb (snd a) (snd b).

Fixpoint stmt_eqb (a b : stmt) {struct a} : bool :=
  let fix go (x y : list stmt) : bool :=
    match x, y with
    | [], [] => true
    | s :: r, s' :: r' => stmt_eqb s s' && go r r'
    | _, _ => false
    end in
  match a, b with
  | SIndex x e i, SIndex x' e' i' => N.eqb x x' && expr_eqb e e' && Nat.eqb i i'
  | SDestr e t bs s1 s2 fas, SDestr e' t' bs' s1' s2' fas' =>
      expr_eqb e e' && Nat.eqb t t' && list_eqb optname_eqb bs bs' && go s1 s1' && go s2 s2' && list_eqb fas_eqb fas fas'
  | SIf c s1 s2 fas, SIf c' s1' s2' fas' => expr_eqb c c' && go s1 s1' && go s2 s2' && list_eqb fas_eqb fas fas'
  | SDecl x, SDecl x' => N.eqb x x'
  | SAssign x e, SAssign x' e' => N.eqb x x' && expr_eqb e e'
  | SPanic x, SPanic x' => N.eqb x x'
  | _, _ => false
  end.
Definition stmts_eqb : list stmt -> list stmt -> bool := list_eqb stmt_eqb.

Fixpoint value_eqb (a b : value) {struct a} : bool :=
  let fix go (x y : list value) : bool :=
    match x, y with
    | [], [] => true
    | s :: r, s' :: r' => value_eqb s s' && go r r'
    | _, _ => false
    end in
  match a, b with
  | VInt x, VInt y => Z.eqb x y
  | VStruct xs, VStruct ys => go xs ys
  | VVariant t xs, VVariant t' ys => Nat.eqb t t' && go xs ys
  | _, _ => false
  end.
Definition optvalue_eqb (a b : option value) : bool :=
  match a, b with Some x, Some y => value_eqb x y | None, None => true | _, _ => false end.

(* shape_ok as a boolean (the hypothesis of the theorem, evaluated on every instance) *)
Fixpoint shape_okb (p : pat) (v : value) {struct p} : bool :=
  match p with
  | PWild | PVar _ => true
  | PTuple ps =>
      match v with
      | VStruct vs =>
          (fix go (l : list pat) (ws : list value) : bool :=
             match l, ws with
             | [], _ => true
             | q :: t, w :: r => shape_okb q w && go t r
             | _ :: _, [] => false
             end) ps vs
      | _ => false
      end
  | PObject els =>
      match v with
      | VStruct vs =>
          forallb (fun el => match nth_error vs (fst el) with Some w => shape_okb (snd el) w | None => false end) els
      | _ => false
      end
  | PVariant tag ps =>
      match v with
      | VVariant t vs =>
          if Nat.eqb t tag then
            (fix go (l : list pat) (ws : list value) : bool :=
               match l, ws with
               | [], [] => true
               | q :: t, w :: r => shape_okb q w && go t r
               | _, _ => false
               end) ps vs
          else true
      | _ => false
      end
  | POr ps => forallb (fun q => shape_okb q v) ps
  end.

(* ------------------------------------------------------------------ the tie *)
Definition tmp_of (supply : list name) (k : nat) : name := nth k supply 0%N.
Fixpoint nodupb (l : list name) : bool := match l with [] => true | x :: t => negb (memb x t) && nodupb t end.
Definition b2n (b : bool) : N := if b then 1%N else 0%N.
Definition evar_in (e : expr) (l : list name) : bool := match e with EVar y => memb y l | EInt _ => false end.
Definition env0 : name -> option value := fun _ => None.

(* One pattern site (an arm of a match, the guard of an `if let`, a `let`):
     p     the source pattern (variables numbered in their own space)
     bs    the keys of `pattern.bindings()` in the order of the LateInitDeclarations
     e     the matched expression
     real  the LateInitDeclarations and the statements lower_matching_pattern produced
     rc    the condition it returned, where the caller shows it (IfElse condition), else None
     supply the names DEFINED by `real`, sorted by the counter value in `_t<k>`
     vals  instance values of the scrutinee's type
   row = [ model /= real ; wf p ; bs = bindings() as a set, no duplicates, covers the variables ; supply fresh ;
           instances: match and agree ; no match and agree ; DISAGREE ; shape_ok false ] *)
Definition site := (pat * list name * expr * list stmt * option expr * list name * list value)%type.

Definition inst_site (p : pat) (bn : name -> name) (e : expr) (real : list stmt) (rc : option expr) (v : value) : N :=
  let r0 := match e with EVar y => upd env0 y (Some v) | EInt _ => env0 end in
  if negb (shape_okb p v) then 3%N else
  match run_block real r0 with
  | Ok r' =>
      let cond_says := match rc with Some c => Some (optvalue_eqb (eval c r') (Some (VInt 1)), optvalue_eqb (eval c r') (Some (VInt 0))) | None => None end in
      match pmatch p v with
      | Some b =>
          let binds_ok := forallb (fun xw => optvalue_eqb (r' (bn (fst xw))) (lookup b (fst xw))) b in
          let c_ok := match cond_says with Some (one, _) => one | None => true end in
          if binds_ok && c_ok then 0%N else 2%N
      | None =>
          match cond_says with Some (_, zero) => if zero then 1%N else 2%N | None => 1%N end
      end
  | _ => 2%N
  end.

Definition countN (l : list N) (k : N) : N := N.of_nat (length (filter (N.eqb k) l)).

Definition tie_site (c : site) : list N :=
  let '(p, bs, e, real, rc, supply, vals) := c in
  let tmp := tmp_of supply in
  let '(model, mc, n1) := lower_guard tmp p bs e 0 in
  let bn := bn_of tmp bs 0 in
  let same := stmts_eqb model real && Nat.eqb n1 (length supply) &&
              match rc with Some c' => expr_eqb mc c' | None => true end in
  let rows := map (inst_site p bn e real rc) vals in
  [ b2n (negb same);
    b2n (wfb p);
    b2n (nodupb bs && same_namesb (bindings_of p) bs && inclb (binders p) bs);
    b2n (nodupb supply && negb (evar_in e supply));
    countN rows 0; countN rows 1; countN rows 2; countN rows 3 ].
Definition tie_sites (cs : list site) : list (list N) := map tie_site cs.

(* One whole match: arms = (pattern, keys of bindings(), body statements, body expression, number of names
   the body defines), e, the real chain, its result expression, the names the chain defines (sorted), values.
   row = [ model /= real ; arms well formed ; supply fresh ;
           instances: agree (arm taken = first matching arm, result = its body's, or panic and no arm matches) ;
           DISAGREE ] *)
Definition marm := (pat * list name * list stmt * expr * nat)%type.
Definition chain := (list marm * expr * list stmt * expr * list name * list value)%type.

Definition to_arm (a : marm) : arm :=
  let '(p, bs, body, be, k) := a in
  {| a_pat := p; a_bs := bs; a_body := fun _ n => (body, be, (n + k)%nat) |}.

(* the binding maps lower_match uses, arm by arm (same recursion as lower_match) *)
Fixpoint match_bns (tmp : nat -> name) (arms : list arm) (e : expr) (n : nat) : list (name -> name) * nat :=
  match arms with
  | [] => ([], S n)
  | a :: t =>
      let '(rest, n1) := match_bns tmp t e n in
      let bn := bn_of tmp (a_bs a) (S n1) in
      let '(_, _, n2) := lower_pattern tmp bn (a_pat a) e (S n1 + length (a_bs a)) in
      let '(_, _, n3) := a_body a bn n2 in
      (bn :: rest, n3)
  end.

Definition inst_chain (arms : list arm) (bns : list (name -> name)) (e : expr) (real : list stmt) (res : expr) (v : value) : N :=
  let r0 := match e with EVar y => upd env0 y (Some v) | EInt _ => env0 end in
  match first_match a_pat arms v with
  | None => match run_block real r0 with Panic => 0%N | _ => 2%N end
  | Some (i, a, b) =>
      let bn := nth i bns (fun x => x) in
      let '(body, be, _) := a_body a bn 0 in
      (* the body from the environment in which its pattern's variables hold their values *)
      let ra := fold_left (fun r xw => upd r (bn (fst xw)) (lookup b (fst xw))) b r0 in
      let expect := match run_block body ra with Ok r2 => eval be r2 | _ => None end in
      match run_block real r0 with
      | Ok r' => match expect with Some w => if optvalue_eqb (eval res r') (Some w) then 0%N else 2%N | None => 2%N end
      | _ => 2%N
      end
  end.

Definition tie_chain (c : chain) : list N :=
  let '(marms, e, real, res, supply, vals) := c in
  let tmp := tmp_of supply in
  let arms := map to_arm marms in
  let '(model, mres, n1) := lower_match tmp arms e 0 in
  let same := stmts_eqb model real && expr_eqb mres res && Nat.eqb n1 (length supply) in
  let bns := fst (match_bns tmp arms e 0) in
  let rows := map (inst_chain arms bns e real res) vals in
  [ b2n (negb same);
    b2n (forallb (fun a => wfb (a_pat a) && nodupb (a_bs a) && inclb (binders (a_pat a)) (a_bs a)) arms);
    b2n (nodupb supply && negb (evar_in e supply));
    countN rows 0; countN rows 2 ].
Definition tie_chains (cs : list chain) : list (list N) := map tie_chain cs.

(* ------------------------------------------------------------------ witnesses *)
(* source variables 1, 2, ...; the matched variable is 50; late-init variables and temporaries 100, 101, ... *)
Definition tmp0 (k : nat) : name := (100 + N.of_nat k)%N.

(* corpus/C01/004-object-pattern-out-of-order.sam: `let { b, a } = p` on class P(val a, val b):
   written order b (field 1), a (field 0) *)
Definition obj_pat : pat := PObject [(1%nat, PVar 2%N); (0%nat, PVar 1%N)].
Definition obj_val : value := VStruct [VInt 42; VInt 7].
Definition obj_bn : name -> name := bn_of tmp0 [1%N; 2%N] 0.
Definition obj_env : name -> option value := upd env0 50%N (Some obj_val).

(* a pattern that uses every form, with or-patterns that bind *)
Definition rich_pat : pat :=
  PTuple [POr [PVariant 0 [PVar 1%N; PWild]; PVariant 2 [PVariant 0 [PVar 1%N; PWild]]];
          PObject [(1%nat, PVar 2%N); (0%nat, POr [PVariant 1 []; PVariant 0 [PWild; PWild]])]].
Definition rich_val (first : value) (tag : nat) : value :=
  VStruct [first; VStruct [VVariant tag (if Nat.eqb tag 0 then [VInt 5; VInt 6] else []); VInt 9]].
Definition rich_bn : name -> name := bn_of tmp0 [1%N; 2%N] 0.

(* a match with three arms, bodies = the arm number / a bound variable *)
Definition m_arms : list arm :=
  [ {| a_pat := PVariant 0 [PVar 1%N]; a_bs := [1%N]; a_body := fun bn n => ([], EVar (bn 1%N), n) |};
    {| a_pat := POr [PVariant 1 []; PVariant 2 [PVariant 1 []]]; a_bs := []; a_body := fun _ n => ([], EInt 11, n) |};
    {| a_pat := PVariant 2 [PWild]; a_bs := []; a_body := fun _ n => ([], EInt 12, n) |} ].
Definition result_of (o : outcome) (res : expr) : option (option value) :=
  match o with Ok r => Some (eval res r) | _ => None end.
