(* C01 (pattern-lowering slice) — crates/samlang-compiler/src/hir_lowering.rs, `lower_matching_pattern`
   (lines 663-882) statement by statement, and `lower_match` (884-957).

   Temporaries come from `Heap::alloc_temp_str` through `allocate_temp_variable`: `tmp k` is the k-th name
   it hands out, the state is the counter.  `bn` is the map `binding_names` that the callers build before the
   call (source variable -> its late-init variable).  The result is (statements, condition, counter).

   The three element loops iterate `.rev()` and prepend: the LAST element is lowered first (and draws its
   temporaries first); what has been built so far (`acc`) is placed behind the statements of the element
   before it — directly when that element's condition is the literal 1, otherwise inside the `s1` of an
   IfElse on that condition whose final assignment carries the condition of the rest:

     for (index, nested) in elements.iter().enumerate().rev() {            // Object: index = nested.field_order
       let name = self.allocate_temp_variable();
       let (mut stmts, cond) = self.lower_matching_pattern(&nested.pattern, binding_names, Variable(name));
       stmts.insert(0, IndexedAccess { name, pointer_expression: lowered_expression, index });
       if cond == hir::ONE { stmts.append(&mut acc.statements); acc = (stmts, acc.expression) }
       else { let final_condition = self.allocate_temp_variable();
              stmts.push(IfElse { condition: cond, s1: acc.statements, s2: [],
                                  final_assignments: [(final_condition, acc.expression, ZERO)] });
              acc = (stmts, Variable(final_condition)) } }

   A right fold written as structural recursion does exactly this: the recursive call on the tail comes
   first, with the incoming counter. *)
From Coq Require Import ZArith NArith List Bool.
Import ListNotations.
From SV Require Import C01pat.Syntax C01pat.Sem.

Notation res := (list stmt * expr * nat)%type (only parsing).

Definition is_one (e : expr) : bool := match e with EInt 1 => true | _ => false end.

Section Lower.
  Variable tmp : nat -> name.
  Variable bn : name -> name.

  (* the `if nested_pattern_condition == hir::ONE {..} else {..}` shared by the three loops;
     n is the counter after the element has been lowered *)
  Definition combine_elem (nested_s : list stmt) (nested_c : expr) (acc_s : list stmt) (acc_e : expr) (n : nat) : res :=
    if is_one nested_c then (nested_s ++ acc_s, acc_e, n)
    else (nested_s ++ [SIf nested_c acc_s [] [(tmp n, acc_e, ZERO)]], EVar (tmp n), S n).

  Section Loops.
    Variable lower : pat -> expr -> nat -> res.

    (* Tuple: element number i of the written list is field i *)
    Fixpoint lower_tuple (e : expr) (ps : list pat) (i : nat) (n : nat) {struct ps} : res :=
      match ps with
      | [] => ([], ONE, n)
      | p :: t =>
          let '(acc_s, acc_e, n1) := lower_tuple e t (S i) n in
          let x := tmp n1 in
          let '(ns, nc, n2) := lower p (EVar x) (S n1) in
          combine_elem (SIndex x e i :: ns) nc acc_s acc_e n2
      end.

    (* Object: `let index = nested.field_order;` *)
    Fixpoint lower_object (e : expr) (els : list (nat * pat)) (n : nat) {struct els} : res :=
      match els with
      | [] => ([], ONE, n)
      | el :: t =>
          let '(acc_s, acc_e, n1) := lower_object e t n in
          let x := tmp n1 in
          let '(ns, nc, n2) := lower (snd el) (EVar x) (S n1) in
          combine_elem (SIndex x e (fst el) :: ns) nc acc_s acc_e n2
      end.

    (* the object loop as it was before fix c7eda7e: the index is the WRITTEN position (`enumerate()`) *)
    Fixpoint lower_object_written (e : expr) (els : list (nat * pat)) (i : nat) (n : nat) {struct els} : res :=
      match els with
      | [] => ([], ONE, n)
      | el :: t =>
          let '(acc_s, acc_e, n1) := lower_object_written e t (S i) n in
          let x := tmp n1 in
          let '(ns, nc, n2) := lower (snd el) (EVar x) (S n1) in
          combine_elem (SIndex x e i :: ns) nc acc_s acc_e n2
      end.

    (* Variant payload: `data_variables.elements.iter().zip(non_optional_bindings).rev()`; the names were drawn
       before the loop; no IndexedAccess: the ConditionalDestructure binds them *)
    Fixpoint lower_payload (ps : list pat) (xs : list name) (n : nat) {struct ps} : res :=
      match ps, xs with
      | p :: t, x :: xt =>
          let '(acc_s, acc_e, n1) := lower_payload t xt n in
          let '(ns, nc, n2) := lower p (EVar x) n1 in
          combine_elem ns nc acc_s acc_e n2
      | _, _ => ([], ONE, n)
      end.

    (* Or: empty -> ZERO; one alternative -> that alternative; otherwise the last alternative is lowered first
       and each earlier one wraps what has been built in the ELSE branch of an IfElse on its own condition:
         pattern_stmts.push(IfElse { condition: cond, s1: [], s2: prev_stmts,
                                     final_assignments: [(result_var, ONE, prev_expr)] }) *)
    Fixpoint lower_or (e : expr) (ps : list pat) (n : nat) {struct ps} : res :=
      match ps with
      | [] => ([], ZERO, n)
      | p :: t =>
          match t with
          | [] => lower p e n
          | _ :: _ =>
              let '(prev_s, prev_e, n1) := lower_or e t n in
              let '(s, c, n2) := lower p e n1 in
              (s ++ [SIf c [] prev_s [(tmp n2, ONE, prev_e)]], EVar (tmp n2), S n2)
          end
      end.
  End Loops.

  (* object_index = the object loop to use: the code as written, or the code before the fix *)
  Fixpoint lower_pattern_with (written : bool) (p : pat) (e : expr) (n : nat) {struct p} : res :=
    match p with
    | PWild => ([], ONE, n)
    | PVar x => ([SAssign (bn x) e], ONE, n)
    | PTuple ps => lower_tuple (lower_pattern_with written) e ps 0 n
    | PObject els =>
        if written then lower_object_written (lower_pattern_with written) e els 0 n
        else lower_object (lower_pattern_with written) e els n
    | PVariant tag ps =>
        (* one name per payload field first, in order; then the loop; then the final temporary *)
        let k := length ps in
        let xs := map tmp (seq n k) in
        let '(acc_s, acc_e, n1) := lower_payload (lower_pattern_with written) ps xs (n + k) in
        ([SDestr e tag (map Some xs) acc_s [] [(tmp n1, acc_e, ZERO)]], EVar (tmp n1), S n1)
    | POr ps => lower_or (lower_pattern_with written) e ps n
    end.

  Definition lower_pattern : pat -> expr -> nat -> res := lower_pattern_with false.
  (* before c7eda7e *)
  Definition lower_pattern_old : pat -> expr -> nat -> res := lower_pattern_with true.
End Lower.

(* ------------------------------------------------------------------ lower_match *)
(* One arm: the pattern, the keys of `pattern.bindings()` in the order the BTreeMap hands them out, and the
   lowering of the body as a function of the binding map and the counter (statements, result expression,
   counter afterwards). *)
Record arm := { a_pat : pat; a_bs : list name; a_body : (name -> name) -> nat -> list stmt * expr * nat }.

Fixpoint index_of (x : name) (l : list name) : option nat :=
  match l with
  | [] => None
  | y :: t => if N.eqb x y then Some O else match index_of x t with Some k => Some (S k) | None => None end
  end.

(* `binding_names`: the j-th key gets the j-th temporary drawn from counter n on
   (a key that is not in the map: `unwrap()` would panic; ruled out by wf, see Proofs.binders_in_bindings_of) *)
Definition bn_of (tmp : nat -> name) (bs : list name) (n : nat) : name -> name :=
  fun x => match index_of x bs with Some k => tmp (n + k)%nat | None => tmp n end.

(*  let unreachable_branch_collector = self.allocate_temp_variable();
    let mut acc = ([Call Process.panic(0, "") -> unreachable_branch_collector], Variable(unreachable_branch_collector));
    for {pattern, body} in expression.cases.iter().rev() {
      let final_assignment_temp = self.allocate_temp_variable();
      for (n, t) in pattern.bindings() { let name = alloc; binding_names.insert(n, name); new_stmts.push(LateInitDeclaration name) }
      let (binding_stmts, cond) = self.lower_matching_pattern(pattern, &binding_names, matched_expr);
      let body = self.lower(body);
      new_stmts.push(IfElse { condition: cond, s1: body.statements, s2: acc_stmts,
                              final_assignments: [(final_assignment_temp, body.expression, acc_e)] });
      acc = (new_stmts, Variable(final_assignment_temp)) } *)
Fixpoint lower_match (tmp : nat -> name) (arms : list arm) (e : expr) (n : nat) {struct arms} : res :=
  match arms with
  | [] => ([SPanic (tmp n)], EVar (tmp n), S n)
  | a :: t =>
      let '(acc_s, acc_e, n1) := lower_match tmp t e n in
      let ft := tmp n1 in
      let k := length (a_bs a) in
      let bn := bn_of tmp (a_bs a) (S n1) in
      let decls := map (fun j => SDecl (tmp j)) (seq (S n1) k) in
      let '(ps, c, n2) := lower_pattern tmp bn (a_pat a) e (S n1 + k) in
      let '(bs, be, n3) := a_body a bn n2 in
      (decls ++ ps ++ [SIf c bs acc_s [(ft, be, acc_e)]], EVar ft, n3)
  end.

(* the callers that keep only the pattern part: `if let p = e` (lower_if_else, Guard) and `let p = e`
   (lower_block): late-init declarations, then the statements of the pattern *)
Definition lower_guard (tmp : nat -> name) (p : pat) (bs : list name) (e : expr) (n : nat) : res :=
  let k := length bs in
  let bn := bn_of tmp bs n in
  let '(ps, c, n1) := lower_pattern tmp bn p e (n + k) in
  (map (fun j => SDecl (tmp j)) (seq n k) ++ ps, c, n1).

(* the temporaries drawn between two counter values *)
Definition temps (tmp : nat -> name) (n0 n1 : nat) : list name := map tmp (seq n0 (n1 - n0)).

(* ------------------------------------------------------------------ vocabulary of the theorems *)
Definition cnt (x : list stmt * expr * nat) : nat := snd x.
Definition stmts_of (x : list stmt * expr * nat) : list stmt := fst (fst x).
Definition cond_of (x : list stmt * expr * nat) : expr := snd (fst x).

(* y is not drawn from counter n on / between n and n1 *)
Definition low (tmp : nat -> name) (n : nat) (y : name) : Prop := forall i, (n <= i)%nat -> tmp i <> y.
Definition off (tmp : nat -> name) (n n1 : nat) (y : name) : Prop := forall i, (n <= i)%nat -> (i < n1)%nat -> tmp i <> y.
(* the matched expression is not written by the statements of the pattern: it is a literal, or a variable that
   is neither drawn later nor a late-init variable of the pattern *)
Definition stable (tmp : nat -> name) (bn : name -> name) (n : nat) (B : list name) (e : expr) : Prop :=
  match e with EInt _ => True | EVar y => low tmp n y /\ ~ In y (map bn B) end.
Definition estable (tmp : nat -> name) (n : nat) (e : expr) : Prop :=
  match e with EInt _ => True | EVar y => low tmp n y end.

(* what is asked of an arm: well-formed pattern of the right shape for the matched value, late-init variables
   declared once each and for every variable of the pattern, a body lowering that only moves the counter forward *)
Definition arm_ok (v : value) (a : arm) : Prop :=
  wf (a_pat a) /\ shape_ok (a_pat a) v /\ NoDup (a_bs a) /\ incl (binders (a_pat a)) (a_bs a) /\
  forall bn n, (n <= cnt (a_body a bn n))%nat.

(* the outcome of the whole chain `ss` (result expression `res`) from r, given that the body (bs, be) of the
   arm that is taken runs from ra: the chain ends like the body, and its result is the body's *)
Definition match_result (tmp : nat -> name) (n : nat) (ss : list stmt) (res : expr) (r : name -> option value)
           (bs : list stmt) (be : expr) (ra : name -> option value) : Prop :=
  match run_block bs ra with
  | Ok r2 =>
      match eval be r2 with
      | Some w => exists r3, run_block ss r = Ok r3 /\ eval res r3 = Some w /\ forall y, low tmp n y -> r3 y = r2 y
      | None => run_block ss r = Fault
      end
  | Fault => run_block ss r = Fault
  | Panic => run_block ss r = Panic
  end.
