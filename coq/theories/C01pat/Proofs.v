(* C01 (pattern-lowering slice) — proofs: the statements `lower_matching_pattern` emits compute `pmatch`. *)
From Coq Require Import ZArith NArith List Bool Lia.
Import ListNotations.
From SV Require Import C01pat.Syntax C01pat.Sem C01pat.Lower C01pat.Corr.
Open Scope nat_scope.

(* ------------------------------------------------------------------ unfolding equations *)
Lemma wf_tuple ps : wf (PTuple ps) = wf_all ps.
Proof. reflexivity. Qed.
Lemma wf_object els : wf (PObject els) = wf_els els.
Proof. reflexivity. Qed.
Lemma wf_variant tag ps : wf (PVariant tag ps) = wf_all ps.
Proof. reflexivity. Qed.
Lemma wf_or ps :
  wf (POr ps) = (wf_all ps /\ match ps with [] => True | q :: t => Forall (fun q' => same_names (binders q') (binders q)) t end).
Proof. reflexivity. Qed.
Lemma shape_tuple ps v : shape_ok (PTuple ps) v = match v with VStruct vs => shape_list ps vs | _ => False end.
Proof. destruct v; reflexivity. Qed.
Lemma shape_object els v : shape_ok (PObject els) v = match v with VStruct vs => shape_els vs els | _ => False end.
Proof. destruct v; reflexivity. Qed.
Lemma shape_variant tag ps v :
  shape_ok (PVariant tag ps) v = match v with VVariant t vs => t = tag -> shape_list_exact ps vs | _ => False end.
Proof. destruct v; reflexivity. Qed.
Lemma shape_or ps v : shape_ok (POr ps) v = shape_all v ps.
Proof. reflexivity. Qed.

Lemma run_block_app a b r :
  run_block (a ++ b) r = match run_block a r with Ok r' => run_block b r' | o => o end.
Proof.
  revert r. induction a as [|s a IH]; intros r; simpl; [reflexivity|].
  destruct (run_stmt s r); try reflexivity. apply IH.
Qed.
Lemma run_block_cons s t r :
  run_block (s :: t) r = match run_stmt s r with Ok r' => run_block t r' | o => o end.
Proof. reflexivity. Qed.
Lemma run_if c s1 s2 fas r :
  run_stmt (SIf c s1 s2 fas) r =
  match truth (eval c r) with
  | Some true => finish true fas (run_block s1 r)
  | Some false => finish false fas (run_block s2 r)
  | None => Fault
  end.
Proof. reflexivity. Qed.
Lemma run_destr e tag bs s1 s2 fas r :
  run_stmt (SDestr e tag bs s1 s2 fas) r =
  match eval e r with
  | Some (VVariant t vs) =>
      if Nat.eqb t tag then
        match bind_payload bs vs r with
        | Some r1 => finish true fas (run_block s1 r1)
        | None => Fault
        end
      else finish false fas (run_block s2 r)
  | _ => Fault
  end.
Proof. reflexivity. Qed.

(* ------------------------------------------------------------------ environments *)
Lemma upd_same r x w : upd r x w x = w.
Proof. unfold upd. now rewrite N.eqb_refl. Qed.
Lemma upd_other r x w y : y <> x -> upd r x w y = r y.
Proof. unfold upd. intros H. destruct (N.eqb_spec y x); congruence. Qed.

Lemma assign_all_app bn b b' r : assign_all bn (b ++ b') r = assign_all bn b' (assign_all bn b r).
Proof. revert r. induction b as [|[x w] b IH]; intros r; simpl; [reflexivity | apply IH]. Qed.

(* pointwise: the value at y after the assignments depends on the value at y before only *)
Lemma assign_all_pointwise bn b r1 r2 y : r1 y = r2 y -> assign_all bn b r1 y = assign_all bn b r2 y.
Proof.
  revert r1 r2. induction b as [|[x w] b IH]; intros r1 r2 H; simpl; [assumption|].
  apply IH. unfold upd. destruct (N.eqb y (bn x)); [reflexivity | assumption].
Qed.
Lemma assign_all_notin bn b r y : ~ In y (map bn (map fst b)) -> assign_all bn b r y = r y.
Proof.
  revert r. induction b as [|[x w] b IH]; intros r H; simpl in *; [reflexivity|].
  rewrite IH by tauto. apply upd_other. intros E. apply H. now left.
Qed.
Lemma assign_all_in bn b r1 r2 y : In y (map bn (map fst b)) -> assign_all bn b r1 y = assign_all bn b r2 y.
Proof.
  revert r1 r2. induction b as [|[x w] b IH]; intros r1 r2 H; simpl in *; [contradiction|].
  destruct (in_dec N.eq_dec y (map bn (map fst b))) as [Hi|Hn].
  - now apply IH.
  - rewrite !assign_all_notin by assumption. destruct H as [E|H]; [|contradiction].
    subst y. now rewrite !upd_same.
Qed.

(* the bindings agree with `lookup` when the binding map is injective on the names bound *)
Lemma assign_all_lookup bn b r x w :
  (forall y, In y (map fst b) -> bn y = bn x -> y = x) ->
  lookup b x = Some w -> assign_all bn b r (bn x) = Some w.
Proof.
  revert r. induction b as [|[y wy] b IH]; intros r Hinj H; simpl in *; [discriminate|].
  destruct (lookup b x) as [w'|] eqn:L.
  - inversion H; subst w'. apply IH; [|reflexivity]. intros z Hz. apply Hinj. now right.
  - destruct (N.eqb_spec x y); [|discriminate]. inversion H; subst.
    rewrite assign_all_notin; [apply upd_same|].
    intros Hin. apply in_map_iff in Hin. destruct Hin as [z [Ez Hz]].
    assert (z = y) by (apply Hinj; [now right | assumption]). subst z.
    clear - L Hz. induction b as [|[z wz] b IH]; simpl in *; [contradiction|].
    destruct (lookup b y); [discriminate|]. destruct Hz as [E|Hz]; [|now apply IH].
    subst z. now rewrite N.eqb_refl in L.
Qed.

(* ------------------------------------------------------------------ domain of a successful match *)
Lemma pmatch_list_dom ps :
  Forall (fun p => forall v b, wf p -> pmatch p v = Some b -> same_names (map fst b) (binders p)) ps ->
  forall vs b, wf_all ps -> pmatch_list pmatch ps vs = Some b -> same_names (map fst b) (flat_map binders ps).
Proof.
  induction 1 as [|p ps Hp _ IH]; intros vs b Hwf H; simpl in *.
  - inversion H; subst. intros x; simpl; tauto.
  - destruct vs as [|v vs]; [discriminate|]. destruct (pmatch p v) as [b1|] eqn:E1; [|discriminate].
    destruct (pmatch_list pmatch ps vs) as [b2|] eqn:E2; [|discriminate]. inversion H; subst b.
    destruct Hwf as [Hw1 Hw2]. specialize (Hp _ _ Hw1 E1). specialize (IH _ _ Hw2 E2).
    intros x. rewrite map_app, !in_app_iff. now rewrite (Hp x), (IH x).
Qed.
Lemma pmatch_els_dom els :
  Forall (fun el => forall v b, wf (snd el) -> pmatch (snd el) v = Some b -> same_names (map fst b) (binders (snd el))) els ->
  forall vs b, wf_els els -> pmatch_els pmatch vs els = Some b ->
  same_names (map fst b) (flat_map (fun el => binders (snd el)) els).
Proof.
  induction 1 as [|el els Hp _ IH]; intros vs b Hwf H; simpl in *.
  - inversion H; subst. intros x; simpl; tauto.
  - destruct (nth_error vs (fst el)) as [w|]; [|discriminate].
    destruct (pmatch (snd el) w) as [b1|] eqn:E1; [|discriminate].
    destruct (pmatch_els pmatch vs els) as [b2|] eqn:E2; [|discriminate]. inversion H; subst b.
    destruct Hwf as [Hw1 Hw2]. specialize (Hp _ _ Hw1 E1). specialize (IH _ _ Hw2 E2).
    intros x. rewrite map_app, !in_app_iff. now rewrite (Hp x), (IH x).
Qed.
Lemma pmatch_or_dom ps B :
  Forall (fun p => forall v b, wf p -> pmatch p v = Some b -> same_names (map fst b) (binders p)) ps ->
  forall v b, wf_all ps -> Forall (fun q => same_names (binders q) B) ps ->
  pmatch_or pmatch v ps = Some b -> same_names (map fst b) B.
Proof.
  induction 1 as [|p ps Hp _ IH]; intros v b Hwf HB H; simpl in *; [discriminate|].
  destruct Hwf as [Hw1 Hw2]. inversion HB as [|? ? HB1 HB2]; subst.
  destruct (pmatch p v) as [b1|] eqn:E1.
  - inversion H; subst b1. specialize (Hp _ _ Hw1 E1). intros x. now rewrite (Hp x), (HB1 x).
  - eapply IH; eassumption.
Qed.
Lemma same_names_flat_or q t :
  Forall (fun q' => same_names (binders q') (binders q)) t -> same_names (flat_map binders (q :: t)) (binders q).
Proof.
  intros H x. simpl. rewrite in_app_iff. split; [|tauto]. intros [Hx|Hx]; [assumption|].
  apply in_flat_map in Hx. destruct Hx as [q' [Hq' Hx]]. rewrite Forall_forall in H. now apply (H q' Hq' x).
Qed.
Lemma pmatch_dom p : forall v b, wf p -> pmatch p v = Some b -> same_names (map fst b) (binders p).
Proof.
  induction p using pat_ind'; intros v b Hwf Hm.
  - inversion Hm; subst. intros x; simpl; tauto.
  - inversion Hm; subst. intros y; simpl; tauto.
  - simpl in Hm. destruct v; try discriminate. rewrite wf_tuple in Hwf. eapply pmatch_list_dom; eassumption.
  - simpl in Hm. destruct v; try discriminate. rewrite wf_object in Hwf. eapply pmatch_els_dom; eassumption.
  - simpl in Hm. destruct v; try discriminate. destruct (Nat.eqb tag0 tag); [|discriminate].
    rewrite wf_variant in Hwf. eapply pmatch_list_dom; eassumption.
  - rewrite wf_or in Hwf. destruct Hwf as [Hw Hs]. simpl in Hm.
    destruct ps as [|q t]; [discriminate|].
    assert (HB : Forall (fun q' => same_names (binders q') (binders q)) (q :: t)).
    { constructor; [intros x; tauto | assumption]. }
    pose proof (pmatch_or_dom (q :: t) (binders q) H v b Hw HB Hm) as D.
    pose proof (same_names_flat_or q t Hs) as F.
    intros x. rewrite (D x). symmetry. apply (F x).
Qed.

(* the `unwrap()` of `binding_names.get(&id.name)` never fails on a well-formed pattern: every variable of
   the pattern is a key of `pattern.bindings()` (which only looks at the first alternative of an or-pattern) *)
Lemma binders_in_bindings_list ps :
  Forall (fun q => wf q -> forall y, In y (binders q) -> In y (bindings_of q)) ps ->
  wf_all ps -> forall y, In y (flat_map binders ps) -> In y (flat_map bindings_of ps).
Proof.
  induction 1 as [|q ps Hq _ IH]; intros Hwf y Hy; simpl in *; [assumption|].
  destruct Hwf. rewrite in_app_iff in *. destruct Hy; [left; now apply Hq | right; now apply IH].
Qed.
Lemma binders_in_bindings_els els :
  Forall (fun el => wf (snd el) -> forall y, In y (binders (snd el)) -> In y (bindings_of (snd el))) els ->
  wf_els els -> forall y, In y (flat_map (fun el => binders (snd el)) els) ->
  In y (flat_map (fun el => bindings_of (snd el)) els).
Proof.
  induction 1 as [|q ps Hq _ IH]; intros Hwf y Hy; simpl in *; [assumption|].
  destruct Hwf. rewrite in_app_iff in *. destruct Hy; [left; now apply Hq | right; now apply IH].
Qed.
Lemma binders_in_bindings_of p : wf p -> forall y, In y (binders p) -> In y (bindings_of p).
Proof.
  induction p using pat_ind'; intros Hwf y Hx.
  - assumption.
  - assumption.
  - rewrite wf_tuple in Hwf. now apply binders_in_bindings_list.
  - rewrite wf_object in Hwf. now apply binders_in_bindings_els.
  - rewrite wf_variant in Hwf. now apply binders_in_bindings_list.
  - rewrite wf_or in Hwf. destruct Hwf as [Hw Hs]. destruct ps as [|q t]; [assumption|].
    inversion H as [|? ? Hq _]; subst. destruct Hw as [Hwq _]. apply Hq; [assumption|].
    apply (same_names_flat_or q t Hs y). exact Hx.
Qed.

(* ------------------------------------------------------------------ tuple loop = object loop on (position, pattern) *)
Definition indexed (i : nat) (ps : list pat) : list (nat * pat) := combine (seq i (length ps)) ps.

Lemma lower_tuple_object tmp L e ps : forall i n,
  lower_tuple tmp L e ps i n = lower_object tmp L e (indexed i ps) n.
Proof.
  induction ps as [|p ps IH]; intros i n; [reflexivity|].
  unfold indexed in *. simpl. now rewrite IH.
Qed.
Lemma skipn_nil_nth {A} (l : list A) : forall i, skipn i l = [] -> nth_error l i = None.
Proof. induction l as [|a l IH]; intros [|i] H; simpl in *; try reflexivity; try discriminate. now apply IH. Qed.
Lemma skipn_cons_nth {A} (l : list A) : forall i a t, skipn i l = a :: t -> nth_error l i = Some a /\ t = skipn (S i) l.
Proof.
  induction l as [|b l IH]; intros [|i] a t H; simpl in *; try discriminate.
  - inversion H; subst. split; reflexivity.
  - apply IH in H. destruct H as [H1 H2]. split; [assumption|]. destruct l; assumption.
Qed.
Lemma pmatch_list_els pm ps : forall i vs, pmatch_list pm ps (skipn i vs) = pmatch_els pm vs (indexed i ps).
Proof.
  induction ps as [|p ps IH]; intros i vs; [reflexivity|].
  unfold indexed in *. simpl. destruct (skipn i vs) as [|v t] eqn:E.
  - now rewrite (skipn_nil_nth _ _ E).
  - destruct (skipn_cons_nth _ _ _ _ E) as [H1 H2]. rewrite H1. subst t. now rewrite IH.
Qed.
Lemma shape_list_els ps : forall i vs, shape_list ps (skipn i vs) -> shape_els vs (indexed i ps).
Proof.
  induction ps as [|p ps IH]; intros i vs H; [exact I|].
  unfold indexed in *. simpl in *. destruct (skipn i vs) as [|v t] eqn:E; [contradiction|].
  destruct (skipn_cons_nth _ _ _ _ E) as [H1 H2]. rewrite H1. subst t. destruct H as [Ha Hb]. split; [assumption|].
  now apply IH.
Qed.
Lemma wf_els_indexed ps : forall i, wf_all ps -> wf_els (indexed i ps).
Proof. induction ps as [|p ps IH]; intros i H; [exact I|]. unfold indexed in *. simpl in *. destruct H. split; auto. Qed.
Lemma binders_indexed ps : forall i, flat_map (fun el => binders (snd el)) (indexed i ps) = flat_map binders ps.
Proof. induction ps as [|p ps IH]; intros i; [reflexivity|]. unfold indexed in *. simpl. now rewrite IH. Qed.
Lemma Forall_indexed (Q : pat -> Prop) ps : forall i, Forall Q ps -> Forall (fun el => Q (snd el)) (indexed i ps).
Proof.
  induction ps as [|p ps IH]; intros i H; [constructor|]. unfold indexed in *. simpl.
  inversion H; subst. constructor; auto.
Qed.

(* ------------------------------------------------------------------ the main induction *)
Section Correct.
  Variable tmp : nat -> name.
  Variable bn : name -> name.
  Hypothesis tmp_inj : forall i j, tmp i = tmp j -> i = j.

  Notation lowerp := (lower_pattern tmp bn).

  Notation low := (SV.C01pat.Lower.low tmp).
  Notation off := (SV.C01pat.Lower.off tmp).
  Notation stable := (SV.C01pat.Lower.stable tmp bn).
  Definition agree_off (n n1 : nat) (B : list name) (r r' : name -> option value) : Prop :=
    forall y, off n n1 y -> ~ In y (map bn B) -> r' y = r y.
  Definition post (n n1 : nat) (B : list name) (r r' : name -> option value) (c : expr)
             (m : option (list (name * value))) : Prop :=
    agree_off n n1 B r r' /\
    match m with
    | Some b => eval c r' = Some (VInt 1) /\ forall y, off n n1 y -> r' y = assign_all bn b r y
    | None => eval c r' = Some (VInt 0)
    end.

  Definition P (p : pat) : Prop :=
    forall B e n,
      wf p -> incl (binders p) B -> stable n B e -> (forall x, In x B -> low n (bn x)) ->
      let '(ss, c, n1) := lowerp p e n in
      n <= n1 /\
      forall v r, shape_ok p v -> eval e r = Some v ->
        exists r', run_block ss r = Ok r' /\ post n n1 B r r' c (pmatch p v).

  Lemma low_off n n1 y : low n y -> off n n1 y.
  Proof. intros H i Hi _. now apply H. Qed.
  Lemma low_mono n n' y : n <= n' -> low n y -> low n' y.
  Proof. intros Hn H i Hi. apply H. lia. Qed.
  Lemma off_sub n n1 m m1 y : n <= m -> m1 <= n1 -> off n n1 y -> off m m1 y.
  Proof. intros H1 H2 H i Hi Hj. apply H; lia. Qed.
  Ltac offs := match goal with H : off ?a ?b ?y |- off ?c ?d ?y => apply (off_sub a b c d y); [lia | lia | exact H] end.
  Ltac nottmp := let E := fresh in intros E; match goal with H : off _ _ ?y |- _ => eapply (H _); [| | symmetry; exact E]; lia end.
  Lemma stable_eval n n1 B e r r' : stable n B e -> agree_off n n1 B r r' -> eval e r' = eval e r.
  Proof.
    destruct e as [z|y]; simpl; [reflexivity|]. intros [Hl Hn] Ha. apply Ha; [now apply low_off | assumption].
  Qed.
  Lemma stable_mono n n' B B' e : n <= n' -> incl B' B -> stable n B e -> stable n' B' e.
  Proof.
    destruct e as [z|y]; simpl; [tauto|]. intros Hn Hi [Hl Hb]. split; [eapply low_mono; eassumption|].
    intros Hy. apply Hb. apply in_map_iff in Hy. destruct Hy as [x [Ex Hx]]. apply in_map_iff. exists x. auto.
  Qed.
  Lemma stable_tmp n B k : k < n -> (forall x, In x B -> low k (bn x)) -> stable n B (EVar (tmp k)).
  Proof.
    intros Hk Hl. split.
    - intros i Hi E. apply tmp_inj in E. lia.
    - intros Hy. apply in_map_iff in Hy. destruct Hy as [x [Ex Hx]]. apply (Hl x Hx k); [lia | now symmetry].
  Qed.

  (* the `if cond == ONE {..} else {..}` step: element (counters [na, n2)) in front of the rest ([n0, na)) *)
  Lemma combine_spec B n0 na n2 r r1 ns nc acc_s acc_e (m1 m2 : option (list (name * value))) :
    n0 <= na -> na <= n2 ->
    run_block ns r = Ok r1 ->
    post na n2 B r r1 nc m1 ->
    (m1 <> None -> exists r2, run_block acc_s r1 = Ok r2 /\ post n0 na B r1 r2 acc_e m2) ->
    let '(ss, c, n3) := combine_elem tmp ns nc acc_s acc_e n2 in
    n2 <= n3 /\
    exists r', run_block ss r = Ok r' /\
      post n0 n3 B r r' c (match m1, m2 with Some b1, Some b2 => Some (b1 ++ b2) | _, _ => None end).
  Proof.
    intros H0 H1 Hrun [Ha1 Hm1] Hrest. unfold combine_elem.
    destruct (is_one nc) eqn:One.
    - split; [lia|].
      assert (Enc : nc = EInt 1).
      { destruct nc as [z|]; simpl in One; [|discriminate]. destruct z as [|q|]; try discriminate.
        destruct q; try discriminate. reflexivity. }
      destruct m1 as [b1|]; [|subst nc; simpl in Hm1; discriminate].
      destruct Hrest as [r2 [Hr2 [Ha2 Hm2]]]; [discriminate|].
      exists r2. split; [rewrite run_block_app, Hrun; exact Hr2|]. destruct Hm1 as [_ Hb1]. split.
      + intros y Hy Hn. rewrite Ha2 by (assumption || offs). apply Ha1; [offs | assumption].
      + destruct m2 as [b2|]; [|assumption]. destruct Hm2 as [Hc Hb2]. split; [assumption|].
        intros y Hy. rewrite Hb2 by offs.
        rewrite assign_all_app. apply assign_all_pointwise. apply Hb1. offs.
    - split; [lia|].
      assert (Hrb : run_block (ns ++ [SIf nc acc_s [] [(tmp n2, acc_e, ZERO)]]) r =
                    match run_stmt (SIf nc acc_s [] [(tmp n2, acc_e, ZERO)]) r1 with Ok r' => Ok r' | o => o end).
      { rewrite run_block_app, Hrun. reflexivity. }
      rewrite run_if in Hrb.
      destruct m1 as [b1|].
      + destruct Hm1 as [Hc1 Hb1]. rewrite Hc1 in Hrb. simpl truth in Hrb.
        destruct Hrest as [r2 [Hr2 [Ha2 Hm2]]]; [discriminate|]. rewrite Hr2 in Hrb. simpl in Hrb.
        assert (Hev : exists k, eval acc_e r2 = Some (VInt k) /\
                  match m2 with Some _ => k = 1%Z | None => k = 0%Z end).
        { destruct m2 as [b2|]; [exists 1%Z; split; [apply Hm2 | reflexivity] | exists 0%Z; split; [apply Hm2 | reflexivity]]. }
        destruct Hev as [k [Hk Hk2]]. rewrite Hk in Hrb. eexists. split; [exact Hrb|]. split.
        * intros y Hy Hn. rewrite upd_other by nottmp.
          rewrite Ha2 by (assumption || offs). apply Ha1; [offs | assumption].
        * destruct m2 as [b2|]; subst k.
          -- split; [simpl; apply upd_same|]. intros y Hy.
             rewrite upd_other by nottmp.
             destruct Hm2 as [_ Hb2]. rewrite Hb2 by offs.
             rewrite assign_all_app. apply assign_all_pointwise. apply Hb1. offs.
          -- simpl. apply upd_same.
      + rewrite Hm1 in Hrb. simpl in Hrb. eexists. split; [exact Hrb|]. split.
        * intros y Hy Hn. rewrite upd_other by nottmp.
          apply Ha1; [offs | assumption].
        * simpl. apply upd_same.
  Qed.

  Lemma post_shift n n1 B r r0 r1 c m k :
    k < n -> n <= n1 -> (forall y, y <> tmp k -> r0 y = r y) ->
    post n n1 B r0 r1 c m -> post k n1 B r r1 c m.
  Proof.
    intros Hk Hn1 H0 [Ha Hm]. split.
    - intros y Hy Hn. rewrite Ha by (offs || assumption). apply H0. nottmp.
    - destruct m as [b|]; [|assumption]. destruct Hm as [Hc Hb]. split; [assumption|].
      intros y Hy. rewrite Hb by offs. apply assign_all_pointwise. apply H0. nottmp.
  Qed.

  (* the Object loop (and, through lower_tuple_object, the Tuple loop) *)
  Lemma object_spec els :
    Forall (fun el => P (snd el)) els ->
    forall B e n,
      wf_els els -> incl (flat_map (fun el => binders (snd el)) els) B -> stable n B e ->
      (forall x, In x B -> low n (bn x)) ->
      let '(ss, c, n1) := lower_object tmp lowerp e els n in
      n <= n1 /\
      forall vs r, shape_els vs els -> eval e r = Some (VStruct vs) ->
        exists r', run_block ss r = Ok r' /\ post n n1 B r r' c (pmatch_els pmatch vs els).
  Proof.
    induction 1 as [|el els Hp _ IH]; intros B e n Hwf Hincl Hst Hlow.
    - simpl. split; [lia|]. intros vs r _ _. exists r. split; [reflexivity|]. split; [intros y _ _; reflexivity|].
      split; [reflexivity | intros y _; reflexivity].
    - simpl in Hwf, Hincl. destruct Hwf as [Hw1 Hw2].
      assert (Hi1 : incl (binders (snd el)) B) by (intros x Hx; apply Hincl, in_app_iff; now left).
      assert (Hi2 : incl (flat_map (fun el => binders (snd el)) els) B) by (intros x Hx; apply Hincl, in_app_iff; now right).
      specialize (IH B e n Hw2 Hi2 Hst Hlow). simpl.
      destruct (lower_object tmp lowerp e els n) as [[acc_s acc_e] na] eqn:L1. destruct IH as [Hna IHd].
      assert (Hst1 : stable (S na) B (EVar (tmp na))).
      { apply stable_tmp; [lia|]. intros x Hx. eapply low_mono; [|apply Hlow; exact Hx]. lia. }
      assert (Hlow1 : forall x, In x B -> low (S na) (bn x)).
      { intros x Hx. eapply low_mono; [|apply Hlow; exact Hx]. lia. }
      specialize (Hp B (EVar (tmp na)) (S na) Hw1 Hi1 Hst1 Hlow1).
      destruct (lowerp (snd el) (EVar (tmp na)) (S na)) as [[ns nc] n2] eqn:L2. destruct Hp as [Hn2 Hpd].
      destruct (combine_elem tmp (SIndex (tmp na) e (fst el) :: ns) nc acc_s acc_e n2) as [[ss c] n3] eqn:L3.
      assert (Hn3 : n2 <= n3).
      { unfold combine_elem in L3. destruct (is_one nc); inversion L3; lia. }
      split; [lia|]. intros vs r Hsh Hev. simpl in Hsh.
      destruct (nth_error vs (fst el)) as [w|] eqn:Nth; [|destruct Hsh; contradiction]. destruct Hsh as [Hs1 Hs2].
      set (r0 := upd r (tmp na) (Some w)).
      destruct (Hpd w r0 Hs1) as [r1 [Hr1 Hpost1]]; [simpl; apply upd_same|].
      assert (Hrun : run_block (SIndex (tmp na) e (fst el) :: ns) r = Ok r1).
      { rewrite run_block_cons. simpl run_stmt. rewrite Hev, Nth. exact Hr1. }
      assert (Hpost1' : post na n2 B r r1 nc (pmatch (snd el) w)).
      { eapply post_shift; [| | |exact Hpost1]; [lia|lia|]. intros y Hy. unfold r0. now apply upd_other. }
      pose proof (combine_spec B n na n2 r r1 _ nc acc_s acc_e (pmatch (snd el) w) (pmatch_els pmatch vs els)
                    Hna ltac:(lia) Hrun Hpost1') as C.
      rewrite L3 in C. destruct C as [_ [r' [Hr' Hpost']]].
      { intros _. apply IHd; [assumption|]. rewrite <- Hev. eapply stable_eval; [|apply Hpost1'].
        eapply stable_mono; [| |exact Hst]; [lia | apply incl_refl]. }
      exists r'. split; [assumption|]. simpl. try rewrite Nth.
      destruct (pmatch (snd el) w); [|assumption]. destruct (pmatch_els pmatch vs els); assumption.
  Qed.

  Lemma payload_spec ps :
    Forall P ps ->
    forall B xs n,
      wf_all ps -> incl (flat_map binders ps) B ->
      (forall x, In x xs -> low n x /\ ~ In x (map bn B)) -> (forall x, In x B -> low n (bn x)) ->
      let '(ss, c, n1) := lower_payload tmp lowerp ps xs n in
      n <= n1 /\
      forall ws r, shape_list_exact ps ws -> Forall2 (fun x w => r x = Some w) xs ws ->
        exists r', run_block ss r = Ok r' /\ post n n1 B r r' c (pmatch_list pmatch ps ws).
  Proof.
    induction 1 as [|p ps Hp _ IH]; intros B xs n Hwf Hincl Hxs Hlow.
    - simpl. split; [lia|]. intros ws r _ _. exists r. split; [reflexivity|]. split; [intros y _ _; reflexivity|].
      split; [reflexivity | intros y _; reflexivity].
    - destruct xs as [|x xt].
      { simpl. split; [lia|]. intros ws r Hsh HF. inversion HF; subst. simpl in Hsh. contradiction. }
      simpl in Hwf, Hincl. destruct Hwf as [Hw1 Hw2].
      assert (Hi1 : incl (binders p) B) by (intros z Hz; apply Hincl, in_app_iff; now left).
      assert (Hi2 : incl (flat_map binders ps) B) by (intros z Hz; apply Hincl, in_app_iff; now right).
      specialize (IH B xt n Hw2 Hi2 (fun z Hz => Hxs z (or_intror Hz)) Hlow). simpl.
      destruct (lower_payload tmp lowerp ps xt n) as [[acc_s acc_e] na] eqn:L1. destruct IH as [Hna IHd].
      assert (Hst1 : stable na B (EVar x)).
      { destruct (Hxs x (or_introl eq_refl)) as [Hl Hb]. split; [eapply low_mono; eassumption | assumption]. }
      assert (Hlow1 : forall z, In z B -> low na (bn z)).
      { intros z Hz. eapply low_mono; [|apply Hlow; exact Hz]. lia. }
      specialize (Hp B (EVar x) na Hw1 Hi1 Hst1 Hlow1).
      destruct (lowerp p (EVar x) na) as [[ns nc] n2] eqn:L2. destruct Hp as [Hn2 Hpd].
      destruct (combine_elem tmp ns nc acc_s acc_e n2) as [[ss c] n3] eqn:L3.
      assert (Hn3 : n2 <= n3).
      { unfold combine_elem in L3. destruct (is_one nc); inversion L3; lia. }
      split; [lia|]. intros ws r Hsh HF. inversion HF as [|? w ? wt Hxw HFt]; subst. simpl in Hsh.
      destruct Hsh as [Hs1 Hs2].
      destruct (Hpd w r Hs1 Hxw) as [r1 [Hr1 Hpost1]].
      pose proof (combine_spec B n na n2 r r1 ns nc acc_s acc_e (pmatch p w) (pmatch_list pmatch ps wt)
                    Hna Hn2 Hr1 Hpost1) as C.
      rewrite L3 in C. destruct C as [_ [r' [Hr' Hpost']]].
      { intros _. apply IHd; [assumption|]. destruct Hpost1 as [Ha1 _].
        clear - HFt Ha1 Hxs Hna. induction HFt as [|z wz zt wzt Hz _ IHF]; constructor.
        - rewrite Ha1; [assumption| |apply (Hxs z); right; now left].
          apply low_off. eapply low_mono; [exact Hna|]. apply (Hxs z). right; now left.
        - apply IHF. intros z' [E|Hz']; apply Hxs; [now left | right; now right]. }
      exists r'. split; [assumption|]. simpl.
      destruct (pmatch p w); [|assumption]. destruct (pmatch_list pmatch ps wt); assumption.
  Qed.

  Lemma post_weaken n n1 B B' r r' c m : incl B' B -> post n n1 B' r r' c m -> post n n1 B r r' c m.
  Proof.
    intros Hi [Ha Hm]. split; [|assumption]. intros y Hy Hn. apply Ha; [assumption|].
    intros Hin. apply Hn. apply in_map_iff in Hin. destruct Hin as [x [Ex Hx]]. apply in_map_iff. exists x. auto.
  Qed.

  (* the Or chain; B0 = the names every alternative binds *)
  Lemma or_spec ps :
    Forall P ps ->
    forall B0 B e n,
      wf_all ps -> Forall (fun q => same_names (binders q) B0) ps -> incl B0 B -> stable n B e ->
      (forall x, In x B -> low n (bn x)) ->
      let '(ss, c, n1) := lower_or tmp lowerp e ps n in
      n <= n1 /\
      forall v r, shape_all v ps -> eval e r = Some v ->
        exists r', run_block ss r = Ok r' /\ post n n1 B r r' c (pmatch_or pmatch v ps).
  Proof.
    induction 1 as [|p ps Hp Hps IH]; intros B0 B e n Hwf HB0 Hincl Hst Hlow.
    - simpl. split; [lia|]. intros v r _ _. exists r. split; [reflexivity|]. split; [intros y _ _; reflexivity|]. reflexivity.
    - simpl in Hwf. destruct Hwf as [Hw1 Hw2]. inversion HB0 as [|? ? HB1 HB2]; subst.
      assert (Hi1 : incl (binders p) B) by (intros x Hx; apply Hincl, (HB1 x), Hx).
      destruct ps as [|q t].
      + (* one alternative *)
        specialize (Hp B e n Hw1 Hi1 Hst Hlow). simpl.
        destruct (lowerp p e n) as [[ss c] n1]. destruct Hp as [Hn1 Hpd]. split; [assumption|].
        intros v r [Hs _] Hev. destruct (Hpd v r Hs Hev) as [r' [Hr' Hpost]]. exists r'. split; [assumption|].
        simpl. destruct (pmatch p v); assumption.
      + specialize (IH B0 B e n Hw2 HB2 Hincl Hst Hlow).
        change (lower_or tmp lowerp e (p :: q :: t) n) with
          (let '(prev_s, prev_e, n1) := lower_or tmp lowerp e (q :: t) n in
           let '(s, c, n2) := lowerp p e n1 in
           (s ++ [SIf c [] prev_s [(tmp n2, ONE, prev_e)]], EVar (tmp n2), S n2)).
        destruct (lower_or tmp lowerp e (q :: t) n) as [[prev_s prev_e] na] eqn:L1. destruct IH as [Hna IHd].
        assert (Hst1 : stable na (binders p) e) by (eapply stable_mono; [| |exact Hst]; assumption).
        assert (Hlow1 : forall x, In x (binders p) -> low na (bn x)).
        { intros x Hx. eapply low_mono; [|apply Hlow, Hi1, Hx]. lia. }
        specialize (Hp (binders p) e na Hw1 (incl_refl _) Hst1 Hlow1).
        destruct (lowerp p e na) as [[s c] n2] eqn:L2. destruct Hp as [Hn2 Hpd].
        split; [lia|]. intros v r Hsh Hev. destruct Hsh as [Hs1 Hs2].
        destruct (Hpd v r Hs1 Hev) as [r1 [Hr1 [Ha1 Hm1]]].
        assert (Hrb : run_block (s ++ [SIf c [] prev_s [(tmp n2, ONE, prev_e)]]) r =
                      match run_stmt (SIf c [] prev_s [(tmp n2, ONE, prev_e)]) r1 with Ok r' => Ok r' | o => o end).
        { rewrite run_block_app, Hr1. reflexivity. }
        rewrite run_if in Hrb.
        change (pmatch_or pmatch v (p :: q :: t)) with
          (match pmatch p v with Some b => Some b | None => pmatch_or pmatch v (q :: t) end).
        destruct (pmatch p v) as [b|] eqn:Em.
        * destruct Hm1 as [Hc Hb]. rewrite Hc in Hrb. simpl in Hrb. eexists. split; [exact Hrb|]. split.
          -- intros y Hy Hn. rewrite upd_other by nottmp. apply Ha1; [offs|].
             intros Hin. apply Hn. apply in_map_iff in Hin. destruct Hin as [x [Ex Hx]]. apply in_map_iff. exists x. auto.
          -- split; [simpl; apply upd_same|]. intros y Hy. rewrite upd_other by nottmp. apply Hb. offs.
        * rewrite Hm1 in Hrb. simpl truth in Hrb. cbv iota in Hrb.
          assert (Hev1 : eval e r1 = Some v) by (rewrite <- Hev; eapply stable_eval; eassumption).
          destruct (IHd v r1 Hs2 Hev1) as [r2 [Hr2 [Ha2 Hm2]]]. rewrite Hr2 in Hrb. simpl in Hrb.
          assert (Hk : exists k, eval prev_e r2 = Some (VInt k) /\
                    match pmatch_or pmatch v (q :: t) with Some _ => k = 1%Z | None => k = 0%Z end).
          { destruct (pmatch_or pmatch v (q :: t)); [exists 1%Z; split; [apply Hm2 | reflexivity] | exists 0%Z; split; [apply Hm2 | reflexivity]]. }
          destruct Hk as [k [Hk Hk2]]. rewrite Hk in Hrb. eexists. split; [exact Hrb|].
          assert (Hsub : forall y, In y (map bn (binders p)) -> In y (map bn B)).
          { intros y Hin. apply in_map_iff in Hin. destruct Hin as [x [Ex Hx]]. apply in_map_iff. exists x. auto. }
          split.
          -- intros y Hy Hn. rewrite upd_other by nottmp. rewrite Ha2 by (offs || assumption).
             apply Ha1; [offs | auto].
          -- destruct (pmatch_or pmatch v (q :: t)) as [b'|] eqn:Eo; subst k; [|simpl; apply upd_same].
             split; [simpl; apply upd_same|]. intros y Hy. rewrite upd_other by nottmp.
             destruct Hm2 as [_ Hb2]. rewrite Hb2 by offs.
             destruct (in_dec N.eq_dec y (map bn (map fst b'))) as [Hin|Hnin].
             ++ now apply assign_all_in.
             ++ rewrite !assign_all_notin by assumption. apply Ha1; [offs|].
                intros Hin. apply Hnin. apply in_map_iff in Hin. destruct Hin as [x [Ex Hx]].
                apply in_map_iff. exists x. split; [assumption|].
                assert (D : same_names (map fst b') B0).
                { eapply (pmatch_or_dom (q :: t) B0); [|exact Hw2|exact HB2|exact Eo].
                  apply Forall_forall. intros p' _ v' b0. apply pmatch_dom. }
                apply (D x). apply (HB1 x). exact Hx.
  Qed.

  Lemma bind_payload_spec xs : forall vs r,
    NoDup xs -> length xs = length vs ->
    exists r0, bind_payload (map Some xs) vs r = Some r0 /\
      Forall2 (fun x w => r0 x = Some w) xs vs /\ forall y, ~ In y xs -> r0 y = r y.
  Proof.
    induction xs as [|x xs IH]; intros vs r Hnd Hlen; destruct vs as [|v vs]; simpl in *; try discriminate.
    - exists r. split; [reflexivity|]. split; [constructor | reflexivity].
    - inversion Hnd; subst. destruct (IH vs (upd r x (Some v))) as [r0 [Hb [HF Hfr]]]; [assumption | lia |].
      exists r0. split; [assumption|]. split.
      + constructor; [|assumption]. rewrite Hfr by assumption. apply upd_same.
      + intros y Hy. rewrite Hfr by tauto. apply upd_other. intros E. apply Hy. now left.
  Qed.
  Lemma shape_list_exact_length ps : forall ws, shape_list_exact ps ws -> length ps = length ws.
  Proof. induction ps as [|p ps IH]; intros [|w ws] H; simpl in *; try contradiction; [reflexivity|]. f_equal. apply IH, H. Qed.
  Lemma NoDup_tmp_seq n k : NoDup (map tmp (seq n k)).
  Proof.
    revert n. induction k as [|k IH]; intros n; simpl; constructor; [|apply IH].
    intros Hin. apply in_map_iff in Hin. destruct Hin as [j [Ej Hj]]. apply tmp_inj in Ej. apply in_seq in Hj. lia.
  Qed.

  Lemma lower_variant_eq tag ps e n :
    lowerp (PVariant tag ps) e n =
    let k := length ps in
    let xs := map tmp (seq n k) in
    let '(acc_s, acc_e, n1) := lower_payload tmp lowerp ps xs (n + k) in
    ([SDestr e tag (map Some xs) acc_s [] [(tmp n1, acc_e, ZERO)]], EVar (tmp n1), S n1).
  Proof. reflexivity. Qed.

  Theorem lower_pattern_P : forall p, P p.
  Proof.
    induction p using pat_ind'; intros B e n Hwf Hincl Hst Hlow.
    - (* Wildcard *)
      simpl. split; [lia|]. intros v r _ _. exists r. split; [reflexivity|]. split; [intros y _ _; reflexivity|].
      split; [reflexivity | intros y _; reflexivity].
    - (* Id *)
      simpl. split; [lia|]. intros v r _ Hev. exists (upd r (bn x) (Some v)). split; [simpl; now rewrite Hev|].
      split.
      + intros y _ Hn. apply upd_other. intros E. apply Hn. apply in_map_iff. exists x. split; [now symmetry|].
        apply Hincl. now left.
      + split; [reflexivity | intros y _; reflexivity].
    - (* Tuple *)
      change (lowerp (PTuple ps) e n) with (lower_tuple tmp lowerp e ps 0 n). rewrite lower_tuple_object.
      rewrite wf_tuple in Hwf.
      pose proof (object_spec (indexed 0 ps) (Forall_indexed P ps 0 H) B e n (wf_els_indexed ps 0 Hwf)) as O.
      rewrite binders_indexed in O. specialize (O Hincl Hst Hlow).
      destruct (lower_object tmp lowerp e (indexed 0 ps) n) as [[ss c] n1]. destruct O as [Hn1 Od].
      split; [assumption|]. intros v r Hsh Hev. rewrite shape_tuple in Hsh. destruct v as [|vs|]; try contradiction.
      destruct (Od vs r (shape_list_els ps 0 vs Hsh) Hev) as [r' [Hr' Hpost]]. exists r'. split; [assumption|].
      change (pmatch (PTuple ps) (VStruct vs)) with (pmatch_list pmatch ps (skipn 0 vs)).
      now rewrite pmatch_list_els.
    - (* Object *)
      change (lowerp (PObject els) e n) with (lower_object tmp lowerp e els n). rewrite wf_object in Hwf.
      pose proof (object_spec els H B e n Hwf Hincl Hst Hlow) as O.
      destruct (lower_object tmp lowerp e els n) as [[ss c] n1]. destruct O as [Hn1 Od].
      split; [assumption|]. intros v r Hsh Hev. rewrite shape_object in Hsh. destruct v as [|vs|]; try contradiction.
      exact (Od vs r Hsh Hev).
    - (* Variant *)
      rewrite lower_variant_eq. cbv zeta. rewrite wf_variant in Hwf.
      set (k := length ps). set (xs := map tmp (seq n k)).
      assert (Hxs : forall x, In x xs -> low (n + k) x /\ ~ In x (map bn B)).
      { intros x Hx. apply in_map_iff in Hx. destruct Hx as [j [Ej Hj]]. apply in_seq in Hj. subst x. split.
        - intros i Hi E. apply tmp_inj in E. lia.
        - intros Hin. apply in_map_iff in Hin. destruct Hin as [z [Ez Hz]]. apply (Hlow z Hz j); [lia | now symmetry]. }
      assert (Hlow1 : forall x, In x B -> low (n + k) (bn x)).
      { intros x Hx. eapply low_mono; [|apply Hlow, Hx]. lia. }
      pose proof (payload_spec ps H B xs (n + k) Hwf Hincl Hxs Hlow1) as Pl.
      destruct (lower_payload tmp lowerp ps xs (n + k)) as [[acc_s acc_e] n1]. destruct Pl as [Hn1 Pd].
      split; [lia|]. intros v r Hsh Hev. rewrite shape_variant in Hsh. destruct v as [| |t vs]; try contradiction.
      assert (Hrb : run_block [SDestr e tag (map Some xs) acc_s [] [(tmp n1, acc_e, ZERO)]] r =
                    match run_stmt (SDestr e tag (map Some xs) acc_s [] [(tmp n1, acc_e, ZERO)]) r with
                    | Ok r' => Ok r' | o => o end) by reflexivity.
      rewrite run_destr, Hev in Hrb.
      change (pmatch (PVariant tag ps) (VVariant t vs)) with
        (if Nat.eqb t tag then pmatch_list pmatch ps vs else None).
      destruct (Nat.eqb_spec t tag) as [Et|Et].
      + specialize (Hsh Et). pose proof (shape_list_exact_length _ _ Hsh) as Hlen.
        destruct (bind_payload_spec xs vs r) as [r0 [Hb [HF Hfr]]].
        { apply NoDup_tmp_seq. } { unfold xs. rewrite map_length, seq_length. exact Hlen. }
        rewrite Hb in Hrb. destruct (Pd vs r0 Hsh HF) as [r1 [Hr1 [Ha1 Hm1]]]. rewrite Hr1 in Hrb. simpl in Hrb.
        assert (Hk : exists kk, eval acc_e r1 = Some (VInt kk) /\
                  match pmatch_list pmatch ps vs with Some _ => kk = 1%Z | None => kk = 0%Z end).
        { destruct (pmatch_list pmatch ps vs); [exists 1%Z; split; [apply Hm1 | reflexivity] | exists 0%Z; split; [apply Hm1 | reflexivity]]. }
        destruct Hk as [kk [Hk Hk2]]. rewrite Hk in Hrb. eexists. split; [exact Hrb|].
        assert (Hnx : forall y, off n (S n1) y -> ~ In y xs).
        { intros y Hy Hin. apply in_map_iff in Hin. destruct Hin as [j [Ej Hj]]. apply in_seq in Hj.
          apply (Hy j); [lia | lia | assumption]. }
        split.
        * intros y Hy Hn. rewrite upd_other by nottmp. rewrite Ha1 by (offs || assumption). apply Hfr. now apply Hnx.
        * destruct (pmatch_list pmatch ps vs) as [b|]; subst kk; [|simpl; apply upd_same].
          split; [simpl; apply upd_same|]. intros y Hy. rewrite upd_other by nottmp.
          destruct Hm1 as [_ Hb1]. rewrite Hb1 by offs. apply assign_all_pointwise. apply Hfr. now apply Hnx.
      + simpl in Hrb. eexists. split; [exact Hrb|]. split.
        * intros y Hy Hn. apply upd_other. nottmp.
        * simpl. apply upd_same.
    - (* Or *)
      change (lowerp (POr ps) e n) with (lower_or tmp lowerp e ps n). rewrite wf_or in Hwf. destruct Hwf as [Hw Hs].
      set (B0 := match ps with [] => [] | q :: _ => binders q end).
      assert (HB0 : Forall (fun q => same_names (binders q) B0) ps).
      { destruct ps as [|q t]; [constructor|]. constructor; [intros y; tauto | exact Hs]. }
      assert (Hi0 : incl B0 B).
      { destruct ps as [|q t]; [intros y []|]. intros y Hy. apply Hincl. simpl. apply in_app_iff. now left. }
      pose proof (or_spec ps H B0 B e n Hw HB0 Hi0 Hst Hlow) as O.
      destruct (lower_or tmp lowerp e ps n) as [[ss c] n1]. destruct O as [Hn1 Od].
      split; [assumption|]. intros v r Hsh Hev. rewrite shape_or in Hsh. exact (Od v r Hsh Hev).
  Qed.
End Correct.

(* ------------------------------------------------------------------ the counter only grows *)

Section Mono.
  Variable tmp : nat -> name.
  Variable bn : name -> name.
  Variable L : pat -> expr -> nat -> list stmt * expr * nat.

  Lemma combine_mono ns nc acc_s acc_e n : n <= cnt (combine_elem tmp ns nc acc_s acc_e n).
  Proof. unfold combine_elem. destruct (is_one nc); simpl; lia. Qed.

  Lemma lower_object_mono e els :
    Forall (fun el => forall e n, n <= cnt (L (snd el) e n)) els -> forall n, n <= cnt (lower_object tmp L e els n).
  Proof.
    induction 1 as [|el els Hp _ IH]; intros n; simpl; [unfold cnt; simpl; lia|].
    specialize (IH n). destruct (lower_object tmp L e els n) as [[a b] na]. unfold cnt in IH; simpl in IH.
    specialize (Hp (EVar (tmp na)) (S na)). destruct (L (snd el) (EVar (tmp na)) (S na)) as [[c d] n2].
    unfold cnt in Hp; simpl in Hp. pose proof (combine_mono (SIndex (tmp na) e (fst el) :: c) d a b n2). lia.
  Qed.
  Lemma lower_payload_mono ps :
    Forall (fun p => forall e n, n <= cnt (L p e n)) ps -> forall xs n, n <= cnt (lower_payload tmp L ps xs n).
  Proof.
    induction 1 as [|p ps Hp _ IH]; intros xs n; simpl; [unfold cnt; simpl; lia|].
    destruct xs as [|x xt]; [unfold cnt; simpl; lia|].
    specialize (IH xt n). destruct (lower_payload tmp L ps xt n) as [[a b] na]. unfold cnt in IH; simpl in IH.
    specialize (Hp (EVar x) na). destruct (L p (EVar x) na) as [[c d] n2].
    unfold cnt in Hp; simpl in Hp. pose proof (combine_mono c d a b n2). lia.
  Qed.
  Lemma lower_or_mono e ps :
    Forall (fun p => forall e n, n <= cnt (L p e n)) ps -> forall n, n <= cnt (lower_or tmp L e ps n).
  Proof.
    induction 1 as [|p ps Hp _ IH]; intros n; [unfold cnt; simpl; lia|].
    destruct ps as [|q t]; [apply Hp|].
    change (lower_or tmp L e (p :: q :: t) n) with
      (let '(prev_s, prev_e, n1) := lower_or tmp L e (q :: t) n in
       let '(s, c, n2) := L p e n1 in
       (s ++ [SIf c [] prev_s [(tmp n2, ONE, prev_e)]], EVar (tmp n2), S n2)).
    specialize (IH n). destruct (lower_or tmp L e (q :: t) n) as [[a b] na]. unfold cnt in IH; simpl in IH.
    specialize (Hp e na). destruct (L p e na) as [[c d] n2]. unfold cnt in *; simpl in *. lia.
  Qed.
End Mono.

Lemma lower_pattern_mono tmp bn p : forall e n, n <= cnt (lower_pattern tmp bn p e n).
Proof.
  induction p using pat_ind'; intros e n.
  - unfold cnt; simpl; lia.
  - unfold cnt; simpl; lia.
  - change (lower_pattern tmp bn (PTuple ps) e n) with (lower_tuple tmp (lower_pattern tmp bn) e ps 0 n).
    rewrite lower_tuple_object. apply lower_object_mono.
    exact (Forall_indexed (fun p => forall e n, n <= cnt (lower_pattern tmp bn p e n)) ps 0 H).
  - apply lower_object_mono. assumption.
  - rewrite lower_variant_eq. cbv zeta.
    pose proof (lower_payload_mono tmp (lower_pattern tmp bn) ps H (map tmp (seq n (length ps))) (n + length ps)) as M.
    destruct (lower_payload tmp (lower_pattern tmp bn) ps (map tmp (seq n (length ps))) (n + length ps)) as [[a b] n1].
    unfold cnt in *; simpl in *. lia.
  - apply lower_or_mono. assumption.
Qed.

(* ------------------------------------------------------------------ the statements of Props.v *)
Lemma lookup_in b x w : lookup b x = Some w -> In x (map fst b).
Proof.
  induction b as [|[y wy] b IH]; simpl; [discriminate|]. destruct (lookup b x).
  - intros E. right. now apply IH.
  - destruct (N.eqb_spec x y); [intros _; left; now symmetry | discriminate].
Qed.

Theorem lower_pattern_correct (tmp : nat -> name) (bn : name -> name) :
  (forall i j, tmp i = tmp j -> i = j) ->
  forall p e n v r,
    wf p -> shape_ok p v -> eval e r = Some v ->
    stable tmp bn n (binders p) e -> (forall x, In x (binders p) -> low tmp n (bn x)) ->
    exists r',
      run_block (stmts_of (lower_pattern tmp bn p e n)) r = Ok r' /\
      let c := cond_of (lower_pattern tmp bn p e n) in
      let n1 := cnt (lower_pattern tmp bn p e n) in
      (eval c r' = Some (VInt 1) <-> exists b, pmatch p v = Some b) /\
      (eval c r' = Some (VInt 0) <-> pmatch p v = None) /\
      (forall b, pmatch p v = Some b -> forall y, off tmp n n1 y -> r' y = assign_all bn b r y) /\
      (forall y, off tmp n n1 y -> ~ In y (map bn (binders p)) -> r' y = r y).
Proof.
  intros Hinj p e n v r Hwf Hsh Hev Hst Hlow.
  pose proof (lower_pattern_P tmp bn Hinj p (binders p) e n Hwf (incl_refl _) Hst Hlow) as H.
  destruct (lower_pattern tmp bn p e n) as [[ss c] n1]. destruct H as [_ Hd].
  destruct (Hd v r Hsh Hev) as [r' [Hr' [Ha Hm]]]. exists r'. unfold stmts_of, cond_of, cnt; simpl.
  split; [assumption|]. destruct (pmatch p v) as [b|].
  - destruct Hm as [Hc Hb]. repeat split.
    + intros _. now exists b.
    + intros _. assumption.
    + rewrite Hc. discriminate.
    + discriminate.
    + intros b' E. inversion E; subst. assumption.
    + assumption.
  - repeat split.
    + rewrite Hm. discriminate.
    + intros [b E]. discriminate.
    + intros _. assumption.
    + discriminate.
    + assumption.
Qed.

(* with a binding map that does not identify two variables of the pattern: every variable holds its value *)
Theorem lower_pattern_bindings (tmp : nat -> name) (bn : name -> name) :
  (forall i j, tmp i = tmp j -> i = j) ->
  forall p e n v r b,
    wf p -> shape_ok p v -> eval e r = Some v ->
    stable tmp bn n (binders p) e -> (forall x, In x (binders p) -> low tmp n (bn x)) ->
    (forall x y, In x (binders p) -> In y (binders p) -> bn x = bn y -> x = y) ->
    pmatch p v = Some b ->
    exists r', run_block (stmts_of (lower_pattern tmp bn p e n)) r = Ok r' /\
      eval (cond_of (lower_pattern tmp bn p e n)) r' = Some (VInt 1) /\
      forall x w, lookup b x = Some w -> r' (bn x) = Some w.
Proof.
  intros Hinj p e n v r b Hwf Hsh Hev Hst Hlow Hbn Hm.
  destruct (lower_pattern_correct tmp bn Hinj p e n v r Hwf Hsh Hev Hst Hlow) as [r' [Hr' [H1 [_ [Hb _]]]]].
  exists r'. split; [assumption|]. split; [apply H1; now exists b|].
  intros x w Hl. pose proof (pmatch_dom p v b Hwf Hm) as D.
  assert (Hx : In x (binders p)) by (apply (D x); eapply lookup_in; eassumption).
  rewrite (Hb b Hm); [|apply low_off, Hlow, Hx].
  apply assign_all_lookup; [|assumption]. intros y Hy. apply Hbn; [apply (D y), Hy | assumption].
Qed.

(* ------------------------------------------------------------------ lower_match *)
Section Match.
  Variable tmp : nat -> name.
  Hypothesis tmp_inj : forall i j, tmp i = tmp j -> i = j.

  Lemma index_of_Some x l k : index_of x l = Some k -> k < length l /\ nth_error l k = Some x.
  Proof.
    revert k. induction l as [|y l IH]; intros k H; simpl in *; [discriminate|].
    destruct (N.eqb_spec x y).
    - inversion H; subst. split; [lia | reflexivity].
    - destruct (index_of x l) as [k'|]; [|discriminate]. inversion H; subst. destruct (IH k' eq_refl). split; [lia | assumption].
  Qed.
  Lemma index_of_In x l : In x l -> exists k, index_of x l = Some k.
  Proof.
    induction l as [|y l IH]; intros H; simpl in *; [contradiction|].
    destruct (N.eqb_spec x y); [now exists 0|]. destruct H as [E|H]; [congruence|].
    destruct (IH H) as [k Hk]. rewrite Hk. now exists (S k).
  Qed.
  Lemma bn_of_in bs n x : In x bs -> exists k, k < length bs /\ bn_of tmp bs n x = tmp (n + k) /\ nth_error bs k = Some x.
  Proof.
    intros H. destruct (index_of_In x bs H) as [k Hk]. exists k. unfold bn_of. rewrite Hk.
    destruct (index_of_Some _ _ _ Hk). auto.
  Qed.
  Lemma bn_of_inj bs n x y : In x bs -> In y bs -> bn_of tmp bs n x = bn_of tmp bs n y -> x = y.
  Proof.
    intros Hx Hy E. destruct (bn_of_in bs n x Hx) as [k [_ [E1 N1]]]. destruct (bn_of_in bs n y Hy) as [k' [_ [E2 N2]]].
    rewrite E1, E2 in E. apply tmp_inj in E. assert (k = k') by lia. subst. congruence.
  Qed.

  Lemma run_decls l : forall r,
    exists rd, run_block (map (fun j => SDecl (tmp j)) l) r = Ok rd /\
      forall y, (forall j, In j l -> tmp j <> y) -> rd y = r y.
  Proof.
    induction l as [|j l IH]; intros r; simpl.
    - exists r. split; [reflexivity | reflexivity].
    - destruct (IH (upd r (tmp j) None)) as [rd [Hr Hf]]. exists rd. split; [assumption|].
      intros y Hy. rewrite Hf by (intros j' Hj'; apply Hy; now right). apply upd_other. intros E. apply (Hy j); [now left | now symmetry].
  Qed.

  Notation estable := (SV.C01pat.Lower.estable tmp).
  Notation match_result := (SV.C01pat.Lower.match_result tmp).

  Lemma lower_match_cons a t e n :
    lower_match tmp (a :: t) e n =
    let '(acc_s, acc_e, n1) := lower_match tmp t e n in
    let '(ps, c, n2) := lower_pattern tmp (bn_of tmp (a_bs a) (S n1)) (a_pat a) e (S n1 + length (a_bs a)) in
    let '(bs, be, n3) := a_body a (bn_of tmp (a_bs a) (S n1)) n2 in
    (map (fun j => SDecl (tmp j)) (seq (S n1) (length (a_bs a))) ++ ps ++ [SIf c bs acc_s [(tmp n1, be, acc_e)]], EVar (tmp n1), n3).
  Proof. reflexivity. Qed.

  Lemma lower_match_mono arms e : forall n, Forall (fun a => forall bn n, n <= cnt (a_body a bn n)) arms ->
    n < cnt (lower_match tmp arms e n).
  Proof.
    induction arms as [|a t IH]; intros n H; [unfold cnt; simpl; lia|].
    inversion H as [|? ? Ha Ht]; subst. specialize (IH n Ht). rewrite lower_match_cons.
    destruct (lower_match tmp t e n) as [[acc_s acc_e] n1]. unfold cnt in IH; simpl in IH.
    pose proof (lower_pattern_mono tmp (bn_of tmp (a_bs a) (S n1)) (a_pat a) e (S n1 + length (a_bs a))) as M.
    destruct (lower_pattern tmp (bn_of tmp (a_bs a) (S n1)) (a_pat a) e (S n1 + length (a_bs a))) as [[ps c] n2].
    unfold cnt in M; simpl in M. specialize (Ha (bn_of tmp (a_bs a) (S n1)) n2).
    destruct (a_body a (bn_of tmp (a_bs a) (S n1)) n2) as [[bs be] n3]. unfold cnt in *; simpl in *. lia.
  Qed.

  (* one arm: declarations and pattern statements run, the condition tells whether the pattern matches, the
     variables of the pattern hold their values, nothing below the counter is touched *)
  Lemma arm_pattern a e m v r :
    arm_ok v a -> eval e r = Some v -> estable m e ->
    let k := length (a_bs a) in
    let bn := bn_of tmp (a_bs a) m in
    let decls := map (fun j => SDecl (tmp j)) (seq m k) in
    let lp := lower_pattern tmp bn (a_pat a) e (m + k) in
    exists r1, run_block (decls ++ stmts_of lp) r = Ok r1 /\
      (forall y, low tmp m y -> r1 y = r y) /\
      match pmatch (a_pat a) v with
      | Some b => eval (cond_of lp) r1 = Some (VInt 1) /\ forall x w, lookup b x = Some w -> r1 (bn x) = Some w
      | None => eval (cond_of lp) r1 = Some (VInt 0)
      end.
  Proof.
    intros [Hwf [Hsh [Hnd [Hincl _]]]] Hev Hst. cbv zeta.
    set (k := length (a_bs a)). set (bn := bn_of tmp (a_bs a) m).
    destruct (run_decls (seq m k) r) as [rd [Hrd Hfd]].
    assert (Hbn : forall x, In x (binders (a_pat a)) -> exists j, j < k /\ bn x = tmp (m + j)).
    { intros x Hx. destruct (bn_of_in (a_bs a) m x (Hincl x Hx)) as [j [Hj [Ej _]]]. exists j. auto. }
    assert (Hevd : eval e rd = Some v).
    { destruct e as [z|y]; [exact Hev|]. simpl in *. rewrite Hfd; [assumption|].
      intros j Hj. apply in_seq in Hj. apply Hst. lia. }
    assert (Hst' : stable tmp bn (m + k) (binders (a_pat a)) e).
    { destruct e as [z|y]; [exact I|]. simpl in Hst. split.
      - eapply low_mono; [|exact Hst]. lia.
      - intros Hin. apply in_map_iff in Hin. destruct Hin as [x [Ex Hx]]. destruct (Hbn x Hx) as [j [Hj Ej]].
        apply (Hst (m + j)); [lia | congruence]. }
    assert (Hlow : forall x, In x (binders (a_pat a)) -> low tmp (m + k) (bn x)).
    { intros x Hx i Hi E. destruct (Hbn x Hx) as [j [Hj Ej]]. rewrite Ej in E. apply tmp_inj in E. lia. }
    destruct (lower_pattern_correct tmp bn tmp_inj (a_pat a) e (m + k) v rd Hwf Hsh Hevd Hst' Hlow)
      as [r1 [Hr1 [H1 [H0 [Hb Hfr]]]]].
    exists r1. split; [rewrite run_block_app, Hrd; exact Hr1|].
    assert (Hfr' : forall y, low tmp m y -> r1 y = r y).
    { intros y Hy.
      assert (Hoff : off tmp (m + k) (cnt (lower_pattern tmp bn (a_pat a) e (m + k))) y).
      { intros i Hi _. apply Hy. lia. }
      assert (Hnb : ~ In y (map bn (binders (a_pat a)))).
      { intros Hin. apply in_map_iff in Hin. destruct Hin as [x [Ex Hx]]. destruct (Hbn x Hx) as [j [Hj Ej]].
        apply (Hy (m + j)); [lia | congruence]. }
      rewrite Hfr by assumption. apply Hfd. intros j Hj. apply in_seq in Hj. apply Hy. lia. }
    split; [assumption|].
    destruct (pmatch (a_pat a) v) as [b|] eqn:Em.
    - split; [apply H1; now exists b|]. intros x w Hl.
      pose proof (pmatch_dom _ _ _ Hwf Em) as D.
      assert (Hx : In x (binders (a_pat a))) by (apply (D x); eapply lookup_in; eassumption).
      rewrite (Hb b eq_refl); [|apply low_off, Hlow, Hx].
      apply assign_all_lookup; [|assumption]. intros y Hy E.
      apply (bn_of_inj (a_bs a) m); [apply Hincl, (D y), Hy | apply Hincl, Hx | exact E].
    - now apply H0.
  Qed.

  Lemma estable_eval n e r r1 : estable n e -> (forall y, low tmp n y -> r1 y = r y) -> eval e r1 = eval e r.
  Proof. destruct e as [z|y]; simpl; [reflexivity|]. intros H Hf. now apply Hf. Qed.
  Lemma estable_mono n n' e : n <= n' -> estable n e -> estable n' e.
  Proof. destruct e as [z|y]; simpl; [tauto|]. intros. eapply low_mono; eassumption. Qed.
  Lemma arms_mono v arms : Forall (arm_ok v) arms -> Forall (fun a => forall bn n, n <= cnt (a_body a bn n)) arms.
  Proof. apply Forall_impl. intros a H. apply H. Qed.

  Lemma arm_step a0 e n1 acc_s acc_e ps c n2 bs0 be0 n3 :
    lower_pattern tmp (bn_of tmp (a_bs a0) (S n1)) (a_pat a0) e (S n1 + length (a_bs a0)) = (ps, c, n2) ->
    a_body a0 (bn_of tmp (a_bs a0) (S n1)) n2 = (bs0, be0, n3) ->
    forall v r, arm_ok v a0 -> eval e r = Some v -> estable (S n1) e ->
    exists r1,
      (forall y, low tmp (S n1) y -> r1 y = r y) /\
      match pmatch (a_pat a0) v with
      | Some b =>
          (forall x w, lookup b x = Some w -> r1 (bn_of tmp (a_bs a0) (S n1) x) = Some w) /\
          run_block (map (fun j => SDecl (tmp j)) (seq (S n1) (length (a_bs a0))) ++ ps ++ [SIf c bs0 acc_s [(tmp n1, be0, acc_e)]]) r =
          finish true [(tmp n1, be0, acc_e)] (run_block bs0 r1)
      | None =>
          run_block (map (fun j => SDecl (tmp j)) (seq (S n1) (length (a_bs a0))) ++ ps ++ [SIf c bs0 acc_s [(tmp n1, be0, acc_e)]]) r =
          finish false [(tmp n1, be0, acc_e)] (run_block acc_s r1)
      end.
  Proof.
    intros L2 L3 v r Ha0 Hev Hst.
    destruct (arm_pattern a0 e (S n1) v r Ha0 Hev Hst) as [r1 [Hr1 [Hfr Hc]]].
    rewrite L2 in Hr1, Hc. unfold stmts_of, cond_of in Hr1, Hc. simpl fst in Hr1, Hc. simpl snd in Hr1, Hc.
    exists r1. split; [assumption|].
    destruct (pmatch (a_pat a0) v) as [b|].
    - destruct Hc as [Hc Hl]. split; [assumption|].
      rewrite app_assoc, run_block_app, Hr1. rewrite run_block_cons, run_if, Hc. simpl truth. cbv iota.
      destruct (finish true [(tmp n1, be0, acc_e)] (run_block bs0 r1)); reflexivity.
    - rewrite app_assoc, run_block_app, Hr1. rewrite run_block_cons, run_if, Hc. simpl truth. cbv iota.
      destruct (finish false [(tmp n1, be0, acc_e)] (run_block acc_s r1)); reflexivity.
  Qed.

  Lemma lower_match_correct_eq :
    forall pre a post e n v b,
      Forall (arm_ok v) (pre ++ a :: post) -> estable n e ->
      Forall (fun a' => pmatch (a_pat a') v = None) pre -> pmatch (a_pat a) v = Some b ->
      forall ps_s ps_e na pp pc n2 bs be n3 ss res nn,
      lower_match tmp post e n = (ps_s, ps_e, na) ->
      lower_pattern tmp (bn_of tmp (a_bs a) (S na)) (a_pat a) e (S na + length (a_bs a)) = (pp, pc, n2) ->
      a_body a (bn_of tmp (a_bs a) (S na)) n2 = (bs, be, n3) ->
      lower_match tmp (pre ++ a :: post) e n = (ss, res, nn) ->
      forall r, eval e r = Some v ->
      exists ra,
        (forall y, low tmp n y -> ra y = r y) /\
        (forall x w, lookup b x = Some w -> ra (bn_of tmp (a_bs a) (S na) x) = Some w) /\
        match_result n ss res r bs be ra.
  Proof.
    induction pre as [|a0 pre IH]; intros a post e n v b Hok Hst Hpre Hm ps_s ps_e na pp pc n2 bs be n3 ss res nn L1 L2 L3 L4 r Hev.
    - simpl app in *. rewrite lower_match_cons, L1, L2, L3 in L4. inversion L4; subst ss res nn. clear L4.
      inversion Hok as [|? ? Ha Hpost]; subst.
      pose proof (lower_match_mono post e n (arms_mono v post Hpost)) as Hmono. rewrite L1 in Hmono.
      unfold cnt in Hmono; simpl in Hmono.
      destruct (arm_step a e na ps_s ps_e pp pc n2 bs be n3 L2 L3 v r Ha Hev) as [r1 [Hfr Hc]];
        [eapply estable_mono; [|exact Hst]; lia|].
      rewrite Hm in Hc. destruct Hc as [Hl Hrb].
      exists r1. split; [intros y Hy; apply Hfr; eapply low_mono; [|exact Hy]; lia|]. split; [assumption|].
      unfold match_result. rewrite Hrb. destruct (run_block bs r1) as [r2| |]; simpl; try reflexivity.
      destruct (eval be r2) as [w|]; [|reflexivity]. eexists. split; [reflexivity|]. split; [apply upd_same|].
      intros y Hy. apply upd_other. intros E. apply (Hy na); [lia | now symmetry].
    - simpl app in *. rewrite lower_match_cons in L4. inversion Hok as [|? ? Ha0 Hrest]; subst.
      inversion Hpre as [|? ? Hm0 Hpre']; subst.
      pose proof (lower_match_mono (pre ++ a :: post) e n (arms_mono v _ Hrest)) as Hmono.
      destruct (lower_match tmp (pre ++ a :: post) e n) as [[acc_s acc_e] n1] eqn:L5.
      unfold cnt in Hmono; simpl in Hmono.
      destruct (lower_pattern tmp (bn_of tmp (a_bs a0) (S n1)) (a_pat a0) e (S n1 + length (a_bs a0))) as [[ps0 c0] n20] eqn:L6.
      destruct (a_body a0 (bn_of tmp (a_bs a0) (S n1)) n20) as [[bs0 be0] n30] eqn:L7.
      inversion L4; subst ss res nn. clear L4.
      destruct (arm_step a0 e n1 acc_s acc_e ps0 c0 n20 bs0 be0 n30 L6 L7 v r Ha0 Hev) as [r1 [Hfr Hrb]];
        [eapply estable_mono; [|exact Hst]; lia|].
      rewrite Hm0 in Hrb.
      assert (Hfr' : forall y, low tmp n y -> r1 y = r y).
      { intros y Hy. apply Hfr. eapply low_mono; [|exact Hy]. lia. }
      assert (Hev1 : eval e r1 = Some v) by (rewrite <- Hev; eapply estable_eval; eassumption).
      destruct (IH a post e n v b Hrest Hst Hpre' Hm _ _ _ _ _ _ _ _ _ _ _ _ L1 L2 L3 L5 r1 Hev1) as [ra [Hra [Hl Hres]]].
      exists ra. split; [intros y Hy; rewrite Hra by assumption; now apply Hfr'|]. split; [assumption|].
      unfold match_result in *. rewrite Hrb.
      destruct (run_block bs ra) as [r2| |]; [|rewrite Hres; reflexivity | rewrite Hres; reflexivity].
      destruct (eval be r2) as [w|]; [|rewrite Hres; reflexivity].
      destruct Hres as [r3 [Hr3 [He3 Hf3]]]. rewrite Hr3. simpl. rewrite He3. eexists. split; [reflexivity|].
      split; [apply upd_same|]. intros y Hy. rewrite upd_other; [now apply Hf3|]. intros E. apply (Hy n1); [lia | now symmetry].
  Qed.

  Theorem lower_match_correct :
    forall pre a post e n v b,
      Forall (arm_ok v) (pre ++ a :: post) -> estable n e ->
      Forall (fun a' => pmatch (a_pat a') v = None) pre -> pmatch (a_pat a) v = Some b ->
      let na := cnt (lower_match tmp post e n) in
      let bn := bn_of tmp (a_bs a) (S na) in
      let n2 := cnt (lower_pattern tmp bn (a_pat a) e (S na + length (a_bs a))) in
      let body := a_body a bn n2 in
      let lm := lower_match tmp (pre ++ a :: post) e n in
      forall r, eval e r = Some v ->
      exists ra,
        (forall y, low tmp n y -> ra y = r y) /\
        (forall x w, lookup b x = Some w -> ra (bn x) = Some w) /\
        match_result n (stmts_of lm) (cond_of lm) r (stmts_of body) (cond_of body) ra.
  Proof.
    intros pre a post e n v b Hok Hst Hpre Hm. cbv zeta.
    destruct (lower_match tmp post e n) as [[ps_s ps_e] na] eqn:L1. change (cnt (ps_s, ps_e, na)) with na.
    destruct (lower_pattern tmp (bn_of tmp (a_bs a) (S na)) (a_pat a) e (S na + length (a_bs a))) as [[pp pc] n2] eqn:L2.
    change (cnt (pp, pc, n2)) with n2.
    destruct (a_body a (bn_of tmp (a_bs a) (S na)) n2) as [[bs be] n3] eqn:L3.
    destruct (lower_match tmp (pre ++ a :: post) e n) as [[ss res] nn] eqn:L4.
    exact (lower_match_correct_eq pre a post e n v b Hok Hst Hpre Hm _ _ _ _ _ _ _ _ _ _ _ _ L1 L2 L3 L4).
  Qed.

  Theorem lower_match_no_arm :
    forall arms e n v,
      Forall (arm_ok v) arms -> estable n e -> Forall (fun a => pmatch (a_pat a) v = None) arms ->
      forall r, eval e r = Some v -> run_block (stmts_of (lower_match tmp arms e n)) r = Panic.
  Proof.
    induction arms as [|a0 arms IH]; intros e n v Hok Hst Hnone r Hev; [reflexivity|].
    rewrite lower_match_cons. inversion Hok as [|? ? Ha0 Hrest]; subst. inversion Hnone as [|? ? Hm0 Hnone']; subst.
    specialize (IH e n v Hrest Hst Hnone').
    pose proof (lower_match_mono arms e n (arms_mono v _ Hrest)) as Hmono.
    destruct (lower_match tmp arms e n) as [[acc_s acc_e] n1]. unfold cnt in Hmono; simpl in Hmono.
    destruct (lower_pattern tmp (bn_of tmp (a_bs a0) (S n1)) (a_pat a0) e (S n1 + length (a_bs a0))) as [[ps0 c0] n20] eqn:L6.
    destruct (a_body a0 (bn_of tmp (a_bs a0) (S n1)) n20) as [[bs0 be0] n30] eqn:L7.
    destruct (arm_step a0 e n1 acc_s acc_e ps0 c0 n20 bs0 be0 n30 L6 L7 v r Ha0 Hev) as [r1 [Hfr Hrb]];
      [eapply estable_mono; [|exact Hst]; lia|].
    rewrite Hm0 in Hrb.
    assert (Hev1 : eval e r1 = Some v).
    { rewrite <- Hev. eapply estable_eval; [exact Hst|]. intros y Hy. apply Hfr. eapply low_mono; [|exact Hy]. lia. }
    specialize (IH r1 Hev1). unfold stmts_of in *; simpl fst in *. rewrite Hrb, IH. reflexivity.
  Qed.

  (* `if let p = e` and `let p = e`: the declarations and the statements of the pattern *)
  Theorem lower_guard_correct :
    forall p bs e n v r,
      wf p -> shape_ok p v -> NoDup bs -> incl (binders p) bs -> eval e r = Some v -> estable n e ->
      let lg := lower_guard tmp p bs e n in
      let bn := bn_of tmp bs n in
      exists r1, run_block (stmts_of lg) r = Ok r1 /\
        (forall y, low tmp n y -> r1 y = r y) /\
        match pmatch p v with
        | Some b => eval (cond_of lg) r1 = Some (VInt 1) /\ forall x w, lookup b x = Some w -> r1 (bn x) = Some w
        | None => eval (cond_of lg) r1 = Some (VInt 0)
        end.
  Proof.
    intros p bs e n v r Hwf Hsh Hnd Hincl Hev Hst. cbv zeta.
    pose (a := {| a_pat := p; a_bs := bs; a_body := fun _ k => ([], ZERO, k) |}).
    assert (Ha : arm_ok v a).
    { split; [exact Hwf|]. split; [exact Hsh|]. split; [exact Hnd|]. split; [exact Hincl|]. intros bn k. unfold cnt; simpl; lia. }
    destruct (arm_pattern a e n v r Ha Hev Hst) as [r1 [Hr1 [Hfr Hc]]]. simpl in Hr1, Hc.
    unfold lower_guard.
    destruct (lower_pattern tmp (bn_of tmp bs n) p e (n + length bs)) as [[ps c] n1].
    unfold stmts_of, cond_of in *. simpl fst in *. simpl snd in *.
    exists r1. split; [exact Hr1|]. split; [exact Hfr | exact Hc].
  Qed.
End Match.

(* ------------------------------------------------------------------ the boolean hypotheses the tie evaluates *)
Lemma memb_In x l : memb x l = true <-> In x l.
Proof.
  unfold memb. rewrite existsb_exists. split.
  - intros [y [Hy He]]. apply N.eqb_eq in He. now subst.
  - intros H. exists x. split; [assumption | apply N.eqb_refl].
Qed.
Lemma inclb_incl a b : inclb a b = true -> incl a b.
Proof. unfold inclb. rewrite forallb_forall. intros H x Hx. apply memb_In. now apply H. Qed.
Lemma same_namesb_sound a b : same_namesb a b = true -> same_names a b.
Proof.
  unfold same_namesb. rewrite andb_true_iff. intros [H1 H2] x. split; [apply (inclb_incl _ _ H1) | apply (inclb_incl _ _ H2)].
Qed.

Lemma wfb_sound p : wfb p = true -> wf p.
Proof.
  induction p using pat_ind'; intros Hb; simpl in Hb.
  - exact I.
  - exact I.
  - rewrite wf_tuple. induction H as [|q ps Hq _ IH]; simpl in *; [exact I|].
    apply andb_true_iff in Hb. destruct Hb. split; auto.
  - rewrite wf_object. induction H as [|q ps Hq _ IH]; simpl in *; [exact I|].
    apply andb_true_iff in Hb. destruct Hb. split; auto.
  - rewrite wf_variant. induction H as [|q ps Hq _ IH]; simpl in *; [exact I|].
    apply andb_true_iff in Hb. destruct Hb. split; auto.
  - rewrite wf_or. apply andb_true_iff in Hb. destruct Hb as [Hb1 Hb2]. split.
    + clear Hb2. induction H as [|q ps Hq _ IH]; simpl in *; [exact I|].
      apply andb_true_iff in Hb1. destruct Hb1. split; auto.
    + destruct ps as [|q t]; [exact I|]. rewrite forallb_forall in Hb2. apply Forall_forall.
      intros q' Hq'. apply same_namesb_sound. now apply Hb2.
Qed.

Lemma shape_okb_sound p : forall v, shape_okb p v = true -> shape_ok p v.
Proof.
  induction p using pat_ind'; intros v Hb.
  - exact I.
  - exact I.
  - rewrite shape_tuple. destruct v as [|vs|]; simpl in Hb; try discriminate.
    revert vs Hb. induction H as [|q ps Hq _ IH]; intros vs Hb; simpl in *; [exact I|].
    destruct vs as [|w ws]; [discriminate|]. apply andb_true_iff in Hb. destruct Hb. split; auto.
  - rewrite shape_object. destruct v as [|vs|]; simpl in Hb; try discriminate.
    induction H as [|el els Hq _ IH]; simpl in *; [exact I|].
    apply andb_true_iff in Hb. destruct Hb as [H1 H2]. split; [|auto].
    destruct (nth_error vs (fst el)); [auto | discriminate].
  - rewrite shape_variant. destruct v as [| |t vs]; simpl in Hb; try discriminate.
    intros Et. subst t. rewrite Nat.eqb_refl in Hb.
    revert vs Hb. induction H as [|q ps Hq _ IH]; intros vs Hb; simpl in *.
    + destruct vs; [exact I | discriminate].
    + destruct vs as [|w ws]; [discriminate|]. apply andb_true_iff in Hb. destruct Hb. split; auto.
  - rewrite shape_or. simpl in Hb. induction H as [|q ps Hq _ IH]; simpl in *; [exact I|].
    apply andb_true_iff in Hb. destruct Hb. split; auto.
Qed.

(* ------------------------------------------------------------------ witnesses *)
Lemma tmp0_inj : forall i j, tmp0 i = tmp0 j -> i = j.
Proof. unfold tmp0. intros i j H. lia. Qed.

(* the object loop as it was before fix c7eda7e (index = written position) binds the wrong field *)
Lemma old_object_refuted :
  exists p v x b w r',
    wf p /\ shape_ok p v /\ pmatch p v = Some b /\ lookup b x = Some w /\
    run_block (stmts_of (lower_pattern_old tmp0 obj_bn p (EVar 50%N) 2)) (upd env0 50%N (Some v)) = Ok r' /\
    r' (obj_bn x) <> Some w.
Proof.
  exists obj_pat, obj_val, 1%N. eexists. eexists. eexists.
  split; [apply wfb_sound; reflexivity|]. split; [apply shape_okb_sound; reflexivity|].
  split; [vm_compute; reflexivity|]. split; [vm_compute; reflexivity|].
  split; [vm_compute; reflexivity|]. vm_compute. discriminate.
Qed.
(* the repaired loop on the same input *)
Lemma new_object_example :
  exists r', run_block (stmts_of (lower_pattern tmp0 obj_bn obj_pat (EVar 50%N) 2)) obj_env = Ok r' /\
    r' (obj_bn 1%N) = Some (VInt 42) /\ r' (obj_bn 2%N) = Some (VInt 7).
Proof. eexists. split; [vm_compute; reflexivity|]. split; vm_compute; reflexivity. Qed.

(* the hypothesis wf cannot be dropped: an alternative that assigns a variable and then fails, followed by an
   alternative that does not bind it, leaves the late-init variable assigned *)
Definition nowf_pat : pat := POr [PTuple [PVar 1%N; PVariant 0 []]; PTuple [PWild; PWild]].
Definition nowf_val : value := VStruct [VInt 7; VVariant 1 []].
Lemma wf_needed_refuted :
  exists p v b r' y,
    ~ wf p /\ shape_ok p v /\ pmatch p v = Some b /\
    run_block (stmts_of (lower_pattern tmp0 obj_bn p (EVar 50%N) 2)) (upd env0 50%N (Some v)) = Ok r' /\
    off tmp0 2 (cnt (lower_pattern tmp0 obj_bn p (EVar 50%N) 2)) y /\
    r' y <> assign_all obj_bn b (upd env0 50%N (Some v)) y.
Proof.
  exists nowf_pat, nowf_val. eexists. eexists. exists (obj_bn 1%N).
  split.
  { unfold nowf_pat. rewrite wf_or. intros [_ H]. inversion H as [|? ? H1 _]; subst. specialize (H1 1%N). simpl in H1. tauto. }
  split; [apply shape_okb_sound; reflexivity|].
  split; [vm_compute; reflexivity|]. split; [vm_compute; reflexivity|].
  split.
  - intros i Hi _ E. assert (Eb : obj_bn 1%N = 100%N) by reflexivity. rewrite Eb in E. unfold tmp0 in E. lia.
  - vm_compute. discriminate.
Qed.

(* non-vacuity: a pattern with every form; first alternative, second alternative, no match *)
Lemma rich_example :
  wf rich_pat /\
  (forall v, In v [rich_val (VVariant 0 [VInt 3; VInt 4]) 1; rich_val (VVariant 2 [VVariant 0 [VInt 8; VInt 4]]) 0;
                   rich_val (VVariant 1 []) 1; rich_val (VVariant 0 [VInt 3; VInt 4]) 2] -> shape_ok rich_pat v) /\
  let run v := run_block (stmts_of (lower_pattern tmp0 rich_bn rich_pat (EVar 50%N) 2)) (upd env0 50%N (Some v)) in
  let c := cond_of (lower_pattern tmp0 rich_bn rich_pat (EVar 50%N) 2) in
  let look v x := match run v with Ok r => r x | _ => None end in
  look (rich_val (VVariant 0 [VInt 3; VInt 4]) 1) (rich_bn 1%N) = Some (VInt 3) /\
  look (rich_val (VVariant 0 [VInt 3; VInt 4]) 1) (rich_bn 2%N) = Some (VInt 9) /\
  match run (rich_val (VVariant 0 [VInt 3; VInt 4]) 1) with Ok r => eval c r | _ => None end = Some (VInt 1) /\
  look (rich_val (VVariant 2 [VVariant 0 [VInt 8; VInt 4]]) 0) (rich_bn 1%N) = Some (VInt 8) /\
  match run (rich_val (VVariant 2 [VVariant 0 [VInt 8; VInt 4]]) 0) with Ok r => eval c r | _ => None end = Some (VInt 1) /\
  match run (rich_val (VVariant 1 []) 1) with Ok r => eval c r | _ => None end = Some (VInt 0) /\
  match run (rich_val (VVariant 0 [VInt 3; VInt 4]) 2) with Ok r => eval c r | _ => None end = Some (VInt 0).
Proof.
  split; [apply wfb_sound; reflexivity|]. split.
  - intros v Hv. apply shape_okb_sound. simpl in Hv. repeat destruct Hv as [Hv|Hv]; try subst v; try reflexivity. contradiction.
  - cbv zeta. repeat split; vm_compute; reflexivity.
Qed.

(* non-vacuity of the match theorems: second arm, third arm, first arm with its binding, no arm *)
Lemma match_example :
  let lm := lower_match tmp0 m_arms (EVar 50%N) 0 in
  let run v := run_block (stmts_of lm) (upd env0 50%N (Some v)) in
  result_of (run (VVariant 2 [VVariant 1 []])) (cond_of lm) = Some (Some (VInt 11)) /\
  result_of (run (VVariant 2 [VVariant 0 [VInt 1]])) (cond_of lm) = Some (Some (VInt 12)) /\
  result_of (run (VVariant 0 [VInt 77])) (cond_of lm) = Some (Some (VInt 77)) /\
  run (VVariant 3 []) = Panic /\
  Forall (arm_ok (VVariant 2 [VVariant 1 []])) m_arms.
Proof.
  cbv zeta. split; [vm_compute; reflexivity|]. split; [vm_compute; reflexivity|].
  split; [vm_compute; reflexivity|]. split; [vm_compute; reflexivity|].
  apply Forall_forall. intros a Ha. simpl in Ha.
  destruct Ha as [<-|[<-|[<-|[]]]];
    (split; [apply wfb_sound; reflexivity|]; split; [apply shape_okb_sound; reflexivity|];
     split; [simpl; repeat (constructor; try (simpl; tauto))|];
     split; [intros x Hx; simpl in *; tauto | intros bn n; unfold cnt; simpl; lia]).
Qed.
