(* C01 (pattern-lowering slice) — property theorems: the HIR statements that `lower_matching_pattern`
   (crates/samlang-compiler/src/hir_lowering.rs 663-882) emits for a source pattern compute the declarative
   meaning of the pattern, never fault on a value of the right shape, and `lower_match` (884-957) takes the
   first arm whose pattern matches.
   Model: Syntax.v (patterns, values, HIR fragment), Sem.v (pmatch / run_block), Lower.v (the lowering, statement
   by statement, with the counter of Heap::alloc_temp_str).  `tmp k` is the k-th temporary, `bn` the map
   `binding_names`; both are arbitrary, tmp injective. *)
From Coq Require Import ZArith NArith List Bool.
Import ListNotations.
From SV Require Import C01pat.Syntax C01pat.Sem C01pat.Lower C01pat.Corr C01pat.Proofs.

(* For every pattern p whose or-alternatives bind the same names (wf), every expression e, counter n,
   environment r in which e holds a value v of the shape p expects, provided the statements cannot write e
   (stable) and the late-init variables of p are not drawn from the counter on:
   - the statements run to the end: no IndexedAccess meets a non-struct or a missing field, no
     ConditionalDestructure meets a non-enum or binds more payload fields than the variant has, nothing is read
     before it is assigned, every condition is an int.  shape_ok says nothing about the payload of a variant
     whose tag differs from the pattern's: those payloads are never touched;
   - the returned condition evaluates to 1 exactly when p matches v, and to 0 exactly when it does not;
   - when p matches with bindings b, every name that is not one of the temporaries drawn holds what it holds
     after assigning b, in the order written, to the late-init variables (first matching alternative of an
     or-pattern: what failed alternatives assigned is overwritten);
   - names that are neither temporaries nor late-init variables of p keep their values in every case. *)
Theorem C01pat_lower_pattern_correct :
  forall (tmp : nat -> N) (bn : N -> N),
  (forall i j, tmp i = tmp j -> i = j) ->
  forall p e n v r,
    wf p -> shape_ok p v -> eval e r = Some v ->
    stable tmp bn n (binders p) e -> (forall x, In x (binders p) -> low tmp n (bn x)) ->
    exists r',
      run_block (stmts_of (lower_pattern tmp bn p e n)) r = Ok r' /\
      let c := cond_of (lower_pattern tmp bn p e n) in
      let n1 := cnt (lower_pattern tmp bn p e n) in
      (eval c r' = Some (VInt 1) <-> exists b, pmatch p v = Some b) /\
      (eval c r' = Some (VInt 0) <-> pmatch p v = None) /\
      (forall b, pmatch p v = Some b -> forall y, off tmp n n1 y -> r' y = assign_all bn b r y) /\
      (forall y, off tmp n n1 y -> ~ In y (map bn (binders p)) -> r' y = r y).
Proof. exact lower_pattern_correct. Qed.

(* with a binding map that keeps the variables of the pattern apart (the callers draw a fresh name for each):
   on a match every variable's late-init variable holds the value the pattern binds it to *)
Theorem C01pat_lower_pattern_bindings :
  forall (tmp : nat -> N) (bn : N -> N),
  (forall i j, tmp i = tmp j -> i = j) ->
  forall p e n v r b,
    wf p -> shape_ok p v -> eval e r = Some v ->
    stable tmp bn n (binders p) e -> (forall x, In x (binders p) -> low tmp n (bn x)) ->
    (forall x y, In x (binders p) -> In y (binders p) -> bn x = bn y -> x = y) ->
    pmatch p v = Some b ->
    exists r', run_block (stmts_of (lower_pattern tmp bn p e n)) r = Ok r' /\
      eval (cond_of (lower_pattern tmp bn p e n)) r' = Some (VInt 1) /\
      forall x w, lookup b x = Some w -> r' (bn x) = Some w.
Proof. exact lower_pattern_bindings. Qed.

(* `binding_names.get(&id.name).unwrap()`: the callers fill the map from `pattern.bindings()`, which looks at the
   first alternative of an or-pattern only; every variable of a well-formed pattern is among those keys *)
Theorem C01pat_binding_lookup_never_fails :
  forall p, wf p -> forall y, In y (binders p) -> In y (bindings_of p).
Proof. exact binders_in_bindings_of. Qed.

(* a successful match binds exactly the variables of the pattern *)
Theorem C01pat_pmatch_domain :
  forall p v b, wf p -> pmatch p v = Some b -> same_names (map fst b) (binders p).
Proof. exact pmatch_dom. Qed.

(* the guard of `if let p = e` (lower_if_else) and `let p = e` (lower_block): one LateInitDeclaration per key of
   `pattern.bindings()` (bs, any order, no duplicates, covering the variables of p), binding map bn_of, then the
   statements of the pattern.  This is the object the tie compares with the real statements of every site. *)
Theorem C01pat_lower_guard_correct :
  forall (tmp : nat -> N), (forall i j, tmp i = tmp j -> i = j) ->
  forall p bs e n v r,
    wf p -> shape_ok p v -> NoDup bs -> incl (binders p) bs -> eval e r = Some v -> estable tmp n e ->
    let lg := lower_guard tmp p bs e n in
    let bn := bn_of tmp bs n in
    exists r1, run_block (stmts_of lg) r = Ok r1 /\
      (forall y, low tmp n y -> r1 y = r y) /\
      match pmatch p v with
      | Some b => eval (cond_of lg) r1 = Some (VInt 1) /\ forall x w, lookup b x = Some w -> r1 (bn x) = Some w
      | None => eval (cond_of lg) r1 = Some (VInt 0)
      end.
Proof. exact lower_guard_correct. Qed.

(* lower_match: if the arms before `a` do not match v and `a` does, with bindings b, then the chain behaves
   like the body of `a` run from an environment ra in which the variables of a's pattern hold their values and
   every name below the counter is as before: same ending (normal / fault / panic), and on a normal ending the
   chain's result variable holds the value of the body's result expression.  (bn, n2: the binding map and the
   counter with which lower_match lowers that body.) *)
Theorem C01pat_lower_match_correct :
  forall (tmp : nat -> N), (forall i j, tmp i = tmp j -> i = j) ->
  forall pre a post e n v b,
    Forall (arm_ok v) (pre ++ a :: post) -> estable tmp n e ->
    Forall (fun a' => pmatch (a_pat a') v = None) pre -> pmatch (a_pat a) v = Some b ->
    let na := cnt (lower_match tmp post e n) in
    let bn := bn_of tmp (a_bs a) (S na) in
    let n2 := cnt (lower_pattern tmp bn (a_pat a) e (S na + length (a_bs a))) in
    let body := a_body a bn n2 in
    let lm := lower_match tmp (pre ++ a :: post) e n in
    forall r, eval e r = Some v ->
    exists ra,
      (forall y, low tmp n y -> ra y = r y) /\
      (forall x w, lookup b x = Some w -> ra (bn x) = Some w) /\
      match_result tmp n (stmts_of lm) (cond_of lm) r (stmts_of body) (cond_of body) ra.
Proof. exact lower_match_correct. Qed.

(* the synthetic `Process.panic(0, "")` is reached exactly when no arm matches (with C07: never in an accepted
   program) *)
Theorem C01pat_lower_match_no_arm :
  forall (tmp : nat -> N), (forall i j, tmp i = tmp j -> i = j) ->
  forall arms e n v,
    Forall (arm_ok v) arms -> estable tmp n e -> Forall (fun a => pmatch (a_pat a) v = None) arms ->
    forall r, eval e r = Some v -> run_block (stmts_of (lower_match tmp arms e n)) r = Panic.
Proof. exact lower_match_no_arm. Qed.

(* the object loop as it was before fix c7eda7e (`IndexedAccess` at the WRITTEN position of the element instead
   of `field_order`) is wrong: `let { b, a } = p` on class P(val a, val b) binds a to field 1 *)
Theorem C01pat_written_position_refuted :
  exists p v x b w r',
    wf p /\ shape_ok p v /\ pmatch p v = Some b /\ lookup b x = Some w /\
    run_block (stmts_of (lower_pattern_old tmp0 obj_bn p (EVar 50%N) 2)) (upd env0 50%N (Some v)) = Ok r' /\
    r' (obj_bn x) <> Some w.
Proof. exact old_object_refuted. Qed.

(* the hypothesis wf cannot be dropped from C01pat_lower_pattern_correct (the checker enforces it; the tie
   evaluates wfb on every real pattern): an alternative that assigns a variable and then fails leaves it assigned *)
Theorem C01pat_wf_needed_refuted :
  exists p v b r' y,
    ~ wf p /\ shape_ok p v /\ pmatch p v = Some b /\
    run_block (stmts_of (lower_pattern tmp0 obj_bn p (EVar 50%N) 2)) (upd env0 50%N (Some v)) = Ok r' /\
    off tmp0 2 (cnt (lower_pattern tmp0 obj_bn p (EVar 50%N) 2)) y /\
    r' y <> assign_all obj_bn b (upd env0 50%N (Some v)) y.
Proof. exact wf_needed_refuted. Qed.

(* the boolean forms of the hypotheses that the tie evaluates on every real pattern / instance value *)
Theorem C01pat_wfb_sound : forall p, wfb p = true -> wf p.
Proof. exact wfb_sound. Qed.
Theorem C01pat_shape_okb_sound : forall p v, shape_okb p v = true -> shape_ok p v.
Proof. exact shape_okb_sound. Qed.

(* non-vacuity: the repaired loop on the witness of the refutation *)
Example C01pat_field_position_example :
  exists r', run_block (stmts_of (lower_pattern tmp0 obj_bn obj_pat (EVar 50%N) 2)) obj_env = Ok r' /\
    r' (obj_bn 1%N) = Some (VInt 42) /\ r' (obj_bn 2%N) = Some (VInt 7).
Proof. exact new_object_example. Qed.

(* non-vacuity: a pattern with every form (tuple of an or-pattern that binds through two different paths and an
   out-of-order object pattern with a non-binding or-pattern): first alternative, second alternative, no match *)
Example C01pat_rich_example :
  wf rich_pat /\
  (forall v, In v [rich_val (VVariant 0 [VInt 3; VInt 4]) 1; rich_val (VVariant 2 [VVariant 0 [VInt 8; VInt 4]]) 0;
                   rich_val (VVariant 1 []) 1; rich_val (VVariant 0 [VInt 3; VInt 4]) 2] -> shape_ok rich_pat v) /\
  let run v := run_block (stmts_of (lower_pattern tmp0 rich_bn rich_pat (EVar 50%N) 2)) (upd env0 50%N (Some v)) in
  let c := cond_of (lower_pattern tmp0 rich_bn rich_pat (EVar 50%N) 2) in
  let look v x := match run v with Ok r => r x | _ => None end in
  look (rich_val (VVariant 0 [VInt 3; VInt 4]) 1) (rich_bn 1%N) = Some (VInt 3) /\
  look (rich_val (VVariant 0 [VInt 3; VInt 4]) 1) (rich_bn 2%N) = Some (VInt 9) /\
  match run (rich_val (VVariant 0 [VInt 3; VInt 4]) 1) with Ok r => eval c r | _ => None end = Some (VInt 1) /\
  look (rich_val (VVariant 2 [VVariant 0 [VInt 8; VInt 4]]) 0) (rich_bn 1%N) = Some (VInt 8) /\
  match run (rich_val (VVariant 2 [VVariant 0 [VInt 8; VInt 4]]) 0) with Ok r => eval c r | _ => None end = Some (VInt 1) /\
  match run (rich_val (VVariant 1 []) 1) with Ok r => eval c r | _ => None end = Some (VInt 0) /\
  match run (rich_val (VVariant 0 [VInt 3; VInt 4]) 2) with Ok r => eval c r | _ => None end = Some (VInt 0).
Proof. exact rich_example. Qed.

(* non-vacuity of the match theorems: second arm, third arm, first arm with its binding, no arm *)
Example C01pat_match_example :
  let lm := lower_match tmp0 m_arms (EVar 50%N) 0 in
  let run v := run_block (stmts_of lm) (upd env0 50%N (Some v)) in
  result_of (run (VVariant 2 [VVariant 1 []])) (cond_of lm) = Some (Some (VInt 11)) /\
  result_of (run (VVariant 2 [VVariant 0 [VInt 1]])) (cond_of lm) = Some (Some (VInt 12)) /\
  result_of (run (VVariant 0 [VInt 77])) (cond_of lm) = Some (Some (VInt 77)) /\
  run (VVariant 3 []) = Panic /\
  Forall (arm_ok (VVariant 2 [VVariant 1 []])) m_arms.
Proof. exact match_example. Qed.

Print Assumptions C01pat_lower_pattern_correct.
Print Assumptions C01pat_lower_pattern_bindings.
Print Assumptions C01pat_binding_lookup_never_fails.
Print Assumptions C01pat_pmatch_domain.
Print Assumptions C01pat_lower_guard_correct.
Print Assumptions C01pat_lower_match_correct.
Print Assumptions C01pat_lower_match_no_arm.
Print Assumptions C01pat_written_position_refuted.
Print Assumptions C01pat_wf_needed_refuted.
Print Assumptions C01pat_wfb_sound.
Print Assumptions C01pat_shape_okb_sound.
