(* C01 (pattern-lowering slice) — semantics.
   pmatch: the declarative meaning of a source pattern on a value (the first alternative of an or-pattern
   that matches wins; the result lists the bindings in the order in which the pattern is written).
   run_stmt / run_block: an executable semantics of the HIR fragment over an environment of values.
   `Fault` is the engine-level type fault this slice is about: an IndexedAccess on something that is not a
   struct or does not have the field, a ConditionalDestructure on something that is not an enum value or
   whose matching variant has fewer payload fields than bindings, a read of a variable that holds nothing
   (never assigned, or only declared), a condition that is not an int. *)
From Coq Require Import ZArith NArith List Bool.
Import ListNotations.
From SV Require Import C01pat.Syntax.

(* ------------------------------------------------------------------ source side *)
Notation bindings := (list (name * value)) (only parsing).

Section Lists.
  Variable pm : pat -> value -> option (list (name * value)).

  (* tuple elements and variant payloads: by position *)
  Fixpoint pmatch_list (ps : list pat) (vs : list value) : option (list (name * value)) :=
    match ps with
    | [] => Some []
    | p :: t =>
        match vs with
        | [] => None
        | v :: r =>
            match pm p v with
            | None => None
            | Some b => match pmatch_list t r with None => None | Some b' => Some (b ++ b') end
            end
        end
    end.

  (* object elements: by the position of the field in the struct *)
  Fixpoint pmatch_els (vs : list value) (els : list (nat * pat)) : option (list (name * value)) :=
    match els with
    | [] => Some []
    | el :: t =>
        match nth_error vs (fst el) with
        | None => None
        | Some w =>
            match pm (snd el) w with
            | None => None
            | Some b => match pmatch_els vs t with None => None | Some b' => Some (b ++ b') end
            end
        end
    end.

  (* alternatives: the first that matches *)
  Fixpoint pmatch_or (v : value) (ps : list pat) : option (list (name * value)) :=
    match ps with
    | [] => None
    | p :: t => match pm p v with Some b => Some b | None => pmatch_or v t end
    end.
End Lists.

Fixpoint pmatch (p : pat) (v : value) {struct p} : option (list (name * value)) :=
  match p with
  | PWild => Some []
  | PVar x => Some [(x, v)]
  | PTuple ps => match v with VStruct vs => pmatch_list pmatch ps vs | _ => None end
  | PObject els => match v with VStruct vs => pmatch_els pmatch vs els | _ => None end
  | PVariant tag ps =>
      match v with
      | VVariant t vs => if Nat.eqb t tag then pmatch_list pmatch ps vs else None
      | _ => None
      end
  | POr ps => pmatch_or pmatch v ps
  end.

(* the value bound to x: the LAST binding of x (patterns of accepted programs bind a name once) *)
Fixpoint lookup (b : list (name * value)) (x : name) : option value :=
  match b with
  | [] => None
  | (y, w) :: t => match lookup t x with Some w' => Some w' | None => if N.eqb x y then Some w else None end
  end.

(* match expression: index, arm and bindings of the first arm whose pattern matches *)
Fixpoint first_match {A} (pat_of : A -> pat) (arms : list A) (v : value) : option (nat * A * list (name * value)) :=
  match arms with
  | [] => None
  | a :: t =>
      match pmatch (pat_of a) v with
      | Some b => Some (O, a, b)
      | None => match first_match pat_of t v with Some (i, a', b) => Some (S i, a', b) | None => None end
      end
  end.

(* ------------------------------------------------------------------ HIR side *)
Notation env := (name -> option value) (only parsing).

Definition upd (r : name -> option value) (x : name) (w : option value) : name -> option value :=
  fun y => if N.eqb y x then w else r y.

Definition eval (e : expr) (r : name -> option value) : option value :=
  match e with EInt z => Some (VInt z) | EVar x => r x end.

Inductive outcome := Ok (r : name -> option value) | Fault | Panic.

(* the bindings of a ConditionalDestructure: the i-th binding takes the i-th payload field *)
Fixpoint bind_payload (bs : list (option name)) (vs : list value) (r : name -> option value)
  : option (name -> option value) :=
  match bs with
  | [] => Some r
  | b :: bt =>
      match vs with
      | [] => None
      | v :: vt => bind_payload bt vt (match b with Some x => upd r x (Some v) | None => r end)
      end
  end.

Definition truth (w : option value) : option bool :=
  match w with Some (VInt z) => Some (negb (Z.eqb z 0)) | _ => None end.

Fixpoint final_assign (first : bool) (fas : list (name * expr * expr)) (r : name -> option value)
  : option (name -> option value) :=
  match fas with
  | [] => Some r
  | (x, e1, e2) :: t =>
      match eval (if first then e1 else e2) r with
      | Some w => final_assign first t (upd r x (Some w))
      | None => None
      end
  end.

Definition finish (first : bool) (fas : list (name * expr * expr)) (o : outcome) : outcome :=
  match o with
  | Ok r => match final_assign first fas r with Some r' => Ok r' | None => Fault end
  | o => o
  end.

Fixpoint run_stmt (s : stmt) (r : name -> option value) {struct s} : outcome :=
  let run_block := fix run_block (ss : list stmt) (r : name -> option value) {struct ss} : outcome :=
    match ss with
    | [] => Ok r
    | s :: t => match run_stmt s r with Ok r' => run_block t r' | o => o end
    end in
  match s with
  | SIndex x e i =>
      match eval e r with
      | Some (VStruct vs) => match nth_error vs i with Some w => Ok (upd r x (Some w)) | None => Fault end
      | _ => Fault
      end
  | SDestr e tag bs s1 s2 fas =>
      match eval e r with
      | Some (VVariant t vs) =>
          if Nat.eqb t tag then
            match bind_payload bs vs r with
            | Some r1 => finish true fas (run_block s1 r1)
            | None => Fault
            end
          else finish false fas (run_block s2 r)
      | _ => Fault
      end
  | SIf c s1 s2 fas =>
      match truth (eval c r) with
      | Some true => finish true fas (run_block s1 r)
      | Some false => finish false fas (run_block s2 r)
      | None => Fault
      end
  | SDecl x => Ok (upd r x None)
  | SAssign x e => match eval e r with Some w => Ok (upd r x (Some w)) | None => Fault end
  | SPanic _ => Panic
  end.

Fixpoint run_block (ss : list stmt) (r : name -> option value) {struct ss} : outcome :=
  match ss with
  | [] => Ok r
  | s :: t => match run_stmt s r with Ok r' => run_block t r' | o => o end
  end.

(* the environment after the bindings b have been assigned one after another to their late-init variables *)
Fixpoint assign_all (bn : name -> name) (b : list (name * value)) (r : name -> option value) : name -> option value :=
  match b with
  | [] => r
  | (x, w) :: t => assign_all bn t (upd r (bn x) (Some w))
  end.
