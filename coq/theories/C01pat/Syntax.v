(* C01 (pattern-lowering slice) — syntax.
   Source patterns: crates/samlang-ast/src/source.rs `pattern::MatchingPattern`
     Tuple {elements} | Object {elements: ObjectPatternElement {field_order, pattern, ..}} |
     Variant {tag_order, data_variables: Option<TuplePattern>} | Id | Wildcard | Or {patterns}.
   Values are independent of the enum LAYOUT (i31 / boxed / unboxed is decided later, by
   mir_generics_specialization.rs, theories/C01/Model.v): ints as leaves, structs and tuples as lists of
   values, enum values as tag + payload list.
   HIR fragment: crates/samlang-ast/src/hir.rs `Statement`, exactly the forms that
   `lower_matching_pattern` and its three callers (lower_match, lower_if_else with a Guard, the Declaration
   case of lower_block) emit:
     IndexedAccess {name, pointer_expression, index}
     ConditionalDestructure {test_expr, tag, bindings: Vec<Option<(PStr, Type)>>, s1, s2, final_assignments}
     IfElse {condition, s1, s2, final_assignments}
     LateInitDeclaration {name} / LateInitAssignment {name, assigned_expression}
     Call Process.panic(0, "") with a return collector (the fall-through of lower_match).
   Types are erased.  Note: the conditions are never combined with Binary / `&&`: a condition is threaded
   through the final assignment of the IfElse that guards the rest of the chain. *)
From Coq Require Import ZArith NArith List Bool.
Import ListNotations.

Notation name := N (only parsing).

Inductive pat :=
| PWild
| PVar (x : name)
| PTuple (ps : list pat)
| PObject (els : list (nat * pat))          (* (field_order, pattern), in WRITTEN order *)
| PVariant (tag : nat) (ps : list pat)       (* data_variables None and Some [] are both [] *)
| POr (ps : list pat).

Inductive value :=
| VInt (z : Z)
| VStruct (vs : list value)
| VVariant (tag : nat) (vs : list value).

Inductive expr := EInt (z : Z) | EVar (x : name).
Definition ONE : expr := EInt 1.
Definition ZERO : expr := EInt 0.

(* final assignment (name, e1, e2): name := e1 after s1, name := e2 after s2 *)
Notation fassign := (name * expr * expr)%type (only parsing).

Inductive stmt :=
| SIndex (x : name) (e : expr) (i : nat)
| SDestr (e : expr) (tag : nat) (bs : list (option name)) (s1 s2 : list stmt) (fas : list fassign)
| SIf (c : expr) (s1 s2 : list stmt) (fas : list fassign)
| SDecl (x : name)
| SAssign (x : name) (e : expr)
| SPanic (x : name).

(* induction principles that go through the nested lists *)
Section PatInd.
  Variable P : pat -> Prop.
  Hypothesis HW : P PWild.
  Hypothesis HV : forall x, P (PVar x).
  Hypothesis HT : forall ps, Forall P ps -> P (PTuple ps).
  Hypothesis HO : forall els, Forall (fun el => P (snd el)) els -> P (PObject els).
  Hypothesis HC : forall tag ps, Forall P ps -> P (PVariant tag ps).
  Hypothesis HOr : forall ps, Forall P ps -> P (POr ps).

  Fixpoint pat_ind' (p : pat) : P p :=
    let all := fix all (l : list pat) : Forall P l :=
      match l with
      | [] => Forall_nil P
      | x :: t => Forall_cons x (pat_ind' x) (all t)
      end in
    match p with
    | PWild => HW
    | PVar x => HV x
    | PTuple ps => HT ps (all ps)
    | PObject els =>
        HO els ((fix allo (l : list (nat * pat)) : Forall (fun el => P (snd el)) l :=
                   match l with
                   | [] => Forall_nil _
                   | (i, q) :: t => Forall_cons (i, q) (pat_ind' q) (allo t)
                   end) els)
    | PVariant tag ps => HC tag ps (all ps)
    | POr ps => HOr ps (all ps)
    end.
End PatInd.

(* ------------------------------------------------------------------ names bound by a pattern *)
(* every variable that occurs in the pattern, in written order (all alternatives of an or-pattern) *)
Fixpoint binders (p : pat) : list name :=
  match p with
  | PWild => []
  | PVar x => [x]
  | PTuple ps => flat_map binders ps
  | PObject els => flat_map (fun el => binders (snd el)) els
  | PVariant _ ps => flat_map binders ps
  | POr ps => flat_map binders ps
  end.

(* `MatchingPattern::bindings()`: the keys of the map the callers allocate late-init variables for —
   of an or-pattern, those of the FIRST alternative only *)
Fixpoint bindings_of (p : pat) : list name :=
  match p with
  | PWild => []
  | PVar x => [x]
  | PTuple ps => flat_map bindings_of ps
  | PObject els => flat_map (fun el => bindings_of (snd el)) els
  | PVariant _ ps => flat_map bindings_of ps
  | POr ps => match ps with [] => [] | q :: _ => bindings_of q end
  end.

Definition same_names (a b : list name) : Prop := forall x, In x a <-> In x b.

(* what the checker guarantees of an accepted pattern and this slice needs: the alternatives of an
   or-pattern bind the same names *)
Fixpoint wf (p : pat) : Prop :=
  match p with
  | PWild | PVar _ => True
  | PTuple ps => (fix all (l : list pat) : Prop := match l with [] => True | q :: t => wf q /\ all t end) ps
  | PObject els =>
      (fix all (l : list (nat * pat)) : Prop := match l with [] => True | el :: t => wf (snd el) /\ all t end) els
  | PVariant _ ps => (fix all (l : list pat) : Prop := match l with [] => True | q :: t => wf q /\ all t end) ps
  | POr ps =>
      (fix all (l : list pat) : Prop := match l with [] => True | q :: t => wf q /\ all t end) ps /\
      match ps with
      | [] => True
      | q :: t => Forall (fun q' => same_names (binders q') (binders q)) t
      end
  end.

Fixpoint wf_all (l : list pat) : Prop := match l with [] => True | q :: t => wf q /\ wf_all t end.
Fixpoint wf_els (l : list (nat * pat)) : Prop := match l with [] => True | el :: t => wf (snd el) /\ wf_els t end.

(* boolean version, evaluated by the tie on every real pattern *)
Definition memb (x : name) (l : list name) : bool := existsb (N.eqb x) l.
Definition inclb (a b : list name) : bool := forallb (fun x => memb x b) a.
Definition same_namesb (a b : list name) : bool := inclb a b && inclb b a.

Fixpoint wfb (p : pat) : bool :=
  match p with
  | PWild | PVar _ => true
  | PTuple ps => forallb wfb ps
  | PObject els => forallb (fun el => wfb (snd el)) els
  | PVariant _ ps => forallb wfb ps
  | POr ps =>
      forallb wfb ps &&
      match ps with
      | [] => true
      | q :: t => forallb (fun q' => same_namesb (binders q') (binders q)) t
      end
  end.

(* ------------------------------------------------------------------ shapes *)
(* "v has the shape p expects" — what the type checker guarantees of scrutinee and pattern, without a
   type language: a tuple / object pattern meets a struct that has the fields it names, a variant pattern
   meets an enum value, and IF the tags agree the payload has the pattern's arity and shapes.  Nothing
   is required of the payload of another variant: it is never looked at. *)
Fixpoint shape_ok (p : pat) (v : value) {struct p} : Prop :=
  match p with
  | PWild | PVar _ => True
  | PTuple ps =>
      match v with
      | VStruct vs =>
          (fix go (l : list pat) (ws : list value) : Prop :=
             match l, ws with
             | [], _ => True
             | q :: t, w :: r => shape_ok q w /\ go t r
             | _ :: _, [] => False
             end) ps vs
      | _ => False
      end
  | PObject els =>
      match v with
      | VStruct vs =>
          (fix go (l : list (nat * pat)) : Prop :=
             match l with
             | [] => True
             | el :: t => match nth_error vs (fst el) with
                          | Some w => shape_ok (snd el) w
                          | None => False
                          end /\ go t
             end) els
      | _ => False
      end
  | PVariant tag ps =>
      match v with
      | VVariant t vs =>
          t = tag ->
          (fix go (l : list pat) (ws : list value) : Prop :=
             match l, ws with
             | [], [] => True
             | q :: t, w :: r => shape_ok q w /\ go t r
             | _, _ => False
             end) ps vs
      | _ => False
      end
  | POr ps => (fix all (l : list pat) : Prop := match l with [] => True | q :: t => shape_ok q v /\ all t end) ps
  end.

Fixpoint shape_list (l : list pat) (ws : list value) : Prop :=
  match l, ws with
  | [], _ => True
  | q :: t, w :: r => shape_ok q w /\ shape_list t r
  | _ :: _, [] => False
  end.
Fixpoint shape_list_exact (l : list pat) (ws : list value) : Prop :=
  match l, ws with
  | [], [] => True
  | q :: t, w :: r => shape_ok q w /\ shape_list_exact t r
  | _, _ => False
  end.
Section ShapeEls.
  Variable vs : list value.
  Fixpoint shape_els (l : list (nat * pat)) : Prop :=
    match l with
    | [] => True
    | el :: t => match nth_error vs (fst el) with
                 | Some w => shape_ok (snd el) w
                 | None => False
                 end /\ shape_els t
    end.
End ShapeEls.
Section ShapeAll.
  Variable v : value.
  Fixpoint shape_all (l : list pat) : Prop :=
    match l with [] => True | q :: t => shape_ok q v /\ shape_all t end.
End ShapeAll.
