(* C02 — evaluation glue for the kernel correspondence. Results are encoded as Z:
   value v -> v;  "do not fold"/None -> NONE. *)
From Coq Require Import ZArith List Bool.
Import ListNotations.
From SV Require Import Common.Int32 C02.Kernels.
Open Scope Z_scope.

Definition NONE : Z := 1099511627776.     (* 2^40: outside the 32-bit range *)
Definition enc (o : option Z) : Z := match o with Some v => v | None => NONE end.

Inductive kcase :=
| KE (op : binop) (a b : Z)
| KM (outer inner : binop) (c1 c2 : Z)
| KT (g : guard) (i0 inc bound : Z)
| KF (op : binop) (rel : Z).

Definition op_code (op : binop) : Z :=
  match op with MUL => 0 | DIV => 1 | MOD => 2 | PLUS => 3 | MINUS => 4 | LAND => 5 | LOR => 6 | SHL => 7
              | SHR => 8 | XOR => 9 | LT => 10 | LE => 11 | GT => 12 | GE => 13 | EQ => 14 | NE => 15 end.

(* each result is a pair (x, y): E/T: (value-or-NONE, 0); M: (op code or NONE, constant); F: (op code, swapped) *)
Definition keval (c : kcase) : Z * Z :=
  match c with
  | KE op a b => (enc (fold_binop op a b), 0)
  | KM o i c1 c2 => match merge_binop o i c1 c2 with Some (op', c') => (op_code op', c') | None => (NONE, 0) end
  | KT g i0 inc bound => (enc (trip g i0 inc bound), 0)
  | KF op rel => let '(op', sw) := flex op (rel =? 0) (rel =? 2) in (op_code op', b2z sw)
  end.

(* indices of the cases on which the implementation's answer differs *)
Fixpoint kbad (i : N) (cs : list (kcase * (Z * Z))) : list N :=
  match cs with
  | [] => []
  | (c, (x, y)) :: cs' =>
      let '(mx, my) := keval c in
      if (mx =? x) && (my =? y) then kbad (i + 1) cs' else i :: kbad (i + 1) cs'
  end.
