(* C02 — arithmetic kernels of the optimizer (model of the code as it is after the `fix:` commits):
   evaluate_bin_op and merge_binary_expression (conditional_constant_propagation.rs),
   analyze_number_of_iterations_to_break_guard (loop_algebraic_optimization.rs),
   Statement::flexible_order_binary / binary_unwrapped (samlang-ast mir.rs).  Definitions only. *)
From Coq Require Import ZArith Bool List.
Import ListNotations.
From SV Require Import Common.Int32.
Open Scope Z_scope.

(* evaluate_bin_op: None = "do not fold" *)
Definition fold_binop (op : binop) (a b : Z) : option Z :=
  match op with
  | MUL => Some (wrap32 (a * b))
  | DIV => if b =? 0 then None else if (a =? MIN) && (b =? -1) then None else Some (Z.quot a b)
  | MOD => if b =? 0 then None else if (a =? MIN) && (b =? -1) then None else Some (Z.rem a b)
  | PLUS => Some (wrap32 (a + b))
  | MINUS => Some (wrap32 (a - b))
  | LAND => Some (Z.land a b)
  | LOR => Some (Z.lor a b)
  | SHL => Some (wrap32 (a * 2 ^ (b mod 32)))
  | SHR => Some (wrap32 (unsigned a / 2 ^ (b mod 32)))
  | XOR => Some (Z.lxor a b)
  | LT => Some (b2z (a <? b))
  | LE => Some (b2z (a <=? b))
  | GT => Some (b2z (b <? a))
  | GE => Some (b2z (b <=? a))
  | EQ => Some (b2z (a =? b))
  | NE => Some (b2z (negb (a =? b)))
  end.

Definition is_cmp (op : binop) : bool :=
  match op with LT | LE | GT | GE | EQ | NE => true | _ => false end.

(* merge_binary_expression: outer (inner x c1) c2  ~~>  op' x c' *)
Definition merge_binop (outer inner : binop) (c1 c2 : Z) : option (binop * Z) :=
  match outer, inner with
  | PLUS, PLUS => if in32b (c1 + c2) then Some (PLUS, c1 + c2) else None     (* checked_add: declines when the sum wraps *)
  | MUL, MUL => Some (MUL, wrap32 (c1 * c2))
  | (LT | LE | GT | GE | EQ | NE), PLUS => if in32b (c2 - c1) then Some (outer, c2 - c1) else None
  | _, _ => None
  end.

(* trip count: the loop continues while (i op g); i starts at i0 and is incremented by inc *)
Inductive guard := GLT | GLE | GGT | GGE.
Definition guard_holds (op : guard) (i g : Z) : bool :=
  match op with GLT => i <? g | GLE => i <=? g | GGT => g <? i | GGE => g <=? i end.

Definition trip_lt (i0 inc g : Z) : option Z :=
  if g <=? i0 then Some 0
  else if inc <=? 0 then None
  else let d := g - i0 in
       let c := d / inc + (if d mod inc =? 0 then 0 else 1) in
       if c <=? MAX then Some c else None.

Definition trip (op : guard) (i0 inc g : Z) : option Z :=
  match op with
  | GLT => trip_lt i0 inc g
  | GLE => trip_lt i0 inc (g + 1)
  | GGT => trip_lt (- i0) (- inc) (- g)
  | GGE => trip_lt (- i0) (- inc) (- (g - 1))
  end.

(* operand normalisation: x - n ~~> x + (-n) for n <> MIN (binary_unwrapped) *)
Definition unwrap_minus (op : binop) (n : Z) : binop * Z :=
  match op with
  | MINUS => if n =? MIN then (MINUS, n) else (PLUS, - n)
  | _ => (op, n)
  end.

(* flexible_order_binary: may swap the operands; returns (op', swapped?) as a function of
   whether the implementation's operand order test says "e1 < e2" *)
Definition flex (op : binop) (e1_lt_e2 e1_gt_e2 : bool) : binop * bool :=
  match op with
  | DIV | MOD | MINUS | SHL | SHR => (op, false)
  | MUL | PLUS | LAND | LOR | XOR | EQ | NE => (op, negb e1_gt_e2)
  | LT => if e1_lt_e2 then (GT, true) else (LT, false)
  | LE => if e1_lt_e2 then (GE, true) else (LE, false)
  | GT => if e1_lt_e2 then (LT, true) else (GT, false)
  | GE => if e1_lt_e2 then (LE, true) else (GE, false)
  end.
