(* C02 — proofs about the arithmetic kernels. *)
From Coq Require Import ZArith Lia Bool List.
Import ListNotations.
From SV Require Import Common.Int32 C02.Kernels.
Open Scope Z_scope.

(* constant folding computes exactly what the target computes at run time, and only folds
   where the run-time operation does not trap *)
Theorem fold_correct op a b r : fold_binop op a b = Some r -> rt_binop op a b = Val r.
Proof.
  destruct op; cbn; try (intros [= <-]; reflexivity).
  - destruct (b =? 0); [discriminate|]. destruct ((a =? MIN) && (b =? -1)); [discriminate|]. congruence.
  - destruct (b =? 0); [discriminate|]. destruct ((a =? MIN) && (b =? -1)); [discriminate|]. congruence.
Qed.

(* folding declines exactly on the trapping inputs (and on MIN % -1, whose result is 0) *)
Theorem fold_defined op a b : fold_binop op a b = None ->
  rt_binop op a b = TrapArith \/ (op = MOD /\ a = MIN /\ b = -1).
Proof.
  destruct op; cbn; try discriminate.
  - destruct (b =? 0); auto. destruct ((a =? MIN) && (b =? -1)); auto. discriminate.
  - destruct (b =? 0) eqn:E0; auto. destruct ((a =? MIN) && (b =? -1)) eqn:E; [|discriminate].
    intros _. right. apply andb_prop in E. destruct E as [E1 E2]. apply Z.eqb_eq in E1, E2. auto.
Qed.

(* (x + c1) + c2 and (x * c1) * c2: ring identities, valid with wrap-around *)
Theorem merge_plus x c1 c2 : wrap32 (wrap32 (x + c1) + c2) = wrap32 (x + wrap32 (c1 + c2)).
Proof. rewrite wrap32_add_l, wrap32_add_r. f_equal. lia. Qed.
Theorem merge_mul x c1 c2 : wrap32 (wrap32 (x * c1) * c2) = wrap32 (x * wrap32 (c1 * c2)).
Proof. rewrite wrap32_mul_l, wrap32_mul_r. f_equal. lia. Qed.

Definition cmp_val (op : binop) (a b : Z) : Z :=
  match rt_binop op a b with Val z => z | TrapArith => 0 end.

(* (x + c1) cmp c2 ~~> x cmp (c2 - c1): needs x + c1 in range (otherwise the unoptimised run
   overflowed and is excluded) and c2 - c1 in range (which the code now checks) *)
Theorem merge_cmp_ok op x c1 c2 op' c' :
  is_cmp op = true -> merge_binop op PLUS c1 c2 = Some (op', c') -> in32 (x + c1) ->
  cmp_val op (wrap32 (x + c1)) c2 = cmp_val op' x c' /\ in32 c'.
Proof.
  intros Hc Hm Hx. rewrite wrap32_id by assumption.
  assert (E : in32b (c2 - c1) = true /\ op' = op /\ c' = c2 - c1).
  { destruct op; cbn in Hc; try discriminate; cbn in Hm;
      destruct (in32b (c2 - c1)); inversion Hm; auto. }
  destruct E as [E1 [-> ->]]. split; [|now apply in32b_spec].
  destruct op; cbn in Hc; try discriminate; unfold cmp_val; cbn;
  repeat match goal with |- context [?a <? ?b] => destruct (Z.ltb_spec a b) end;
  repeat match goal with |- context [?a <=? ?b] => destruct (Z.leb_spec a b) end;
  repeat match goal with |- context [?a =? ?b] => destruct (Z.eqb_spec a b) end; cbn; try reflexivity; lia.
Qed.

Theorem merge_arith_ok outer inner x c1 c2 op' c' :
  is_cmp outer = false -> merge_binop outer inner c1 c2 = Some (op', c') ->
  forall v, rt_binop inner x c1 = Val v -> rt_binop outer v c2 = rt_binop op' x c'.
Proof.
  intros Hc Hm v Hv. destruct outer, inner; cbn in Hc, Hm; try discriminate.
  - inversion Hm; subst; cbn in *. inversion Hv; subst. f_equal. apply merge_mul.
  - destruct (in32b (c1 + c2)) eqn:E; inversion Hm; subst; cbn in *. inversion Hv; subst. f_equal.
    rewrite merge_plus. rewrite (wrap32_id (c1 + c2)); [reflexivity | now apply in32b_spec].
Qed.

(* the merged addition overflows only if one of the two original additions did: with a merged constant the
   optimized code is again overflow-free on overflow-free runs, which is what the comparison rule (merge_cmp_ok,
   applied in a later round to the merged statement) needs *)
Theorem merge_plus_no_new_overflow x c1 c2 op' c' :
  merge_binop PLUS PLUS c1 c2 = Some (op', c') -> in32 (x + c1) -> in32 (x + c1 + c2) ->
  op' = PLUS /\ in32 c' /\ in32 (x + c') /\ x + c' = x + c1 + c2.
Proof.
  cbn. destruct (in32b (c1 + c2)) eqn:E; intros Hm H1 H2; inversion Hm; subst.
  apply in32b_spec in E. unfold in32 in *. repeat split; lia.
Qed.

(* the pre-repair rule (wrapping sum) did introduce an overflow: (x + MAX) + 1 with x = -5 *)
Theorem merge_plus_wrapping_old_refuted :
  exists x c1 c2, in32 (x + c1) /\ in32 (x + c1 + c2) /\ ~ in32 (x + wrap32 (c1 + c2)).
Proof. exists (-5), MAX, 1. unfold in32, MAX, MIN, wrap32. cbn. lia. Qed.

(* ---- trip count ---- *)
Lemma trip_lt_correct i0 inc g k : trip_lt i0 inc g = Some k ->
  0 <= k <= MAX /\ g <= i0 + inc * k /\ (forall j, 0 <= j < k -> i0 + inc * j < g).
Proof.
  unfold trip_lt, MAX. destruct (Z.leb_spec g i0).
  - intros [= <-]. repeat split; try lia.
  - destruct (Z.leb_spec inc 0); [discriminate|].
    pose proof (Z.div_mod (g - i0) inc ltac:(lia)). pose proof (Z.mod_pos_bound (g - i0) inc ltac:(lia)).
    pose proof (Z.div_pos (g - i0) inc ltac:(lia) ltac:(lia)).
    destruct ((g - i0) mod inc =? 0) eqn:E3;
      match goal with |- context [?c <=? 2147483647] => destruct (Z.leb_spec c 2147483647) end; try discriminate;
      intros [= <-]; (split; [lia|]); (split; [nia|]); intros j Hj; nia.
Qed.

(* the loop `while (i op g) i += inc` started at i0 runs exactly k times *)
Theorem trip_correct op i0 inc g k : trip op i0 inc g = Some k ->
  0 <= k <= MAX /\
  (forall j, 0 <= j < k -> guard_holds op (i0 + inc * j) g = true) /\
  guard_holds op (i0 + inc * k) g = false.
Proof.
  destruct op; cbn [trip guard_holds]; intros H; apply trip_lt_correct in H; destruct H as [H0 [H1 H2]];
    (split; [exact H0|]); split.
  - intros j Hj. apply Z.ltb_lt. auto.
  - apply Z.ltb_ge. lia.
  - intros j Hj. apply Z.leb_le. specialize (H2 j Hj). lia.
  - apply Z.leb_gt. lia.
  - intros j Hj. apply Z.ltb_lt. specialize (H2 j Hj). lia.
  - apply Z.ltb_ge. lia.
  - intros j Hj. apply Z.leb_le. specialize (H2 j Hj). lia.
  - apply Z.leb_gt. lia.
Qed.

(* the final value the optimiser substitutes for the induction variable *)
Corollary trip_final op i0 inc g k : trip op i0 inc g = Some k ->
  guard_holds op (i0 + inc * k) g = false /\ (k > 0 -> guard_holds op (i0 + inc * (k - 1)) g = true).
Proof.
  intros H. destruct (trip_correct op i0 inc g k H) as [H0 [H1 H2]]. split; auto.
  intros Hk. apply H1. lia.
Qed.

(* ---- operand normalisation ---- *)
Theorem unwrap_minus_ok op a n op' n' : in32 n -> unwrap_minus op n = (op', n') ->
  rt_binop op a n = rt_binop op' a n' /\ in32 n'.
Proof.
  intros Hn. destruct op; cbn; try (intros [= <- <-]; auto).
  destruct (Z.eqb_spec n MIN) as [E|E]; intros [= <- <-]; split; auto.
  unfold in32, MIN, MAX in *. lia.
Qed.

(* swapping the operands of a commutative / mirrored comparison operator preserves the value *)
Theorem flex_ok op lt gt a b op' sw : flex op lt gt = (op', sw) ->
  rt_binop op a b = if sw then rt_binop op' b a else rt_binop op' a b.
Proof.
  destruct op; cbn [flex].
  - destruct gt; intros [= <- <-]; cbn; [reflexivity|]. now rewrite Z.mul_comm.
  - intros [= <- <-]; reflexivity.
  - intros [= <- <-]; reflexivity.
  - destruct gt; intros [= <- <-]; cbn; [reflexivity|]. now rewrite Z.add_comm.
  - intros [= <- <-]; reflexivity.
  - destruct gt; intros [= <- <-]; cbn; [reflexivity|]. now rewrite Z.land_comm.
  - destruct gt; intros [= <- <-]; cbn; [reflexivity|]. now rewrite Z.lor_comm.
  - intros [= <- <-]; reflexivity.
  - intros [= <- <-]; reflexivity.
  - destruct gt; intros [= <- <-]; cbn; [reflexivity|]. now rewrite Z.lxor_comm.
  - destruct lt; intros [= <- <-]; reflexivity.
  - destruct lt; intros [= <- <-]; reflexivity.
  - destruct lt; intros [= <- <-]; reflexivity.
  - destruct lt; intros [= <- <-]; reflexivity.
  - destruct gt; intros [= <- <-]; cbn; [reflexivity|]. now rewrite Z.eqb_sym.
  - destruct gt; intros [= <- <-]; cbn; [reflexivity|]. now rewrite Z.eqb_sym.
Qed.

(* ---- induction-variable elimination guard: j = m*i + c; i < g  <->  j < m*g + c  only for m > 0 ---- *)
Theorem iv_guard_lt m c i g : m > 0 -> (i <? g) = (m * i + c <? m * g + c).
Proof. intros Hm. destruct (Z.ltb_spec i g), (Z.ltb_spec (m * i + c) (m * g + c)); auto; nia. Qed.
