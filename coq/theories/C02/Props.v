(* C02 — property theorems for the optimizer's arithmetic kernels. *)
From Coq Require Import ZArith Lia Bool List.
Import ListNotations.
From SV Require Import Common.Int32 C02.Kernels C02.Proofs C02.Corr.
Open Scope Z_scope.

(* constant folding computes exactly what the target computes at run time *)
Theorem C02_fold_correct : forall op a b r, fold_binop op a b = Some r -> rt_binop op a b = Val r.
Proof. exact fold_correct. Qed.

(* ... and declines to fold exactly where the run-time operation traps (plus MIN % -1) *)
Theorem C02_fold_declines_only_on_traps : forall op a b, fold_binop op a b = None ->
  rt_binop op a b = TrapArith \/ (op = MOD /\ a = MIN /\ b = -1).
Proof. exact fold_defined. Qed.

(* (x op c1) op c2 for + and * : valid with wrap-around *)
Theorem C02_merge_arith : forall outer inner x c1 c2 op' c',
  is_cmp outer = false -> merge_binop outer inner c1 c2 = Some (op', c') ->
  forall v, rt_binop inner x c1 = Val v -> rt_binop outer v c2 = rt_binop op' x c'.
Proof. exact merge_arith_ok. Qed.

(* merging two additions never introduces an overflow (the sum of the constants must be representable) *)
Theorem C02_merge_plus_no_new_overflow : forall x c1 c2 op' c',
  merge_binop PLUS PLUS c1 c2 = Some (op', c') -> in32 (x + c1) -> in32 (x + c1 + c2) ->
  op' = PLUS /\ in32 c' /\ in32 (x + c') /\ x + c' = x + c1 + c2.
Proof. exact merge_plus_no_new_overflow. Qed.

Theorem C02_merge_plus_wrapping_old_refuted :
  exists x c1 c2, in32 (x + c1) /\ in32 (x + c1 + c2) /\ ~ in32 (x + wrap32 (c1 + c2)).
Proof. exact merge_plus_wrapping_old_refuted. Qed.

(* (x + c1) cmp c2 ~~> x cmp (c2 - c1), when the unoptimised addition did not overflow *)
Theorem C02_merge_cmp : forall op x c1 c2 op' c',
  is_cmp op = true -> merge_binop op PLUS c1 c2 = Some (op', c') -> in32 (x + c1) ->
  cmp_val op (wrap32 (x + c1)) c2 = cmp_val op' x c' /\ in32 c'.
Proof. exact merge_cmp_ok. Qed.

(* the closed form for the trip count is exact *)
Theorem C02_trip_count_exact : forall op i0 inc g k, trip op i0 inc g = Some k ->
  0 <= k <= MAX /\
  (forall j, 0 <= j < k -> guard_holds op (i0 + inc * j) g = true) /\
  guard_holds op (i0 + inc * k) g = false.
Proof. exact trip_correct. Qed.

(* operand normalisation and operand flipping preserve the value *)
Theorem C02_unwrap_minus : forall op a n op' n', in32 n -> unwrap_minus op n = (op', n') ->
  rt_binop op a n = rt_binop op' a n' /\ in32 n'.
Proof. exact unwrap_minus_ok. Qed.
Theorem C02_flexible_order : forall op lt gt a b op' sw, flex op lt gt = (op', sw) ->
  rt_binop op a b = if sw then rt_binop op' b a else rt_binop op' a b.
Proof. exact flex_ok. Qed.

(* a derived induction variable j = m*i + c may replace i in a `<` guard only for m > 0 *)
Theorem C02_iv_guard_lt : forall m c i g, m > 0 -> (i <? g) = (m * i + c <? m * g + c).
Proof. exact iv_guard_lt. Qed.
(* the full statement "for every guard operator and multiplier" is false: witnesses *)
Lemma C02_iv_guard_le_refuted : exists m c i g, m > 0 /\ (i <=? g) <> (m * i + c <? m * g + c).
Proof. exists 3, 0, 10, 10. split; [lia|]. vm_compute. discriminate. Qed.
Lemma C02_iv_guard_neg_refuted : exists m c i g, (i <? g) <> (m * i + c <? m * g + c).
Proof. exists (-1), 0, 1, 2. vm_compute. discriminate. Qed.

(* non-vacuity *)
Example C02_nonvacuous :
  fold_binop DIV (-7) 2 = Some (-3) /\ fold_binop DIV MIN (-1) = None /\
  merge_binop LT PLUS (-1) MAX = None /\ merge_binop LT PLUS 1 5 = Some (LT, 4) /\
  trip GGT 10 (-3) 0 = Some 4 /\ trip GLE 0 2 MAX = Some 1073741824 /\ trip GLT MIN 1 MAX = None.
Proof. vm_compute. repeat split. Qed.

Print Assumptions C02_fold_correct.
Print Assumptions C02_fold_declines_only_on_traps.
Print Assumptions C02_merge_arith.
Print Assumptions C02_merge_cmp.
Print Assumptions C02_merge_plus_no_new_overflow.
Print Assumptions C02_merge_plus_wrapping_old_refuted.
Print Assumptions C02_trip_count_exact.
Print Assumptions C02_unwrap_minus.
Print Assumptions C02_flexible_order.
Print Assumptions C02_iv_guard_lt.
