(* C02deep — evaluation glue for layer B: the harness (`vh mir-dump`) prints a function before and after the
   real pass; here the Gallina model of the pass is run on `before` and compared with the real `after`
   (exactly: the modelled passes do not invent names), the well-formedness hypothesis of the theorems is
   evaluated, and both versions are executed on a few argument vectors in a concrete world (a sanity check of
   the theorem instances; testing). *)
From Coq Require Import ZArith NArith List Bool.
Import ListNotations.
From SV Require Import Common.Int32 C02deep.Syntax C02deep.Sem C02deep.Passes.
Open Scope Z_scope.

Definition expr_eqb (a b : expr) : bool :=
  match a, b with
  | EInt i, EInt j | EI31 i, EI31 j => i =? j
  | EStr s, EStr t | EVar s, EVar t => N.eqb s t
  | _, _ => false
  end.
Definition prim_eqb (a b : prim) : bool :=
  match a, b with
  | PIdx t i, PIdx t' i' => N.eqb t t' && N.eqb i i'
  | PIsPtr t, PIsPtr t' | PCast t, PCast t' => N.eqb t t'
  | _, _ => false
  end.
Definition binop_eqb (a b : binop) : bool :=
  match a, b with
  | MUL, MUL | DIV, DIV | MOD, MOD | PLUS, PLUS | MINUS, MINUS | LAND, LAND | LOR, LOR | SHL, SHL | SHR, SHR
  | XOR, XOR | LT, LT | LE, LE | GT, GT | GE, GE | EQ, EQ | NE, NE => true
  | _, _ => false
  end.
Fixpoint list_eqb {A} (eq : A -> A -> bool) (a b : list A) : bool :=
  match a, b with
  | [], [] => true
  | x :: r, y :: r' => eq x y && list_eqb eq r r'
  | _, _ => false
  end.
Definition opt_eqb (a b : option name) : bool :=
  match a, b with Some x, Some y => N.eqb x y | None, None => true | _, _ => false end.
Definition triple_eqb (a b : triple) : bool :=
  N.eqb (t_name a) (t_name b) && expr_eqb (t_e1 a) (t_e1 b) && expr_eqb (t_e2 a) (t_e2 b).

Fixpoint stmt_eqb (a b : stmt) {struct a} : bool :=
  let fix go (x y : list stmt) : bool :=
    match x, y with
    | [], [] => true
    | s :: r, s' :: r' => stmt_eqb s s' && go r r'
    | _, _ => false
    end in
  match a, b with
  | SBin x op e1 e2, SBin x' op' e1' e2' => N.eqb x x' && binop_eqb op op' && expr_eqb e1 e1' && expr_eqb e2 e2'
  | SNot x e, SNot x' e' => N.eqb x x' && expr_eqb e e'
  | SPrim x p e, SPrim x' p' e' => N.eqb x x' && prim_eqb p p' && expr_eqb e e'
  | SCall f args ret, SCall f' args' ret' => N.eqb f f' && list_eqb expr_eqb args args' && opt_eqb ret ret'
  | SIf c s1 s2 fas, SIf c' s1' s2' fas' => expr_eqb c c' && go s1 s1' && go s2 s2' && list_eqb triple_eqb fas fas'
  | SSIf c i ss, SSIf c' i' ss' => expr_eqb c c' && Bool.eqb i i' && go ss ss'
  | SBreak e, SBreak e' => expr_eqb e e'
  | SWhile lvs ss bc, SWhile lvs' ss' bc' => list_eqb triple_eqb lvs lvs' && go ss ss' && opt_eqb bc bc'
  | SStruct x tn es, SStruct x' tn' es' => N.eqb x x' && N.eqb tn tn' && list_eqb expr_eqb es es'
  | SLateDecl x, SLateDecl x' => N.eqb x x'
  | SLateAssign x e, SLateAssign x' e' => N.eqb x x' && expr_eqb e e'
  | _, _ => false
  end.
Definition func_eqb (f g : func) : bool :=
  list_eqb N.eqb (f_params f) (f_params g) && list_eqb stmt_eqb (f_body f) (f_body g) && expr_eqb (f_ret f) (f_ret g).

(* ---- a concrete world for the sanity runs ---- *)
Definition tw_call (tr : trace) (f : N) (vs : list Z) : option Z :=
  let h := fold_left (fun a v => (a * 31 + v) mod 65521) vs (Z.of_N f + 7 * Z.of_nat (length tr)) in
  if h mod 23 =? 0 then None else Some (h mod 41 - 20).
Definition tw : world :=
  mkworld tw_call (fun s => 1000 + Z.of_N s) (fun z => 2000 + z)
          (fun p v => match p with
                      | PIdx _ i => (v * 5 + Z.of_N i) mod 17 - 3
                      | PIsPtr _ => v mod 2
                      | PCast _ => v
                      end)
          (fun tn vs => fold_left (fun a v => (a * 37 + v) mod 65521) vs (Z.of_N tn) + 3000).

Definition arg_pool : list Z := [0; 1; -1; 2; 5; -3; 100; MAX; MIN; 7].
Definition arg_vector (k : nat) (j : nat) : list Z :=
  map (fun i => nth ((i * 7 + j * 3) mod 10) arg_pool 0) (seq 0 k).

Definition trace_eqb (a b : trace) : bool :=
  list_eqb (fun x y => N.eqb (fst x) (fst y) && list_eqb Z.eqb (snd x) (snd y)) a b.

(* 0: the run of `before` without overflow (mode All) is excluded (not Done); 1: Done and reproduced by `after` on
   the target semantics (mode Wrap); 2: Done and NOT reproduced;
   3: reproduced, but the invariant between rounds fails: the run of `before` is Done in mode Add (no overflow in
   + and -) and the run of `after` in mode Add is not the same Done *)
Definition outcome_same (a b : outcome) : bool :=
  match a, b with
  | Done v tr, Done v' tr' => (v =? v') && trace_eqb tr tr'
  | _, _ => false
  end.
Definition sem_case (fuel : nat) (before after : func) (args : list Z) : N :=
  let inv_ok := match sem Add tw before args fuel with
                | Done v tr => outcome_same (Done v tr) (sem Add tw after args fuel)
                | _ => true
                end in
  match sem All tw before args fuel with
  | Done v tr =>
      if outcome_same (Done v tr) (sem Wrap tw after args fuel) then (if inv_ok then 1 else 3)%N else 2%N
  | _ => if inv_ok then 0%N else 3%N
  end.
Definition sem_cases (before after : func) : list N :=
  map (fun j => sem_case 100 before after (arg_vector (length (f_params before)) j)) (seq 0 6).

(* ---- one tie case ---- *)
Inductive pass := PDce | PCcp | PLvn | PCse | PPipe | PPipeCse.      (* PPipe / PPipeCse: optimize_function_for_rounds with lvn / with cse and lvn switched on *)

(* sup: the fresh names the real pass made, in the order in which it allocated them (used by PCse only) *)
Definition model (p : pass) (sup : list name) (f : func) : option (func * fl) :=
  match p with
  | PDce => Some (dce f, fl0)
  | PCcp => ccp f
  | PLvn => Some (lvn f, fl0)
  | PCse => match cse sup f with Some f' => Some (f', fl0) | None => None end
  | PPipe => option_map (fun r => (fst (fst r), snd (fst r))) (pipeline true false [] f)
  | PPipeCse => option_map (fun r => (fst (fst r), snd (fst r))) (pipeline true true sup f)
  end.

(* status 0: model output = real output; 1: they differ; 2: the model gives no output *)
Definition b2n (b : bool) : N := if b then 1%N else 0%N.
Definition count (k : N) (l : list N) : N := N.of_nat (length (filter (N.eqb k) l)).
(* the same without the forwarding of struct fields (the variant the theorems are proved for) *)
Definition model_nf (p : pass) (sup : list name) (f : func) : option (func * fl) :=
  match p with
  | PCcp => ccp_nf f
  | PPipe => option_map (fun r => (fst (fst r), snd (fst r))) (pipeline_gen ver_nf true false [] f)
  | PPipeCse => option_map (fun r => (fst (fst r), snd (fst r))) (pipeline_gen ver_nf true true sup f)
  | _ => model p sup f
  end.
Fixpoint has_struct (s : stmt) : bool :=
  let fix go (ss : list stmt) : bool := match ss with [] => false | s :: r => has_struct s || go r end in
  match s with
  | SStruct _ _ _ => true
  | SIf _ s1 s2 _ => go s1 || go s2
  | SSIf _ _ ss | SWhile _ ss _ => go ss
  | _ => false
  end.
Definition res_eqb (a b : option (func * fl)) : bool :=
  match a, b with
  | Some (f, fl1), Some (g, fl2) => func_eqb f g && Bool.eqb (fst fl1) (fst fl2) && Bool.eqb (snd fl1) (snd fl2)
  | None, None => true
  | _, _ => false
  end.
(* 1 iff forwarding of struct fields changed the result (Passes.no_struct_forwarding fails); only a function
   that makes a struct can be affected *)
Definition forwarded (p : pass) (sup : list name) (f : func) (r : option (func * fl)) : bool :=
  if existsb has_struct (f_body f) then negb (res_eqb (model_nf p sup f) r) else false.

(* [status; wf; Passes.dead_final_operands (ccp / pipeline); escape flag; sanity runs reproduced; sanity runs NOT
    reproduced; sanity runs on which the invariant between rounds (mode Add) fails; struct fields forwarded]
   The sanity runs are skipped when struct fields were forwarded: the test world is not `struct_honest` for them. *)
Definition tie_case (p : pass) (sup : list name) (before after : func) : list N :=
  let wf := b2n (wf_func before) in
  let r := model p sup before in
  let fw := forwarded p sup before r in
  let sc := if fw then [] else sem_cases before after in
  match r with
  | Some (m, f) => [(if func_eqb m after then 0 else 1)%N; wf; b2n (fst f); b2n (snd f); count 1 sc; count 2 sc; count 3 sc; b2n fw]
  | None => [2%N; wf; 0%N; 0%N; count 1 sc; count 2 sc; count 3 sc; b2n fw]
  end.
Definition tie_cases (cs : list (pass * list name * func * func)) : list (list N) :=
  map (fun c => tie_case (fst (fst (fst c))) (snd (fst (fst c))) (snd (fst c)) (snd c)) cs.
