(* C02deep — Gallina models of whole optimizer passes, written to mirror the Rust line by line.
   Definitions only.

   dce  : crates/samlang-optimization/src/dead_code_elimination.rs
   ccp  : crates/samlang-optimization/src/conditional_constant_propagation.rs  (see the second half)
   lvn  : crates/samlang-optimization/src/local_value_numbering.rs            (see the end) *)
From Coq Require Import ZArith NArith List Bool.
Import ListNotations.
From SV Require Import Common.Int32 C02.Kernels C02deep.Syntax.
Open Scope Z_scope.

(* ======================================================================== dead code elimination *)

(* HashSet<PStr>: only membership is ever observed *)
Definition set := list name.

(* collect_use_from_expression *)
Definition use_expr (e : expr) (s : set) : set :=
  match e with EVar x => x :: s | _ => s end.
Fixpoint use_exprs (es : list expr) (s : set) : set :=
  match es with [] => s | e :: r => use_exprs r (use_expr e s) end.
(* for IfElseFinalAssignment { e1, e2, .. } in final_assignments { e1; e2 }
   for v in loop_variables { initial_value; loop_value } *)
Fixpoint use_triples (ts : list triple) (s : set) : set :=
  match ts with [] => s | t :: r => use_triples r (use_expr (t_e2 t) (use_expr (t_e1 t) s)) end.
Fixpoint use_e2s (ts : list triple) (s : set) : set :=
  match ts with [] => s | t :: r => use_e2s r (use_expr (t_e2 t) s) end.

(* collect_use_from_stmt / collect_use_from_stmts / collect_use_from_while_parts *)
Fixpoint uses (st : stmt) (s : set) : set :=
  let fix go (ss : list stmt) (s : set) : set :=
    match ss with [] => s | st :: r => go r (uses st s) end in
  match st with
  | SBin _ _ e1 e2 => use_expr e2 (use_expr e1 s)
  | SNot _ e | SPrim _ _ e | SBreak e => use_expr e s
  | SCall _ args _ => use_exprs args s
  | SIf c s1 s2 fas => use_triples fas (go s2 (go s1 (use_expr c s)))
  | SSIf c _ ss => go ss (use_expr c s)
  | SWhile lvs ss _ => go ss (use_triples lvs s)
  end.
Fixpoint uses_l (ss : list stmt) (s : set) : set :=
  match ss with [] => s | st :: r => uses_l r (uses st s) end.

(* final_assignments.retain(|fa| if set.contains(name) { collect e1; collect e2; true } else { false }) *)
Fixpoint dce_fas (fas : list triple) (s : set) : list triple * set :=
  match fas with
  | [] => ([], s)
  | t :: r =>
      if memb (t_name t) s
      then let '(r', s') := dce_fas r (use_expr (t_e2 t) (use_expr (t_e1 t) s)) in (t :: r', s')
      else dce_fas r s
  end.
(* loop_variables.retain(|v| if set.contains(&v.name) { collect initial_value; true } else { false }) *)
Fixpoint dce_lvs (lvs : list triple) (s : set) : list triple * set :=
  match lvs with
  | [] => ([], s)
  | t :: r =>
      if memb (t_name t) s
      then let '(r', s') := dce_lvs r (use_expr (t_e1 t) s) in (t :: r', s')
      else dce_lvs r s
  end.

Definition keep_if (o : option name) (s : set) : option name :=
  match o with Some n => if memb n s then Some n else None | None => None end.

Definition is_divmod (op : binop) : bool := match op with DIV | MOD => true | _ => false end.
Definition is_nil {A} (l : list A) : bool := match l with [] => true | _ => false end.

(* optimize_stmt: None = the statement is dropped.  optimize_stmts walks the list in reverse. *)
Fixpoint dce_stmt (st : stmt) (s : set) : option stmt * set :=
  let fix go (ss : list stmt) (s : set) : list stmt * set :=
    match ss with
    | [] => ([], s)
    | st :: r =>
        let '(r', s1) := go r s in
        let '(o, s2) := dce_stmt st s1 in
        (match o with Some st' => st' :: r' | None => r' end, s2)
    end in
  match st with
  | SBin x op e1 e2 =>
      if negb (memb x s) && negb (is_divmod op) then (None, s)
      else (Some st, use_expr e2 (use_expr e1 s))
  | SNot x e | SPrim x _ e =>
      if negb (memb x s) then (None, s) else (Some st, use_expr e s)
  | SCall f args ret => (Some (SCall f args (keep_if ret s)), use_exprs args s)
  | SIf c s1 s2 fas =>
      let '(fas', sa) := dce_fas fas s in
      let '(s1', sb) := go s1 sa in
      let '(s2', sc) := go s2 sb in
      if is_nil s1' && is_nil s2' && is_nil fas' then (None, sc)
      else (Some (SIf c s1' s2' fas'), use_expr c sc)
  | SSIf c inv ss =>
      let '(ss', sa) := go ss s in
      if is_nil ss' then (None, sa) else (Some (SSIf c inv ss'), use_expr c sa)
  | SBreak e => (Some st, use_expr e s)
  | SWhile lvs ss bc =>
      let bc' := keep_if bc s in
      let inside := uses_l ss (use_triples lvs []) in
      let lvs1 := filter (fun t => memb (t_name t) inside) lvs in
      let sa := use_e2s lvs1 s in
      let '(ss', sb) := go ss sa in
      let '(lvs2, sc) := dce_lvs lvs1 sb in
      (Some (SWhile lvs2 ss' bc'), sc)
  end.
Fixpoint dce_stmts (ss : list stmt) (s : set) : list stmt * set :=
  match ss with
  | [] => ([], s)
  | st :: r =>
      let '(r', s1) := dce_stmts r s in
      let '(o, s2) := dce_stmt st s1 in
      (match o with Some st' => st' :: r' | None => r' end, s2)
  end.

(* optimize_function *)
Definition dce (f : func) : func :=
  mkfunc (f_params f) (fst (dce_stmts (f_body f) (use_expr (f_ret f) []))) (f_ret f).
