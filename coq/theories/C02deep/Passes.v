(* C02deep — Gallina models of whole optimizer passes, written to mirror the Rust line by line.
   Definitions only.

   dce  : crates/samlang-optimization/src/dead_code_elimination.rs
   ccp  : crates/samlang-optimization/src/conditional_constant_propagation.rs  (see the second half)
   lvn  : crates/samlang-optimization/src/local_value_numbering.rs            (see the end) *)
From Coq Require Import ZArith NArith List Bool.
Import ListNotations.
From SV Require Import Common.Int32 C02.Kernels C02deep.Syntax.
Open Scope Z_scope.

(* ======================================================================== dead code elimination *)

(* HashSet<PStr>: only membership is ever observed *)
Definition set := list name.

(* collect_use_from_expression *)
Definition use_expr (e : expr) (s : set) : set :=
  match e with EVar x => x :: s | _ => s end.
Fixpoint use_exprs (es : list expr) (s : set) : set :=
  match es with [] => s | e :: r => use_exprs r (use_expr e s) end.
(* for IfElseFinalAssignment { e1, e2, .. } in final_assignments { e1; e2 }
   for v in loop_variables { initial_value; loop_value } *)
Fixpoint use_triples (ts : list triple) (s : set) : set :=
  match ts with [] => s | t :: r => use_triples r (use_expr (t_e2 t) (use_expr (t_e1 t) s)) end.
Fixpoint use_e2s (ts : list triple) (s : set) : set :=
  match ts with [] => s | t :: r => use_e2s r (use_expr (t_e2 t) s) end.

(* collect_use_from_stmt / collect_use_from_stmts / collect_use_from_while_parts *)
Fixpoint uses (st : stmt) (s : set) : set :=
  let fix go (ss : list stmt) (s : set) : set :=
    match ss with [] => s | st :: r => go r (uses st s) end in
  match st with
  | SBin _ _ e1 e2 => use_expr e2 (use_expr e1 s)
  | SNot _ e | SPrim _ _ e | SBreak e => use_expr e s
  | SCall _ args _ => use_exprs args s
  | SIf c s1 s2 fas => use_triples fas (go s2 (go s1 (use_expr c s)))
  | SSIf c _ ss => go ss (use_expr c s)
  | SWhile lvs ss _ => go ss (use_triples lvs s)
  | SStruct _ _ es => use_exprs es s
  | SLateDecl _ => s
  | SLateAssign _ e => use_expr e s
  end.
Fixpoint uses_l (ss : list stmt) (s : set) : set :=
  match ss with [] => s | st :: r => uses_l r (uses st s) end.

(* final_assignments.retain(|fa| if set.contains(name) { collect e1; collect e2; true } else { false }) *)
Fixpoint dce_fas (fas : list triple) (s : set) : list triple * set :=
  match fas with
  | [] => ([], s)
  | t :: r =>
      if memb (t_name t) s
      then let '(r', s') := dce_fas r (use_expr (t_e2 t) (use_expr (t_e1 t) s)) in (t :: r', s')
      else dce_fas r s
  end.
(* loop_variables.retain(|v| if set.contains(&v.name) { collect initial_value; true } else { false }) *)
Fixpoint dce_lvs (lvs : list triple) (s : set) : list triple * set :=
  match lvs with
  | [] => ([], s)
  | t :: r =>
      if memb (t_name t) s
      then let '(r', s') := dce_lvs r (use_expr (t_e1 t) s) in (t :: r', s')
      else dce_lvs r s
  end.

Definition keep_if (o : option name) (s : set) : option name :=
  match o with Some n => if memb n s then Some n else None | None => None end.

Definition is_divmod (op : binop) : bool := match op with DIV | MOD => true | _ => false end.
Definition is_nil {A} (l : list A) : bool := match l with [] => true | _ => false end.

(* optimize_stmt: None = the statement is dropped.  optimize_stmts walks the list in reverse. *)
Fixpoint dce_stmt (st : stmt) (s : set) : option stmt * set :=
  let fix go (ss : list stmt) (s : set) : list stmt * set :=
    match ss with
    | [] => ([], s)
    | st :: r =>
        let '(r', s1) := go r s in
        let '(o, s2) := dce_stmt st s1 in
        (match o with Some st' => st' :: r' | None => r' end, s2)
    end in
  match st with
  | SBin x op e1 e2 =>
      if negb (memb x s) && negb (is_divmod op) then (None, s)
      else (Some st, use_expr e2 (use_expr e1 s))
  | SNot x e | SPrim x _ e =>
      if negb (memb x s) then (None, s) else (Some st, use_expr e s)
  | SCall f args ret => (Some (SCall f args (keep_if ret s)), use_exprs args s)
  | SIf c s1 s2 fas =>
      let '(fas', sa) := dce_fas fas s in
      let '(s1', sb) := go s1 sa in
      let '(s2', sc) := go s2 sb in
      if is_nil s1' && is_nil s2' && is_nil fas' then (None, sc)
      else (Some (SIf c s1' s2' fas'), use_expr c sc)
  | SSIf c inv ss =>
      let '(ss', sa) := go ss s in
      if is_nil ss' then (None, sa) else (Some (SSIf c inv ss'), use_expr c sa)
  | SBreak e => (Some st, use_expr e s)
  | SWhile lvs ss bc =>
      let bc' := keep_if bc s in
      let inside := uses_l ss (use_triples lvs []) in
      let lvs1 := filter (fun t => memb (t_name t) inside) lvs in
      let sa := use_e2s lvs1 s in
      let '(ss', sb) := go ss sa in
      let '(lvs2, sc) := dce_lvs lvs1 sb in
      (Some (SWhile lvs2 ss' bc'), sc)
  | SStruct x _ es => if negb (memb x s) then (None, s) else (Some st, use_exprs es s)
  | SLateDecl x => if negb (memb x s) then (None, s) else (Some st, s)
  | SLateAssign x e => if negb (memb x s) then (None, s) else (Some st, use_expr e s)
  end.
Fixpoint dce_stmts (ss : list stmt) (s : set) : list stmt * set :=
  match ss with
  | [] => ([], s)
  | st :: r =>
      let '(r', s1) := dce_stmts r s in
      let '(o, s2) := dce_stmt st s1 in
      (match o with Some st' => st' :: r' | None => r' end, s2)
  end.

(* optimize_function *)
Definition dce (f : func) : func :=
  mkfunc (f_params f) (fst (dce_stmts (f_body f) (use_expr (f_ret f) []))) (f_ret f).

(* ======================================================================== conditional constant propagation *)

(* Expression::cmp : Int32Literal < Int31Literal < StringName < Variable, then by payload *)
Definition expr_cmp (a b : expr) : comparison :=
  match a, b with
  | EInt i, EInt j => Z.compare (wrap32 i) (wrap32 j)
  | EInt _, _ => Lt
  | EI31 _, EInt _ => Gt
  | EI31 i, EI31 j => Z.compare i j
  | EI31 _, _ => Lt
  | EStr _, (EInt _ | EI31 _) => Gt
  | EStr s, EStr t => N.compare s t
  | EStr _, EVar _ => Lt
  | EVar x, EVar y => N.compare x y
  | EVar _, _ => Gt
  end.
Definition expr_eq (a b : expr) : bool := match expr_cmp a b with Eq => true | _ => false end.
Definition expr_lt (a b : expr) : bool := match expr_cmp a b with Lt => true | _ => false end.
Definition expr_gt (a b : expr) : bool := match expr_cmp a b with Gt => true | _ => false end.

(* Statement::binary_unwrapped *)
Definition unwrapped (op : binop) (e1 e2 : expr) : binop * expr * expr :=
  match op, e2 with
  | MINUS, EInt n => if wrap32 n =? MIN then (op, e1, e2) else (PLUS, e1, EInt (- wrap32 n))
  | _, _ => (op, e1, e2)
  end.
(* Statement::flexible_order_binary *)
Definition flex_order (op : binop) (e1 e2 : expr) : binop * expr * expr :=
  let '(op, a, b) := unwrapped op e1 e2 in
  match op with
  | DIV | MOD | MINUS | SHL | SHR => (op, a, b)
  | MUL | PLUS | LAND | LOR | XOR | EQ | NE => if expr_gt a b then (op, a, b) else (op, b, a)
  | LT => if expr_lt a b then (GT, b, a) else (op, a, b)
  | LE => if expr_lt a b then (GE, b, a) else (op, a, b)
  | GT => if expr_lt a b then (LT, b, a) else (op, a, b)
  | GE => if expr_lt a b then (LE, b, a) else (op, a, b)
  end.
(* Statement::binary_flexible_unwrapped *)
Definition flex_unwrapped (op : binop) (e1 e2 : expr) : binop * expr * expr :=
  let '(op, a, b) := flex_order op e1 e2 in unwrapped op a b.

(* LocalValueContextForOptimization / BinaryExpressionContext.  The Rust contexts are stacks of scopes;
   every insertion goes to the innermost scope and pop_scope drops it, so "push; work; pop" is modelled by
   continuing with the context value from before the push.  index_access_cx is only ever filled by
   StructInit, which is outside the fragment: it stays empty and is omitted. *)
Definition vcx := list (name * expr).
Definition bexp := (binop * name * Z)%type.               (* BinaryExpression { operator, e1, e2 } *)
Definition bcx := list (name * bexp).
(* index_access_cx: the fields of the structs made so far, (struct variable, index) -> field expression *)
Definition icx := list (name * N * expr).
Record cx := mkcx { cx_v : vcx; cx_b : bcx; cx_i : icx }.
Definition cx0 : cx := mkcx [] [] [].
Fixpoint assoc_i (x : name) (i : N) (l : icx) : option expr :=
  match l with [] => None | (y, j, e) :: r => if N.eqb x y && N.eqb i j then Some e else assoc_i x i r end.
Fixpoint fields_from (x : name) (i : N) (es : list expr) : icx :=
  match es with [] => [] | e :: r => (x, i, e) :: fields_from x (N.succ i) r end.
Definition add_fields (x : name) (es : list expr) (c : cx) : cx := mkcx (cx_v c) (cx_b c) (fields_from x 0 es ++ cx_i c).

Fixpoint assoc {A} (x : name) (l : list (name * A)) : option A :=
  match l with [] => None | (y, v) :: r => if N.eqb x y then Some v else assoc x r end.

(* optimize_expr / optimize_variable_name *)
Definition opt_expr (c : vcx) (e : expr) : expr :=
  match e with EVar x => match assoc x c with Some b => b | None => e end | _ => e end.
(* checked_bind: None models the panic on a name that is already bound *)
Definition bind (x : name) (e : expr) (c : cx) : option cx :=
  match assoc x (cx_v c) with Some _ => None | None => Some (mkcx ((x, e) :: cx_v c) (cx_b c) (cx_i c)) end.
Definition bind_b (x : name) (b : bexp) (c : cx) : cx := mkcx (cx_v c) ((x, b) :: cx_b c) (cx_i c).

(* flags carried next to the result.  fst: "outside the proved class": the code before one of the repairs on
   the path that repair changed, or the pass left a dead construct whose operands may name statements it has
   dropped: (i) a loop with loop variables that is kept although its optimised body ends in a Break,
   (ii) an if-else with final assignments one of whose optimised branches ends in a Break.
   snd: a Break was re-emitted outside of its loop (only before fix 6cdc437). *)
Definition fl := (bool * bool)%type.
Definition fl0 : fl := (false, false).
Definition orf (a b : fl) : fl := (fst a || fst b, snd a || snd b).
Definition fl_unproved : fl := (true, false).

(* the two situations in which the pass leaves, in code that can never run, an operand naming a statement it
   has dropped (the statements after an unconditional Break):
   - the optimised body of a loop that is kept ends in a Break at top level, and the loop still has loop
     variables: their loop values (evaluated only when the body falls through, which it never does) may name
     statements after that Break;
   - an optimised branch of an if-else ends in a Break at top level, and the if-else has final assignments:
     that branch's side of each final assignment (read only when the branch falls through) likewise. *)
Definition dead_loop_values (body : list stmt) (lvs : list triple) : bool := ends_break body && negb (is_nil lvs).
Definition dead_final_assignments (o1 o2 : list stmt) (fas : list triple) : bool :=
  (ends_break o1 || ends_break o2) && negb (is_nil fas).

(* which code is modelled: the pass as it is now (both true), or before one of the two repairs made after
   findings of this check:  v_guard  = fix 6cdc437 (the first iteration replaces the loop only if the rest of
   the body has no break of this loop);  v_optinit = fix fef18b5 (an unchanging loop variable is bound to the
   OPTIMISED initial value) *)
Record ver := mkver { v_guard : bool; v_optinit : bool; v_forward : bool }.
Definition ver_now : ver := mkver true true true.
(* the pass without the forwarding of struct fields (index_access_cx): IndexedAccess statements are always kept.
   The preservation theorems are proved for this variant and hold for the pass itself whenever the two agree on
   the function (`no_struct_forwarding`, decidable: it holds in particular when no field of a struct made in the
   function is read in it, which is the case for every function before inlining) *)
Definition ver_nf : ver := mkver true true false.

(* emitted statements, context, ends_with_break, flags *)
Definition R := (list stmt * cx * bool * fl)%type.

Section Go.
  Variable one : stmt -> cx -> option R.
  (* optimize_stmts *)
  Fixpoint ccp_go (ss : list stmt) (c : cx) : option R :=
    match ss with
    | [] => Some ([], c, false, fl0)
    | st :: r =>
        match one st c with
        | None => None
        | Some (out, c1, true, f1) => Some (out, c1, true, f1)
        | Some (out, c1, false, f1) =>
            match ccp_go r c1 with
            | None => None
            | Some (out2, c2, b, f2) => Some (out ++ out2, c2, b, orf f1 f2)
            end
        end
    end.
End Go.

Definition is_break (s : stmt) : bool := match s with SBreak _ => true | _ => false end.
Fixpoint split_last {A} (l : list A) : option (list A * A) :=
  match l with
  | [] => None
  | [x] => Some ([], x)
  | x :: r => match split_last r with Some (i, z) => Some (x :: i, z) | None => None end
  end.

Fixpoint bind_inits (ts : list triple) (c : cx) : option cx :=
  match ts with
  | [] => Some c
  | t :: r => match bind (t_name t) (t_e1 t) c with Some c' => bind_inits r c' | None => None end
  end.

(* try_optimize_loop_for_some_iterations; `depth` = max_depth.  `contains_break_of_this_loop` is
   negb no_break_l (the guard of fix 6cdc437, see `ver`). *)
Fixpoint try_loop (g : ver) (stmts : list stmt -> cx -> option R) (depth : nat)
         (lvs : list triple) (body : list stmt) (bc : option name) (c : cx) : option R :=
  match bind_inits lvs c with
  | None => None
  | Some c1 =>
      match stmts body c1 with
      | None => None
      | Some (out, c2, _, ff) =>
          match split_last out with
          | Some (rest, last) =>
              if negb (is_break last) || (v_guard g && negb (no_break_l rest))
              then Some ([SWhile lvs body bc], c, false, fl0)
              else
                match last with
                | SBreak v =>
                    let r := (rest, c, false, orf ff (negb (v_guard g), negb (no_break_l rest))) in
                    match bc with
                    | Some b => match bind b (opt_expr (cx_v c) v) c with
                                | Some c' => Some (rest, c', false, orf ff (negb (v_guard g), negb (no_break_l rest)))
                                | None => None
                                end
                    | None => Some r
                    end
                | _ => None
                end
          | None =>
              let adv := map (fun t => (t_name t, opt_expr (cx_v c2) (t_e2 t), t_e2 t)) lvs in
              match depth with
              | O => Some ([SWhile adv body bc], c, false, ff)
              | S d => match try_loop g stmts d adv body bc c with
                       | Some (o, c', b, f) => Some (o, c', b, orf ff f)
                       | None => None
                       end
              end
          end
      end
  end.

(* the first loop of the While case: loop variables whose initial and loop value are the same expression *)
Fixpoint elim_lvs (g : ver) (lvs : list triple) (c : cx) : option (list triple * cx * fl) :=
  match lvs with
  | [] => Some ([], c, fl0)
  | t :: r =>
      if expr_eq (t_e1 t) (t_e2 t)
      then match bind (t_name t) (if v_optinit g then opt_expr (cx_v c) (t_e1 t) else t_e1 t) c with
           | Some c' => match elim_lvs g r c' with
                        | Some (k, c'', f) => Some (k, c'', orf (if v_optinit g then fl0 else fl_unproved) f)
                        | None => None
                        end
           | None => None
           end
      else match elim_lvs g r c with
           | Some (k, c', f) => Some (t :: k, c', f)
           | None => None
           end
  end.

Fixpoint bind_fas (is_true : bool) (fas : list triple) (c : cx) : option cx :=
  match fas with
  | [] => Some c
  | t :: r =>
      match bind (t_name t) (opt_expr (cx_v c) (if is_true then t_e1 t else t_e2 t)) c with
      | Some c' => bind_fas is_true r c'
      | None => None
      end
  end.

(* the loop over (branch1_values, branch2_values, final_assignments) *)
Fixpoint merge_fas (fas : list triple) (v1 v2 : list expr) (c : cx) : option (list triple * cx) :=
  match fas, v1, v2 with
  | t :: r, a :: r1, b :: r2 =>
      if expr_eq a b
      then match bind (t_name t) a c with Some c' => merge_fas r r1 r2 c' | None => None end
      else match merge_fas r r1 r2 c with Some (k, c') => Some ((t_name t, a, b) :: k, c') | None => None end
  | _, _, _ => Some ([], c)
  end.

Definition lit (e : expr) : option Z := match e with EInt z => Some (wrap32 z) | _ => None end.
Definition is_lit (e : expr) (k : Z) : bool := match lit e with Some z => z =? k | None => false end.

(* the Binary case of optimize_stmt, in three pieces: "bind the name and drop the statement", the part
   after the literal special cases (same-variable identities, operand reordering, merging with a recorded
   binary expression), and the literal special cases themselves *)
Definition ccp_bound (x : name) (e : expr) (c : cx) : option R :=
  match bind x e c with Some c' => Some ([], c', false, fl0) | None => None end.

Definition ccp_bin_rest (x : name) (op : binop) (e1 e2 : expr) (c : cx) : option R :=
  match
    match e1, e2 with
    | EVar a, EVar b =>
        if N.eqb a b then
          match op with
          | MINUS | MOD => Some (EInt 0)
          | DIV => Some (EInt 1)
          | _ => None
          end
        else None
    | _, _ => None
    end
  with
  | Some e => ccp_bound x e c
  | None =>
      let '(op', a, b) := flex_unwrapped op e1 e2 in
      match a, b with
      | EVar v1, EInt c2 =>
          let c2 := wrap32 c2 in
          match
            match assoc v1 (cx_b c) with
            | Some (iop, iv, ic) => match merge_binop op' iop ic c2 with
                                    | Some (mop, mc) => Some (SBin x mop (EVar iv) (EInt mc))
                                    | None => None
                                    end
            | None => None
            end
          with
          | Some s => Some ([s], c, false, fl0)
          | None => Some ([SBin x op' a b], bind_b x (op', v1, c2) c, false, fl0)
          end
      | _, _ => Some ([SBin x op' a b], c, false, fl0)
      end
  end.

Definition ccp_bin (x : name) (op : binop) (e1 e2 : expr) (c : cx) : option R :=
  let e1 := opt_expr (cx_v c) e1 in
  let e2 := opt_expr (cx_v c) e2 in
  match lit e2 with
  | Some v2 =>
      if (v2 =? 0) && (match op with PLUS => true | _ => false end) then ccp_bound x e1 c
      else if (v2 =? 0) && (match op with MUL => true | _ => false end) then ccp_bound x (EInt 0) c
      else if (v2 =? 1) && (match op with MOD => true | _ => false end) then ccp_bound x (EInt 0) c
      else if (v2 =? 1) && (match op with MUL | DIV => true | _ => false end) then ccp_bound x e1 c
      else match lit e1 with
           | Some v1 => match fold_binop op v1 v2 with
                        | Some r => ccp_bound x (EInt (wrap32 r)) c
                        | None => ccp_bin_rest x op e1 e2 c
                        end
           | None => ccp_bin_rest x op e1 e2 c
           end
  | None => ccp_bin_rest x op e1 e2 c
  end.

(* optimize_stmt; `n` bounds the nesting of recursive calls (the Rust recursion re-optimizes its own
   output in the While case, which is not structural); None = out of this bound or a Rust panic *)
Fixpoint ccp_stmt (g : ver) (n : nat) (st : stmt) (c : cx) {struct n} : option R :=
  match n with
  | O => None
  | S n' =>
    let stmts := ccp_go (ccp_stmt g n') in
    match st with
    | SNot x e =>
        let e := opt_expr (cx_v c) e in
        match lit e with
        | Some v => match bind x (EInt (wrap32 (Z.lxor v 1))) c with
                    | Some c' => Some ([], c', false, fl0)
                    | None => None
                    end
        | None => Some ([SNot x e], c, false, fl0)
        end
    | SPrim x p e =>
        let e := opt_expr (cx_v c) e in
        match
          match p, e with
          | PIdx _ i, EVar y => if v_forward g then assoc_i y i (cx_i c) else None      (* a field of a struct made in this function *)
          | _, _ => None
          end
        with
        | Some computed => match bind x computed c with
                           | Some c' => Some ([], c', false, fl0)
                           | None => None
                           end
        | None => Some ([SPrim x p e], c, false, fl0)
        end
    | SBin x op e1 e2 => ccp_bin x op e1 e2 c
    | SCall f args ret => Some ([SCall f (map (opt_expr (cx_v c)) args) ret], c, false, fl0)
    | SIf cond s1 s2 fas =>
        let cond := opt_expr (cx_v c) cond in
        match lit cond with
        | Some v =>
            let is_true := negb (v =? 0) in
            match stmts (if is_true then s1 else s2) c with
            | None => None
            | Some (out, c1, true, f) => Some (out, c1, true, f)
            | Some (out, c1, false, f) =>
                match bind_fas is_true fas c1 with
                | Some c2 => Some (out, c2, false, f)
                | None => None
                end
            end
        | None =>
            match
              match s1, s2, fas with
              | [], [], [t] =>
                  if is_lit (t_e1 t) 1 && is_lit (t_e2 t) 0
                  then Some (match bind (t_name t) cond c with
                             | Some c' => Some ([], c', false, fl0)
                             | None => None
                             end)
                  else if is_lit (t_e1 t) 0 && is_lit (t_e2 t) 1
                  then Some (Some ([SBin (t_name t) XOR cond (EInt 1)], c, false, fl0))
                  else None
              | _, _, _ => None
              end
            with
            | Some r => r
            | None =>
                match stmts s1 c with
                | None => None
                | Some (o1, c1, _, f1) =>
                    let v1 := map (fun t => opt_expr (cx_v c1) (t_e1 t)) fas in
                    match stmts s2 c with
                    | None => None
                    | Some (o2, c2, _, f2) =>
                        let v2 := map (fun t => opt_expr (cx_v c2) (t_e2 t)) fas in
                        match merge_fas fas v1 v2 c with
                        | None => None
                        | Some (fas', c') =>
                            Some (if is_nil o1 && is_nil o2 && is_nil fas' then [] else [SIf cond o1 o2 fas'],
                                  c', false,
                                  orf (orf f1 f2)
                                      (if dead_final_assignments o1 o2 fas then fl_unproved else fl0))
                        end
                    end
                end
            end
        end
    | SSIf cond inv ss =>
        let cond := opt_expr (cx_v c) cond in
        match lit cond with
        | Some v =>
            if negb (Z.lxor v (b2z inv) =? 0) then stmts ss c else Some ([], c, false, fl0)
        | None =>
            match stmts ss c with
            | None => None
            | Some (out, c1, _, f) => Some (if is_nil out then [] else [SSIf cond inv out], c1, false, f)
            end
        end
    | SBreak e => Some ([SBreak (opt_expr (cx_v c) e)], c, true, fl0)
    | SWhile lvs ss bc =>
        match elim_lvs g lvs c with
        | None => None
        | Some (filtered, c1, f0) =>
            let inits := map (fun t => opt_expr (cx_v c1) (t_e1 t)) filtered in
            match stmts ss c1 with
            | None => None
            | Some (body, c_in, _, f1) =>
                let lvs' := map (fun t => (t_name t, opt_expr (cx_v c1) (t_e1 t), opt_expr (cx_v c_in) (t_e2 t))) filtered in
                match
                  match split_last body with
                  | Some (rest, SBreak e) => if v_guard g && negb (no_break_l rest) then None else Some (rest, e)
                  | _ => None
                  end
                with
                | Some (rest, e) =>
                    (* "Now we know that the loop will only loop once!" *)
                    match bind_inits lvs' c1 with
                    | None => None
                    | Some c2 =>
                        match stmts rest c2 with
                        | None => None
                        | Some (out, c3, _, f2) =>
                            let f := orf (orf f0 (orf f1 f2)) (negb (v_guard g), negb (no_break_l out)) in
                            match bc with
                            | Some b => match bind b (opt_expr (cx_v c3) e) c3 with
                                        | Some c4 => Some (out, c4, false, f)
                                        | None => None
                                        end
                            | None => Some (out, c3, false, f)
                            end
                        end
                    end
                | None =>
                    match try_loop g stmts 5 lvs' body bc c1 with
                    | None => None
                    | Some (out, c2, b, f2) =>
                        Some (out, c2, b, orf (orf (orf f0 f1) f2)
                                              (if dead_loop_values body lvs' then fl_unproved else fl0))
                    end
                end
            end
        end
    | SStruct x tn es =>
        let es := map (opt_expr (cx_v c)) es in
        Some ([SStruct x tn es], add_fields x es c, false, fl0)
    | SLateDecl x => Some ([st], c, false, fl0)
    | SLateAssign x e => Some ([SLateAssign x (opt_expr (cx_v c) e)], c, false, fl0)
    end
  end.
Definition ccp_stmts (g : ver) (n : nat) : list stmt -> cx -> option R := ccp_go (ccp_stmt g n).

(* optimize_function *)
Definition ccp_fuel : nat := 64.
Definition ccp_gen (g : ver) (f : func) : option (func * fl) :=
  match ccp_stmts g ccp_fuel (f_body f) cx0 with
  | None => None
  | Some (out, c, _, f1) => Some (mkfunc (f_params f) out (opt_expr (cx_v c) (f_ret f)), f1)
  end.
Definition ccp : func -> option (func * fl) := ccp_gen ver_now.
(* decidable: while optimising f the pass (as it is now) met one of the two situations above *)
Definition dead_final_operands (f : func) : bool := match ccp f with Some (_, fl) => fst fl | None => false end.
Definition no_dead_final_operands (f : func) : Prop := dead_final_operands f = false.
Definition ccp_nf : func -> option (func * fl) := ccp_gen ver_nf.
Definition no_struct_forwarding (f : func) : Prop := ccp_nf f = ccp f.
Definition ccp_old : func -> option (func * fl) := ccp_gen (mkver false false true).      (* before fix 6cdc437 *)
Definition ccp_old2 : func -> option (func * fl) := ccp_gen (mkver true false true).      (* after 6cdc437, before fef18b5 *)

(* ======================================================================== local value numbering *)

(* BindedValue (optimization_common.rs); Cast is not value-numbered *)
Inductive bval :=
| BVBin (op : binop) (e1 e2 : expr)
| BVNot (e : expr)
| BVPrim (p : prim) (e : expr).

Definition binop_eq (a b : binop) : bool :=
  match a, b with
  | MUL, MUL | DIV, DIV | MOD, MOD | PLUS, PLUS | MINUS, MINUS | LAND, LAND | LOR, LOR | SHL, SHL | SHR, SHR
  | XOR, XOR | LT, LT | LE, LE | GT, GT | GE, GE | EQ, EQ | NE, NE => true
  | _, _ => false
  end.
Definition prim_eq (a b : prim) : bool :=
  match a, b with
  | PIdx t i, PIdx t' i' => N.eqb t t' && N.eqb i i'
  | PIsPtr t, PIsPtr t' => N.eqb t t'
  | _, _ => false
  end.
(* derived Eq of BindedValue; expressions are compared with Expression::eq (= cmp is Equal) *)
Definition bval_eq (a b : bval) : bool :=
  match a, b with
  | BVBin op e1 e2, BVBin op' e1' e2' => binop_eq op op' && expr_eq e1 e1' && expr_eq e2 e2'
  | BVNot e, BVNot e' => expr_eq e e'
  | BVPrim p e, BVPrim p' e' => prim_eq p p' && expr_eq e e'
  | _, _ => false
  end.

Definition lvc := list (name * name).           (* LocalContext: variable -> representative *)
Definition lbc := list (bval * name).           (* LocalBindedValueContext *)

Fixpoint bassoc (v : bval) (l : lbc) : option name :=
  match l with [] => None | (u, n) :: r => if bval_eq v u then Some n else bassoc v r end.

(* optimize_variable / optimize_expr *)
Definition lvn_var (vc : lvc) (x : name) : name := match assoc x vc with Some y => y | None => x end.
Definition lvn_expr (vc : lvc) (e : expr) : expr := match e with EVar x => EVar (lvn_var vc x) | _ => e end.
(* lvn_bind_var *)
Definition lvn_bind_var (vc : lvc) (x v : name) : lvc := (x, match assoc x vc with Some y => y | None => v end) :: vc.

(* the four value-numbered statement forms share this step *)
Definition lvn_number (x : name) (v : bval) (keep : stmt) (vc : lvc) (bc : lbc) : option stmt * lvc * lbc :=
  match bassoc v bc with
  | Some b => (None, lvn_bind_var vc x b, bc)
  | None => (Some keep, vc, (v, x) :: bc)
  end.

(* optimize_stmt: the statement is rewritten in place; None = dropped (retain_mut returned false) *)
Fixpoint lvn_stmt (st : stmt) (vc : lvc) (bc : lbc) {struct st} : option stmt * lvc * lbc :=
  let fix go (ss : list stmt) (vc : lvc) (bc : lbc) : list stmt * lvc * lbc :=
    match ss with
    | [] => ([], vc, bc)
    | st :: r =>
        let '(o, vc1, bc1) := lvn_stmt st vc bc in
        let '(r', vc2, bc2) := go r vc1 bc1 in
        (match o with Some st' => st' :: r' | None => r' end, vc2, bc2)
    end in
  match st with
  | SBin x op e1 e2 =>
      let e1 := lvn_expr vc e1 in let e2 := lvn_expr vc e2 in
      lvn_number x (BVBin op e1 e2) (SBin x op e1 e2) vc bc
  | SNot x e => let e := lvn_expr vc e in lvn_number x (BVNot e) (SNot x e) vc bc
  | SPrim x p e =>
      let e := lvn_expr vc e in
      match p with
      | PCast _ => (Some (SPrim x p e), vc, bc)
      | _ => lvn_number x (BVPrim p e) (SPrim x p e) vc bc
      end
  | SCall f args ret => (Some (SCall f (map (lvn_expr vc) args) ret), vc, bc)
  | SIf c s1 s2 fas =>
      let c := lvn_expr vc c in
      let '(s1', vc1, _) := go s1 vc bc in
      let '(s2', vc2, _) := go s2 vc bc in
      (Some (SIf c s1' s2' (map (fun t => (t_name t, lvn_expr vc1 (t_e1 t), lvn_expr vc2 (t_e2 t))) fas)), vc, bc)
  | SSIf c inv ss =>
      let c := lvn_expr vc c in
      let '(ss', _, _) := go ss vc bc in
      (Some (SSIf c inv ss'), vc, bc)
  | SBreak e => (Some (SBreak (lvn_expr vc e)), vc, bc)
  | SWhile lvs ss bcol =>
      let '(ss', vc1, _) := go ss vc bc in
      (Some (SWhile (map (fun t => (t_name t, lvn_expr vc (t_e1 t), lvn_expr vc1 (t_e2 t))) lvs) ss' bcol), vc, bc)
  | SStruct x tn es => (Some (SStruct x tn (map (lvn_expr vc) es)), vc, bc)
  | SLateDecl x => (Some st, vc, bc)
  | SLateAssign x e => (Some (SLateAssign x (lvn_expr vc e)), vc, bc)
  end.
Fixpoint lvn_stmts (ss : list stmt) (vc : lvc) (bc : lbc) : list stmt * lvc * lbc :=
  match ss with
  | [] => ([], vc, bc)
  | st :: r =>
      let '(o, vc1, bc1) := lvn_stmt st vc bc in
      let '(r', vc2, bc2) := lvn_stmts r vc1 bc1 in
      (match o with Some st' => st' :: r' | None => r' end, vc2, bc2)
  end.
(* optimize_function *)
Definition lvn (f : func) : func :=
  let '(body, vc, _) := lvn_stmts (f_body f) [] [] in
  mkfunc (f_params f) body (lvn_expr vc (f_ret f)).

(* ======================================================================== common subexpression elimination *)
(* common_subexpression_elimination.rs: a value computed at the top level of BOTH branches of an if-else is
   also computed, into a fresh temporary, just before the if-else (local value numbering then removes the
   two copies).  Statements are walked in reverse; `set` is the BTreeSet<BindedValue> of the block, kept as a
   sorted list; SingleIf and While bodies are not looked into.  The fresh names come from a supply (the real
   pass takes them from a counter; the tie passes the names the real pass made, in allocation order). *)
Definition lexc (a b : comparison) : comparison := match a with Eq => b | o => o end.
Definition binop_rank (op : binop) : N :=
  match op with
  | MUL => 0 | DIV => 1 | MOD => 2 | PLUS => 3 | MINUS => 4 | LAND => 5 | LOR => 6 | SHL => 7 | SHR => 8 | XOR => 9
  | LT => 10 | LE => 11 | GT => 12 | GE => 13 | EQ => 14 | NE => 15
  end%N.
(* derived Ord of BindedValue: IndexedAccess < Binary < IsPointer < Not, then the fields in declaration order *)
Definition bval_rank (v : bval) : N :=
  match v with
  | BVPrim (PIdx _ _) _ => 0 | BVBin _ _ _ => 1 | BVPrim (PIsPtr _) _ => 2 | BVNot _ => 3 | BVPrim (PCast _) _ => 4
  end%N.
Definition bval_cmp (a b : bval) : comparison :=
  match a, b with
  | BVPrim (PIdx t i) e, BVPrim (PIdx t' i') e' => lexc (N.compare t t') (lexc (expr_cmp e e') (N.compare i i'))
  | BVBin op e1 e2, BVBin op' e1' e2' =>
      lexc (N.compare (binop_rank op) (binop_rank op')) (lexc (expr_cmp e1 e1') (expr_cmp e2 e2'))
  | BVPrim (PIsPtr t) e, BVPrim (PIsPtr t') e' => lexc (N.compare t t') (expr_cmp e e')
  | BVNot e, BVNot e' => expr_cmp e e'
  | BVPrim (PCast t) e, BVPrim (PCast t') e' => lexc (N.compare t t') (expr_cmp e e')
  | _, _ => N.compare (bval_rank a) (bval_rank b)
  end.
Definition bset := list bval.
Fixpoint bset_insert (v : bval) (s : bset) : bset :=
  match s with
  | [] => [v]
  | u :: r => match bval_cmp v u with Lt => v :: s | Eq => s | Gt => u :: bset_insert v r end
  end.
Definition bset_mem (v : bval) (s : bset) : bool :=
  existsb (fun u => match bval_cmp v u with Eq => true | _ => false end) s.
Definition stmt_of_bval (x : name) (v : bval) : stmt :=
  match v with
  | BVBin op e1 e2 => let '(op', a, b) := unwrapped op e1 e2 in SBin x op' a b
  | BVNot e => SNot x e
  | BVPrim p e => SPrim x p e
  end.
(* one fresh name per value, in this order *)
Fixpoint take_names (vs : list bval) (sup : list name) : option (list (name * bval) * list name) :=
  match vs with
  | [] => Some ([], sup)
  | v :: r => match sup with
              | [] => None
              | x :: sup' => match take_names r sup' with Some (l, s) => Some ((x, v) :: l, s) | None => None end
              end
  end.

(* a division can trap: since fix 32a0c6b (finding C02-cse-hoists-trapping-division) it is never hoisted;
   hoist_div = true is the pass before that fix *)
Definition bval_divmod (v : bval) : bool := match v with BVBin op _ _ => is_divmod op | _ => false end.
Definition cse_common (hoist_div : bool) (set1 set2 : bset) : list bval :=
  filter (fun e => hoist_div || negb (bval_divmod e)) (filter (fun e => bset_mem e set2) set1).

Section Cse.
Variable hd : bool.
Fixpoint cse_stmt (st : stmt) (set : bset) (sup : list name) {struct st} : option (list stmt * bset * list name) :=
  let fix go (ss : list stmt) (sup : list name) : option (list stmt * bset * list name) :=
    match ss with
    | [] => Some ([], [], sup)
    | st :: r =>
        match go r sup with
        | None => None
        | Some (r', set, sup1) =>
            match cse_stmt st set sup1 with
            | None => None
            | Some (o, set', sup2) => Some (o ++ r', set', sup2)
            end
        end
    end in
  match st with
  | SBin x op e1 e2 => Some ([st], bset_insert (BVBin op e1 e2) set, sup)
  | SNot x e => Some ([st], bset_insert (BVNot e) set, sup)
  | SPrim x p e => match p with
                   | PCast _ => Some ([st], set, sup)
                   | _ => Some ([st], bset_insert (BVPrim p e) set, sup)
                   end
  | SIf c s1 s2 fas =>
      match go s1 sup with
      | None => None
      | Some (s1', set1, sup1) =>
          match go s2 sup1 with
          | None => None
          | Some (s2', set2, sup2) =>
              let common := cse_common hd set1 set2 in
              (* pushed after the if-else in decreasing order while walking in reverse *)
              match take_names (rev common) sup2 with
              | None => None
              | Some (named, sup3) =>
                  Some (map (fun p => stmt_of_bval (fst p) (snd p)) (rev named) ++ [SIf c s1' s2' fas],
                        fold_left (fun s v => bset_insert v s) (rev common) set, sup3)
              end
          end
      end
  | _ => Some ([st], set, sup)
  end.
Fixpoint cse_stmts (ss : list stmt) (sup : list name) : option (list stmt * bset * list name) :=
  match ss with
  | [] => Some ([], [], sup)
  | st :: r =>
      match cse_stmts r sup with
      | None => None
      | Some (r', set, sup1) =>
          match cse_stmt st set sup1 with
          | None => None
          | Some (o, set', sup2) => Some (o ++ r', set', sup2)
          end
      end
  end.
End Cse.
(* optimize_function; None = the supply of fresh names is too short *)
Definition cse_gen (hd : bool) (sup : list name) (f : func) : option (func * list name) :=
  match cse_stmts hd (f_body f) sup with
  | Some (body, _, sup') => Some (mkfunc (f_params f) body (f_ret f), sup')
  | None => None
  end.
Definition cse (sup : list name) (f : func) : option func := option_map fst (cse_gen false sup f).
Definition cse_old (sup : list name) (f : func) : option func := option_map fst (cse_gen true sup f).   (* before fix 32a0c6b *)

(* ======================================================================== the per-function pipeline *)
(* lib.rs optimize_function_for_one_round / optimize_function_for_rounds, restricted to the modelled passes
   (scalar replacement and the loop optimisations are switched off by the OptimizationConfiguration; common
   subexpression elimination and local value numbering are configuration flags):
     one round  = ccp; [cse]; [lvn]; dce          rounds = round; round; ccp; dce; ccp
   The state carries the or-ed flags of the ccp applications and the supply of fresh names for cse. *)
Definition pst := (func * fl * list name)%type.
Section Pipeline.
Variable g : ver.
Definition then_ccp (r : option pst) : option pst :=
  match r with
  | Some (f, fl1, s) => match ccp_gen g f with Some (f', fl2) => Some (f', orf fl1 fl2, s) | None => None end
  | None => None
  end.
Definition then_pure (p : func -> func) (r : option pst) : option pst :=
  match r with Some (f, fl1, s) => Some (p f, fl1, s) | None => None end.
Definition then_cse (on : bool) (r : option pst) : option pst :=
  if on then
    match r with
    | Some (f, fl1, s) => match cse_gen false s f with Some (f', s') => Some (f', fl1, s') | None => None end
    | None => None
    end
  else r.
Definition one_round (lvn_on cse_on : bool) (r : option pst) : option pst :=
  then_pure dce (then_pure (if lvn_on then lvn else fun f => f) (then_cse cse_on (then_ccp r))).
Definition pipeline_gen (lvn_on cse_on : bool) (sup : list name) (f : func) : option pst :=
  then_ccp (then_pure dce (then_ccp (one_round lvn_on cse_on (one_round lvn_on cse_on (Some (f, fl0, sup)))))).
End Pipeline.
Definition pipeline := pipeline_gen ver_now.
(* decidable: the pipeline without forwarding of struct fields gives the same result *)
Definition pipeline_no_struct_forwarding (lvn_on cse_on : bool) (sup : list name) (f : func) : Prop :=
  pipeline_gen ver_nf lvn_on cse_on sup f = pipeline lvn_on cse_on sup f.
(* decidable: none of the five applications of ccp met dead final operands (see dead_final_operands) *)
Definition pipeline_no_dead_final_operands (lvn_on cse_on : bool) (sup : list name) (f : func) : Prop :=
  match pipeline lvn_on cse_on sup f with Some (_, fl, _) => fst fl = false | None => True end.
