(* C02deep — conditional constant propagation (model Passes.ccp) preserves the behaviour of every
   well-formed function, on the paths of the model that are flagged "proved": everything except the two
   rewrites of the While case that re-optimise already optimised statements (single-iteration loop, peeling).
   Both runs are taken in mode Add (+ and - checked): the input run does not overflow there and neither does
   the output run, so rounds compose (refines_add); `refines` (mode All in, mode Wrap out) is a corollary. *)
From Coq Require Import ZArith NArith List Bool Lia.
Import ListNotations.
From SV Require Import Common.Int32 C02.Kernels C02.Proofs C02deep.Syntax C02deep.Sem C02deep.Passes
  C02deep.ProofsSem C02deep.ProofsDceSets C02deep.ProofsDce C02deep.ProofsCcpArith C02deep.ProofsCcpRel.
Open Scope Z_scope.

Lemma in_scope_In S0 S e : in_scope S0 e = true -> incl' S0 S -> forall x, e = EVar x -> In x S.
Proof. intros H Hi x ->. apply Hi. now apply in_scope_var. Qed.

Lemma incl'_refl a : incl' a a. Proof. intros x; auto. Qed.
Lemma incl'_app_r a b : incl' b (a ++ b). Proof. intros x H. apply in_or_app; auto. Qed.
Lemma incl'_cons_r x a : incl' a (x :: a). Proof. intros y H. right; auto. Qed.
Lemma incl'_trans a b c : incl' a b -> incl' b c -> incl' a c. Proof. intros H1 H2 x H. auto. Qed.

Lemma binders_l_app a b : binders_l (a ++ b) = binders_l a ++ binders_l b.
Proof. induction a; cbn; auto. now rewrite IHa, app_assoc. Qed.

Lemma ext_mono bs bs' c c' : ext_outside bs c c' -> incl' bs bs' -> ext_outside bs' c c'.
Proof. intros H Hi x Hx. apply H. intros Hb. apply Hx. auto. Qed.

Lemma incl'_app_l a b : incl' a (a ++ b). Proof. intros x H. apply in_or_app; auto. Qed.
Lemma NoDup_app_l' {A} (a b : list A) : NoDup (a ++ b) -> NoDup a.
Proof. induction a; cbn; intros H; [constructor|]. inversion H; subst. constructor; auto. rewrite in_app_iff in *. tauto. Qed.
Lemma NoDup_app_r' {A} (a b : list A) : NoDup (a ++ b) -> NoDup b.
Proof. induction a; cbn; intros H; auto. inversion H; auto. Qed.
Lemma NoDup_app_disj' {A} (a b : list A) x : NoDup (a ++ b) -> In x a -> In x b -> False.
Proof.
  induction a; cbn; intros H Ha Hb; [contradiction|]. inversion H; subst. destruct Ha as [->|Ha]; auto.
  rewrite in_app_iff in *. tauto.
Qed.

Section Ccp.
  Variables (w : world) (fuel : nat) (g : ver).
  (* both runs check + and - (mode Add): the input run does not overflow there, and neither does the output *)
  Notation exec_o := (exec Add w fuel).
  Notation exec_block_o := (exec_block Add w fuel).
  Notation exec_t := (exec Add w fuel).
  Notation exec_block_t := (exec_block Add w fuel).

  Definition dyn (ro : res) (out : list stmt) (c' : cx) (brk : bool) (S bs ds : list name) (et : env) (tr : trace) : Prop :=
    match ro with
    | RNext eo' tr' =>
        brk = false /\
        exists et' S', exec_block_t out et tr = RNext et' tr' /\ Rel w c' S' eo' et' /\
                       incl' (ds ++ S) S' /\ incl' S' (bs ++ S)
    | RBreak v _ tr' => exists et', exec_block_t out et tr = RBreak v et' tr'
    | _ => True
    end.

  Definition good (bs ds : list name) (xo : env -> trace -> res) (S0 : list name) (c : cx)
             (out : list stmt) (c' : cx) (brk : bool) : Prop :=
    forall D, cx_wf c D -> incl' S0 D -> NoDup bs -> disj bs D ->
      (cx_wf c' (bs ++ D) /\ ext_outside bs c c' /\ incl' (binders_l out) bs) /\
      forall S eo et tr, incl' S0 S -> incl' S D -> Rel w c S eo et ->
                         dyn (xo eo tr) out c' brk S bs ds et tr.

  Definition Pn (n : nat) : Prop := forall st c out c' brk f S0,
    ccp_stmt g n st c = Some (out, c', brk, f) -> fst f = false -> scoped S0 st = true ->
    good (binders st) (defs st) (exec_o st) S0 c out c' brk.
  Definition Qn (n : nat) : Prop := forall ss c out c' brk f S0,
    ccp_stmts g n ss c = Some (out, c', brk, f) -> fst f = false -> scoped_l S0 ss = true ->
    good (binders_l ss) (defs_l ss) (exec_block_o ss) S0 c out c' brk.

  (* ---------------------------------------------------------------- statements that bind one name *)

  (* the statement is dropped, its name bound to e in the context *)
  Lemma bound_good x e c c' S0 (xo : env -> trace -> res) :
    bind x e c = Some c' ->
    (forall D, cx_wf c D -> incl' S0 D -> forall y, e = EVar y -> In y D) ->
    (forall D S eo et tr, cx_wf c D -> incl' S0 S -> incl' S D -> Rel w c S eo et ->
       match xo eo tr with
       | RNext eo' tr' => exists v, eo' = (x, v) :: eo /\ tr' = tr /\ wrap32 v = eval w et e /\
                                    forall y, e = EVar y -> In y S
       | RBreak _ _ _ => False
       | _ => True
       end) ->
    good [x] [x] xo S0 c [] c' false.
  Proof.
    intros Hb Hst Hdy D Hwf HS0 Hnd Hdj. split.
    - split; [|split].
      + apply (bind_wf x e c c' D Hb Hwf). eauto.
      + eapply bind_ext; eauto.
      + intros y [].
    - intros S eo et tr Hi1 Hi2 HR. specialize (Hdy D S eo et tr Hwf Hi1 Hi2 HR).
      destruct (xo eo tr); cbn [dyn]; auto; [|contradiction].
      destruct Hdy as (v & -> & -> & Hv & Hy). split; auto. exists et, (x :: S). split; [reflexivity|].
      assert (HxD : ~ In x D) by (intros H; eapply Hdj; eauto; left; reflexivity).
      split; [|split; apply incl'_refl].
      eapply Rel_bind; eauto. eapply cx_wf_notin_b; eauto.
  Qed.

  (* the statement is kept (possibly rewritten) as a single statement that assigns x the same value;
     c' is c, or c with a record for x in the binary-expression context *)
  Lemma kept_good x st' c c' S0 (xo : env -> trace -> res) :
    binders st' = [x] ->
    (c' = c \/ exists op y k, c' = bind_b x (op, y, k) c /\
       (forall D, cx_wf c D -> incl' S0 D -> In y D /\ in32 k)) ->
    (forall D S eo et tr, cx_wf c D -> incl' S0 S -> incl' S D -> Rel w c S eo et ->
       match xo eo tr with
       | RNext eo' tr' => exists v, eo' = (x, v) :: eo /\ exec_t st' et tr = RNext ((x, v) :: et) tr' /\
            forall op y k, c' = bind_b x (op, y, k) c ->
              In y S /\ chk Add op && ovf op (eval w et (EVar y)) k = false /\ rt_binop op (eval w et (EVar y)) k = Val v
       | RBreak _ _ _ => False
       | _ => True
       end) ->
    good [x] [x] xo S0 c [st'] c' false.
  Proof.
    intros Hbs Hc Hdy D Hwf HS0 Hnd Hdj.
    assert (HxD : ~ In x D) by (intros H; eapply Hdj; eauto; left; reflexivity).
    split.
    - split; [|split].
      + destruct Hc as [->|(op & y & k & -> & Hyk)].
        * eapply cx_wf_mono; eauto. apply incl'_cons_r.
        * destruct (Hyk D Hwf HS0). now apply bind_b_wf.
      + destruct Hc as [->|(op & y & k & -> & _)]; [apply ext_refl | apply bind_b_ext].
      + cbn. rewrite Hbs, app_nil_r. apply incl'_refl.
    - intros S eo et tr Hi1 Hi2 HR. specialize (Hdy D S eo et tr Hwf Hi1 Hi2 HR).
      destruct (xo eo tr); cbn [dyn]; auto; [|contradiction].
      destruct Hdy as (v & -> & Ht & Hrec). split; auto. exists ((x, v) :: et), (x :: S).
      split; [rewrite exec_block_cons, Ht; reflexivity|].
      assert (HxS : ~ In x S) by (intros H; apply HxD; auto).
      assert (HR' : Rel w c (x :: S) ((x, v) :: eo) ((x, v) :: et)).
      { apply Rel_def; auto; [eapply cx_wf_notin_v | eapply cx_wf_notin_b]; eauto. }
      split; [|split; apply incl'_refl].
      destruct Hc as [->|(op & y & k & -> & _)]; [exact HR'|].
      destruct (Hrec op y k eq_refl) as (Hy & Ho & Hv).
      assert (Hyx : y <> x) by (intros ->; contradiction).
      assert (Ey : eval w ((x, v) :: et) (EVar y) = eval w et (EVar y)).
      { unfold eval. cbn. destruct (N.eqb_spec y x); [contradiction | reflexivity]. }
      eapply Rel_bind_b; eauto.
      * left; reflexivity.
      * right; assumption.
      * eapply cx_wf_notin_b; eauto.
      * now rewrite Ey.
      * rewrite Ey. eassumption.
      * unfold eval. cbn. now rewrite N.eqb_refl.
  Qed.
  (* ---------------------------------------------------------------- Not, opaque primitives, Call, Break *)
  Lemma bind_b_neq x b c : bind_b x b c <> c.
  Proof. destruct c as [v bb]. unfold bind_b. cbn. intros E. injection E as E. apply (f_equal (@length _)) in E. cbn in E. lia. Qed.

  Lemma P_SNot n x e c out c' brk f S0 :
    ccp_stmt g (S n) (SNot x e) c = Some (out, c', brk, f) -> scoped S0 (SNot x e) = true ->
    good [x] [x] (exec_o (SNot x e)) S0 c out c' brk.
  Proof.
    cbn [ccp_stmt scoped]. intros H Hsc. destruct (lit (opt_expr (cx_v c) e)) as [z|] eqn:L.
    - destruct (bind x _ c) as [c1|] eqn:B; [|discriminate]. injection H as <- <- <- <-.
      eapply bound_good; eauto.
      + intros; discriminate.
      + intros D S eo et tr Hwf Hi1 Hi2 HR. cbn. eexists. split; [reflexivity|]. split; [reflexivity|].
        split; [|intros; discriminate].
        destruct (lit_eval _ _ L) as (Hz & _ & _).
        rewrite (Rel_expr w c S eo et e HR (in_scope_In _ _ _ Hsc Hi1)), Hz.
        unfold eval. now rewrite wrap32_idem.
    - injection H as <- <- <- <-. eapply kept_good; [reflexivity | left; reflexivity |].
      intros D S eo et tr Hwf Hi1 Hi2 HR. cbn. eexists. split; [reflexivity|].
      rewrite (Rel_expr w c S eo et e HR (in_scope_In _ _ _ Hsc Hi1)). split; [reflexivity|].
      intros op y k E. exfalso. symmetry in E. eapply bind_b_neq; eauto.
  Qed.

  Lemma P_SPrim n x p e c out c' brk f S0 :
    ccp_stmt g (S n) (SPrim x p e) c = Some (out, c', brk, f) -> scoped S0 (SPrim x p e) = true ->
    good [x] [x] (exec_o (SPrim x p e)) S0 c out c' brk.
  Proof.
    cbn [ccp_stmt scoped]. intros H Hsc. injection H as <- <- <- <-.
    eapply kept_good; [reflexivity | left; reflexivity |].
    intros D S eo et tr Hwf Hi1 Hi2 HR. cbn. eexists. split; [reflexivity|].
    rewrite (Rel_expr w c S eo et e HR (in_scope_In _ _ _ Hsc Hi1)). split; [reflexivity|].
    intros op y k E. exfalso. symmetry in E. eapply bind_b_neq; eauto.
  Qed.

  Lemma P_SBreak n e c out c' brk f S0 :
    ccp_stmt g (S n) (SBreak e) c = Some (out, c', brk, f) -> scoped S0 (SBreak e) = true ->
    good [] [] (exec_o (SBreak e)) S0 c out c' brk.
  Proof.
    cbn [ccp_stmt scoped]. intros H Hsc. injection H as <- <- <- <-.
    intros D Hwf HS0 Hnd Hdj. split.
    - split; [assumption|]. split; [apply ext_refl|]. cbn. intros x [].
    - intros S eo et tr Hi1 Hi2 HR. cbn. eexists.
      rewrite (Rel_expr w c S eo et e HR (in_scope_In _ _ _ Hsc Hi1)). reflexivity.
  Qed.

  Lemma P_SCall n fn args ret c out c' brk f S0 :
    ccp_stmt g (S n) (SCall fn args ret) c = Some (out, c', brk, f) -> scoped S0 (SCall fn args ret) = true ->
    good (opt_names ret) (opt_names ret) (exec_o (SCall fn args ret)) S0 c out c' brk.
  Proof.
    cbn [ccp_stmt scoped]. intros H Hsc. injection H as <- <- <- <-.
    intros D Hwf HS0 Hnd Hdj. split.
    - split; [eapply cx_wf_mono; eauto; apply incl'_app_r|]. split; [apply ext_refl|].
      cbn. rewrite app_nil_r. apply incl'_refl.
    - intros S eo et tr Hi1 Hi2 HR. cbn [exec].
      assert (Hargs : map (eval w et) (map (opt_expr (cx_v c)) args) = map (eval w eo) args).
      { rewrite map_map. apply map_ext_in. intros a Ha. symmetry. apply (Rel_expr w c S eo et a HR).
        rewrite forallb_forall in Hsc. apply (in_scope_In _ _ _ (Hsc a Ha) Hi1). }
      destruct (w_call w tr fn (map (eval w eo) args)) as [v|] eqn:Ec; cbn [dyn]; auto.
      split; auto. rewrite exec_block_cons. cbn [exec]. rewrite Hargs, Ec.
      destruct ret as [r|]; cbn [bind_opt opt_names app].
      + exists ((r, v) :: et), (r :: S). split; [reflexivity|].
        assert (HrD : ~ In r D) by (intros Hr; eapply Hdj; eauto; left; reflexivity).
        split; [|split; apply incl'_refl].
        apply Rel_def; auto; [eapply cx_wf_notin_v | eapply cx_wf_notin_b]; eauto.
      + exists et, S. split; [reflexivity|]. split; [assumption|]. split; apply incl'_refl.
  Qed.
  (* ---------------------------------------------------------------- Binary *)
  Lemma bin_step x op e1 e2 eo tr (G : res -> Prop) :
    G ROvf -> G (RTrap tr) ->
    (forall v, chk Add op && ovf op (eval w eo e1) (eval w eo e2) = false ->
               rt_binop op (eval w eo e1) (eval w eo e2) = Val v -> G (RNext ((x, v) :: eo) tr)) ->
    G (exec_o (SBin x op e1 e2) eo tr).
  Proof.
    intros H1 H2 H3. cbn [exec]. destruct (chk Add op && ovf op _ _) eqn:E; [assumption|].
    destruct (rt_binop op _ _) eqn:R; auto.
  Qed.

  Lemma bound_bin x op e1 e2 e c out c' brk f S0 :
    ccp_bound x e c = Some (out, c', brk, f) ->
    (forall D, cx_wf c D -> incl' S0 D -> forall y, e = EVar y -> In y D) ->
    (forall D S eo et v, cx_wf c D -> incl' S0 S -> incl' S D -> Rel w c S eo et ->
       chk Add op && ovf op (eval w eo e1) (eval w eo e2) = false -> rt_binop op (eval w eo e1) (eval w eo e2) = Val v ->
       wrap32 v = eval w et e /\ forall y, e = EVar y -> In y S) ->
    good [x] [x] (exec_o (SBin x op e1 e2)) S0 c out c' brk.
  Proof.
    unfold ccp_bound. destruct (bind x e c) as [c1|] eqn:B; [|discriminate]. intros [= <- <- <- <-] Hst Hdy.
    eapply bound_good; eauto.
    intros D S eo et tr Hwf Hi1 Hi2 HR. apply bin_step; auto.
    intros v Ho Hv. destruct (Hdy D S eo et v Hwf Hi1 Hi2 HR Ho Hv). eauto 6.
  Qed.

  Lemma kept_bin x op e1 e2 sop sa sb c c' S0 :
    (c' = c \/ exists y k, c' = bind_b x (sop, y, k) c /\ sa = EVar y /\
       (forall D, cx_wf c D -> incl' S0 D -> In y D /\ in32 k) /\
       (forall en, eval w en sb = k)) ->
    (forall D S eo et v, cx_wf c D -> incl' S0 S -> incl' S D -> Rel w c S eo et ->
       chk Add op && ovf op (eval w eo e1) (eval w eo e2) = false -> rt_binop op (eval w eo e1) (eval w eo e2) = Val v ->
       rt_binop sop (eval w et sa) (eval w et sb) = Val v /\
       chk Add sop && ovf sop (eval w et sa) (eval w et sb) = false /\
       (c' = c \/ forall y, sa = EVar y -> In y S)) ->
    good [x] [x] (exec_o (SBin x op e1 e2)) S0 c [SBin x sop sa sb] c' false.
  Proof.
    intros Hc Hdy. eapply kept_good; [reflexivity | |].
    - destruct Hc as [->|(y & k & -> & _ & Hyk & _)]; [left; reflexivity|]. right. eauto.
    - intros D S eo et tr Hwf Hi1 Hi2 HR. apply bin_step; auto.
      intros v Ho Hv. destruct (Hdy D S eo et v Hwf Hi1 Hi2 HR Ho Hv) as (Ht & Hot & Hrec).
      exists v. split; [reflexivity|]. split.
      + cbn [exec]. rewrite Hot, Ht. reflexivity.
      + intros op' y' k' E. destruct Hrec as [->|Hy].
        * exfalso. symmetry in E. eapply bind_b_neq; eauto.
        * destruct Hc as [->|(y & k & -> & -> & _ & Hk)].
          -- exfalso. symmetry in E. eapply bind_b_neq; eauto.
          -- unfold bind_b in E. injection E as E1 E2 E3. subst op' y' k'. rewrite (Hk et) in *. auto.
  Qed.

  Lemma operand_var e1 e2 y : operand_of e1 e2 (EVar y) -> e1 = EVar y \/ e2 = EVar y.
  Proof. intros [H|[H|[z H]]]; auto; discriminate. Qed.

  Lemma rest_good x op e1 e2 c out c' brk f S0 :
    ccp_bin_rest x op (opt_expr (cx_v c) e1) (opt_expr (cx_v c) e2) c = Some (out, c', brk, f) ->
    in_scope S0 e1 = true -> in_scope S0 e2 = true ->
    good [x] [x] (exec_o (SBin x op e1 e2)) S0 c out c' brk.
  Proof.
    set (e1' := opt_expr (cx_v c) e1). set (e2' := opt_expr (cx_v c) e2).
    intros H Hs1 Hs2.
    assert (EA : forall S eo et, incl' S0 S -> Rel w c S eo et -> eval w eo e1 = eval w et e1').
    { intros S eo et Hi HR. apply (Rel_expr w c S eo et e1 HR). eapply in_scope_In; eauto. }
    assert (EB : forall S eo et, incl' S0 S -> Rel w c S eo et -> eval w eo e2 = eval w et e2').
    { intros S eo et Hi HR. apply (Rel_expr w c S eo et e2 HR). eapply in_scope_In; eauto. }
    assert (VS : forall S eo et y, incl' S0 S -> Rel w c S eo et -> e1' = EVar y \/ e2' = EVar y -> In y S).
    { intros S eo et y Hi HR [E|E].
      - eapply (Rel_expr_scope w c S eo et e1); eauto. eapply in_scope_In; eauto.
      - eapply (Rel_expr_scope w c S eo et e2); eauto. eapply in_scope_In; eauto. }
    assert (VD : forall D y, cx_wf c D -> incl' S0 D -> e1' = EVar y \/ e2' = EVar y -> In y D).
    { intros D y Hwf Hi [E|E]; [apply (opt_expr_range c D S0 e1 y Hwf Hi Hs1 E) | apply (opt_expr_range c D S0 e2 y Hwf Hi Hs2 E)]. }
    unfold ccp_bin_rest in H.
    destruct (match e1', e2' with
              | EVar a, EVar b => if N.eqb a b then match op with MINUS | MOD => Some (EInt 0) | DIV => Some (EInt 1) | _ => None end else None
              | _, _ => None end) as [e|] eqn:SV.
    - (* x op x *)
      assert (Hsv : exists a, e1' = EVar a /\ e2' = EVar a /\
                    ((op = MINUS \/ op = MOD) /\ e = EInt 0 \/ op = DIV /\ e = EInt 1)).
      { destruct e1' as [| | |a]; try discriminate. destruct e2' as [| | |b]; try discriminate.
        destruct (N.eqb_spec a b) as [->|]; [|discriminate]. exists b.
        destruct op; try discriminate; injection SV as <-; auto 8. }
      destruct Hsv as (a & E1 & E2 & Hop).
      eapply bound_bin; eauto.
      + intros D _ _ y Ey. destruct Hop as [[_ ->]|[_ ->]]; discriminate.
      + intros D S eo et v Hwf Hi1 Hi2 HR Ho Hv.
        rewrite (EA S eo et Hi1 HR), (EB S eo et Hi1 HR), E1, E2 in Hv.
        split; [|intros y Ey; destruct Hop as [[_ ->]|[_ ->]]; discriminate].
        destruct Hop as [[[->| ->] ->]|[-> ->]]; change (eval w et (EInt 0)) with 0; change (eval w et (EInt 1)) with 1.
        * eapply id_minus_same; eauto.
        * eapply id_mod_same; eauto.
        * eapply id_div_same; eauto.
    - destruct (flex_unwrapped op e1' e2') as [[op' a'] b'] eqn:F.
      destruct (flex_unwrapped_operands _ _ _ _ _ _ F) as [Oa Ob].
      assert (FS : forall S eo et v, incl' S0 S -> Rel w c S eo et ->
                 chk Add op && ovf op (eval w eo e1) (eval w eo e2) = false -> rt_binop op (eval w eo e1) (eval w eo e2) = Val v ->
                 rt_binop op' (eval w et a') (eval w et b') = Val v /\
                 chk Add op' && ovf op' (eval w et a') (eval w et b') = false).
      { intros S eo et v Hi HR Ho Hv. rewrite (EA S eo et Hi HR), (EB S eo et Hi HR) in Ho, Hv.
        destruct (flex_unwrapped_sound _ _ _ _ _ _ F w et) as [<- <-].
        rewrite (flex_unwrapped_chk Add _ _ _ _ _ _ F). auto. }
      assert (PLAIN : Some ([SBin x op' a' b'], c, false, fl0) = Some (out, c', brk, f) ->
                      good [x] [x] (exec_o (SBin x op e1 e2)) S0 c out c' brk).
      { intros [= <- <- <- <-]. apply kept_bin; [left; reflexivity|].
        intros D S eo et v Hwf Hi1 Hi2 HR Ho Hv. destruct (FS S eo et v Hi1 HR Ho Hv). auto. }
      destruct a' as [| | |v1]; try (apply PLAIN; exact H).
      destruct b' as [c2| | |]; try (apply PLAIN; exact H).
      destruct (match assoc v1 (cx_b c) with
                | Some (iop, iv, ic) => match merge_binop op' iop ic (wrap32 c2) with
                                        | Some (mop, mc) => Some (SBin x mop (EVar iv) (EInt mc))
                                        | None => None end
                | None => None end) as [s|] eqn:M.
      + (* merged with the recorded definition of v1 *)
        destruct (assoc v1 (cx_b c)) as [[[iop iv] ic]|] eqn:Ea; [|discriminate].
        destruct (merge_binop op' iop ic (wrap32 c2)) as [[mop mc]|] eqn:Em; [|discriminate].
        injection M as <-. injection H as <- <- <- <-.
        apply kept_bin; [left; reflexivity|].
        intros D S eo et v Hwf Hi1 Hi2 HR Ho Hv.
        destruct (FS S eo et v Hi1 HR Ho Hv) as [Hv' Ho'].
        assert (Hv1 : In v1 S) by (eapply VS; eauto; apply operand_var; exact Oa).
        destruct HR as (_ & _ & RB). destruct (RB v1 iop iv ic Hv1 Ea) as (Hiv & Hoi & vi & Hvi & Hz).
        destruct Hwf as [_ W2]. destruct (W2 v1 iop iv ic Ea) as (_ & _ & Hic).
        rewrite Hz in Hv', Ho'. change (eval w et (EInt c2)) with (wrap32 c2) in Hv', Ho'.
        destruct (merge_sound op' iop ic (wrap32 c2) mop mc (eval w et (EVar iv)) vi v Em
                    (eval_in32 _ _ _) Hic (wrap32_in _) Hvi Hoi Hv' Ho') as (Hmc & Hr & Hno).
        change (eval w et (EInt mc)) with (wrap32 mc). rewrite (wrap32_id mc Hmc). auto.
      + injection H as <- <- <- <-.
        apply kept_bin.
        * right. exists v1, (wrap32 c2). split; [reflexivity|]. split; [reflexivity|]. split.
          -- intros D Hwf Hi. split; [|apply wrap32_in]. eapply VD; eauto. apply operand_var; exact Oa.
          -- intros en. reflexivity.
        * intros D S eo et v Hwf Hi1 Hi2 HR Ho Hv. destruct (FS S eo et v Hi1 HR Ho Hv) as [Hv' Ho'].
          split; [assumption|]. split; [assumption|]. right.
          intros y [= <-]. eapply VS; eauto. apply operand_var; exact Oa.
  Qed.

  Lemma P_SBin n x op e1 e2 c out c' brk f S0 :
    ccp_stmt g (S n) (SBin x op e1 e2) c = Some (out, c', brk, f) -> scoped S0 (SBin x op e1 e2) = true ->
    good [x] [x] (exec_o (SBin x op e1 e2)) S0 c out c' brk.
  Proof.
    cbn [ccp_stmt scoped]. unfold ccp_bin. intros H Hsc. apply andb_prop in Hsc. destruct Hsc as [Hs1 Hs2].
    set (e1' := opt_expr (cx_v c) e1) in *. set (e2' := opt_expr (cx_v c) e2) in *.
    assert (EA : forall S eo et, incl' S0 S -> Rel w c S eo et -> eval w eo e1 = eval w et e1').
    { intros S eo et Hi HR. apply (Rel_expr w c S eo et e1 HR). eapply in_scope_In; eauto. }
    assert (EB : forall S eo et, incl' S0 S -> Rel w c S eo et -> eval w eo e2 = eval w et e2').
    { intros S eo et Hi HR. apply (Rel_expr w c S eo et e2 HR). eapply in_scope_In; eauto. }
    assert (V1S : forall S eo et y, incl' S0 S -> Rel w c S eo et -> e1' = EVar y -> In y S).
    { intros S eo et y Hi HR E. eapply (Rel_expr_scope w c S eo et e1); eauto. eapply in_scope_In; eauto. }
    assert (V1D : forall D, cx_wf c D -> incl' S0 D -> forall y, e1' = EVar y -> In y D).
    { intros D Hwf Hi y E. apply (opt_expr_range c D S0 e1 y Hwf Hi Hs1 E). }
    destruct (lit e2') as [v2|] eqn:L2; [|eapply rest_good; eauto].
    destruct (lit_eval _ _ L2) as (Hv2 & _ & _).
    (* e1' is bound to x: x + 0, x * 1, x / 1 *)
    assert (B1 : forall (idl : forall a v, in32 a -> rt_binop op a v2 = Val v -> wrap32 v = a),
                 ccp_bound x e1' c = Some (out, c', brk, f) -> good [x] [x] (exec_o (SBin x op e1 e2)) S0 c out c' brk).
    { intros idl Hb. eapply bound_bin; eauto.
      intros D S eo et v Hwf Hi1 Hi2 HR Ho Hv. split; [|eauto].
      rewrite (EB S eo et Hi1 HR), Hv2 in Hv. rewrite <- (EA S eo et Hi1 HR). eapply idl; eauto. apply eval_in32. }
    (* a literal is bound to x *)
    assert (B0 : forall z (idl : forall a v, in32 a -> rt_binop op a v2 = Val v -> wrap32 v = wrap32 z),
                 ccp_bound x (EInt z) c = Some (out, c', brk, f) -> good [x] [x] (exec_o (SBin x op e1 e2)) S0 c out c' brk).
    { intros z idl Hb. eapply bound_bin; eauto.
      - intros; discriminate.
      - intros D S eo et v Hwf Hi1 Hi2 HR Ho Hv. split; [|intros; discriminate].
        rewrite (EB S eo et Hi1 HR), Hv2 in Hv. change (eval w et (EInt z)) with (wrap32 z). eapply idl; eauto. apply eval_in32. }
    (* constant folding, or the general case *)
    assert (TAIL : match lit e1' with
                   | Some v1 => match fold_binop op v1 v2 with
                                | Some r => ccp_bound x (EInt (wrap32 r)) c
                                | None => ccp_bin_rest x op e1' e2' c
                                end
                   | None => ccp_bin_rest x op e1' e2' c
                   end = Some (out, c', brk, f) -> good [x] [x] (exec_o (SBin x op e1 e2)) S0 c out c' brk).
    { intros HT. destruct (lit e1') as [v1|] eqn:L1; [|eapply rest_good; eauto].
      destruct (fold_binop op v1 v2) as [r|] eqn:Fo; [|eapply rest_good; eauto].
      destruct (lit_eval _ _ L1) as (Hv1 & _ & _).
      eapply bound_bin; eauto.
      - intros; discriminate.
      - intros D S eo et v Hwf Hi1 Hi2 HR Ho Hv. split; [|intros; discriminate].
        rewrite (EA S eo et Hi1 HR), (EB S eo et Hi1 HR), Hv1, Hv2 in Hv.
        rewrite (fold_correct _ _ _ _ Fo) in Hv. injection Hv as <-.
        change (eval w et (EInt (wrap32 r))) with (wrap32 (wrap32 r)). now rewrite wrap32_idem. }
    destruct ((v2 =? 0) && match op with PLUS => true | _ => false end) eqn:C1.
    { apply andb_prop in C1. destruct C1 as [Ez Eop]. apply Z.eqb_eq in Ez. subst v2.
      destruct op; try discriminate. apply B1; [|exact H]. intros a v Ha Hv. eapply id_plus0; eauto. }
    destruct ((v2 =? 0) && match op with MUL => true | _ => false end) eqn:C2.
    { apply andb_prop in C2. destruct C2 as [Ez Eop]. apply Z.eqb_eq in Ez. subst v2.
      destruct op; try discriminate. apply (B0 0); [|exact H]. intros a v Ha Hv. eapply id_mul0; eauto. }
    destruct ((v2 =? 1) && match op with MOD => true | _ => false end) eqn:C3.
    { apply andb_prop in C3. destruct C3 as [Ez Eop]. apply Z.eqb_eq in Ez. subst v2.
      destruct op; try discriminate. apply (B0 0); [|exact H]. intros a v Ha Hv. eapply id_mod1; eauto. }
    destruct ((v2 =? 1) && match op with MUL | DIV => true | _ => false end) eqn:C4.
    { apply andb_prop in C4. destruct C4 as [Ez Eop]. apply Z.eqb_eq in Ez. subst v2.
      destruct op; try discriminate; (apply B1; [|exact H]); intros a v Ha Hv;
        [eapply id_mul1 | eapply id_div1]; eauto. }
    apply TAIL. exact H.
  Qed.
  (* ---------------------------------------------------------------- statement lists *)
  Lemma orf_false a b : fst (orf a b) = false -> fst a = false /\ fst b = false.
  Proof. unfold orf. cbn. apply orb_false_elim. Qed.

  Lemma disj_app_l a b D : disj (a ++ b) D -> disj a D /\ disj b D.
  Proof. intros H. split; intros x Hx; apply H; apply in_or_app; auto. Qed.

  Lemma Q_of_P n : Pn n -> Qn n.
  Proof.
    intros HP ss. induction ss as [|st r IH]; intros c out c' brk f S0 H Hf Hsc.
    - cbn in H. injection H as <- <- <- <-. intros D Hwf HS0 Hnd Hdj. split.
      + split; [assumption|]. split; [apply ext_refl | intros x []].
      + intros S eo et tr Hi1 Hi2 HR. cbn. split; auto. exists et, S. split; [reflexivity|]. split; [assumption|]. split; apply incl'_refl.
    - cbn [scoped_l] in Hsc. apply andb_prop in Hsc. destruct Hsc as [Hsc1 Hsc2].
      unfold ccp_stmts in H. cbn [ccp_go] in H.
      destruct (ccp_stmt g n st c) as [[[[o1 c1] b1] f1]|] eqn:E1; [|discriminate].
      cbn [binders_l defs_l].
      destruct b1.
      + (* the statement always leaves through a break: the rest is dropped *)
        injection H as <- <- <- <-.
        specialize (HP st c o1 c1 true f1 S0 E1 Hf Hsc1).
        intros D Hwf HS0 Hnd Hdj. destruct (disj_app_l _ _ _ Hdj) as [Hdj1 Hdj2].
        destruct (HP D Hwf HS0 (NoDup_app_l' _ _ Hnd) Hdj1) as [(W1 & X1 & B1) Hd]. split.
        * split; [eapply cx_wf_mono; eauto; intros x; rewrite !in_app_iff; tauto|].
          split; [eapply ext_mono; eauto; apply incl'_app_l | eapply incl'_trans; eauto; apply incl'_app_l].
        * intros S eo et tr Hi1 Hi2 HR. specialize (Hd S eo et tr Hi1 Hi2 HR). rewrite exec_block_cons.
          destruct (exec_o st eo tr); cbn [dyn] in *; auto. destruct Hd as [Hd _]. discriminate.
      + destruct (ccp_go (ccp_stmt g n) r c1) as [[[[o2 c2] b2] f2]|] eqn:E2; [|discriminate].
        injection H as <- <- <- <-. apply orf_false in Hf. destruct Hf as [Hf1 Hf2].
        specialize (HP st c o1 c1 false f1 S0 E1 Hf1 Hsc1).
        specialize (IH c1 o2 c2 b2 f2 (defs st ++ S0) E2 Hf2 Hsc2).
        intros D Hwf HS0 Hnd Hdj. destruct (disj_app_l _ _ _ Hdj) as [Hdj1 Hdj2].
        destruct (HP D Hwf HS0 (NoDup_app_l' _ _ Hnd) Hdj1) as [(W1 & X1 & B1) Hd1].
        assert (HS0' : incl' (defs st ++ S0) (binders st ++ D)).
        { intros x. rewrite !in_app_iff. intros [Hx|Hx]; [left; now apply defs_in_binders | right; auto]. }
        assert (Hdj' : disj (binders_l r) (binders st ++ D)).
        { intros x Hx. rewrite in_app_iff. intros [Hb|Hb]; [eapply NoDup_app_disj'; eauto | eapply Hdj2; eauto]. }
        destruct (IH (binders st ++ D) W1 HS0' (NoDup_app_r' _ _ Hnd) Hdj') as [(W2 & X2 & B2) Hd2]. split.
        * split; [eapply cx_wf_mono; eauto; intros x; rewrite !in_app_iff; tauto|]. split.
          -- eapply ext_trans; eauto; [apply incl'_app_l | apply incl'_app_r].
          -- rewrite binders_l_app. intros x. rewrite !in_app_iff. intros [Hx|Hx]; auto.
        * intros S eo et tr Hi1 Hi2 HR. specialize (Hd1 S eo et tr Hi1 Hi2 HR). rewrite exec_block_cons.
          destruct (exec_o st eo tr) as [eo1 tr1|v eo1 tr1| | | | |]; cbn [dyn] in *; auto.
          -- destruct Hd1 as (_ & et1 & S1 & Ex1 & HR1 & Lo1 & Up1).
             assert (Hi1' : incl' (defs st ++ S0) S1).
             { intros x Hx. apply Lo1. rewrite in_app_iff in *. destruct Hx; auto. }
             assert (Hi2' : incl' S1 (binders st ++ D)).
             { intros x Hx. apply Up1 in Hx. rewrite in_app_iff in *. destruct Hx; auto. }
             specialize (Hd2 S1 eo1 et1 tr1 Hi1' Hi2' HR1).
             destruct (exec_block_o r eo1 tr1) as [eo2 tr2|v eo2 tr2| | | | |]; cbn [dyn] in *; auto.
             ++ destruct Hd2 as (-> & et2 & S2 & Ex2 & HR2 & Lo2 & Up2). split; auto. exists et2, S2.
                split; [rewrite exec_block_app, Ex1; exact Ex2|]. split; [assumption|]. split.
                ** intros x Hx. apply Lo2. rewrite !in_app_iff in *. destruct Hx as [[Hx|Hx]|Hx]; auto.
                   right. apply Lo1. rewrite in_app_iff. auto. right. apply Lo1. rewrite in_app_iff. auto.
                ** intros x Hx. apply Up2 in Hx. rewrite !in_app_iff in *. destruct Hx as [Hx|Hx]; auto.
                   apply Up1 in Hx. rewrite in_app_iff in Hx. tauto.
             ++ destruct Hd2 as [et2 Ex2]. exists et2. rewrite exec_block_app, Ex1. exact Ex2.
          -- destruct Hd1 as [et1 Ex1]. exists et1. rewrite exec_block_app, Ex1. reflexivity.
  Qed.
  (* ---------------------------------------------------------------- SingleIf *)
  Lemma cond_xor v b inv : cond v = Some b -> xorb b inv = negb (Z.lxor v (b2z inv) =? 0).
  Proof.
    unfold cond. destruct (Z.eqb_spec v 0) as [->|]; [intros [= <-]; destruct inv; reflexivity|].
    destruct (Z.eqb_spec v 1) as [->|]; [intros [= <-]; destruct inv; reflexivity | discriminate].
  Qed.

  Lemma target_ssif_taken cond' inv out et tr b :
    cond (eval w et cond') = Some b -> xorb b inv = true ->
    exec_block_t (if is_nil out then [] else [SSIf cond' inv out]) et tr = exec_block_t out et tr.
  Proof.
    intros Hc Hx. destruct out as [|s r]; [reflexivity|]. cbn [is_nil].
    rewrite exec_block_cons, exec_SSIf, Hc, Hx. destruct (exec_block_t (s :: r) et tr); reflexivity.
  Qed.
  Lemma target_ssif_skipped cond' inv out et tr b :
    cond (eval w et cond') = Some b -> xorb b inv = false ->
    exec_block_t (if is_nil out then [] else [SSIf cond' inv out]) et tr = RNext et tr.
  Proof.
    intros Hc Hx. destruct out as [|s r]; [reflexivity|]. cbn [is_nil].
    rewrite exec_block_cons, exec_SSIf, Hc, Hx. reflexivity.
  Qed.

  Lemma disj_S_bs S D bs : incl' S D -> disj bs D -> disj S bs.
  Proof. intros Hi Hd x Hx Hb. eapply Hd; eauto. Qed.

  Lemma P_SSIf n cnd inv ss c out c' brk f S0 :
    Qn n ->
    ccp_stmt g (S n) (SSIf cnd inv ss) c = Some (out, c', brk, f) -> fst f = false ->
    scoped S0 (SSIf cnd inv ss) = true ->
    good (binders_l ss) [] (exec_o (SSIf cnd inv ss)) S0 c out c' brk.
  Proof.
    intros HQ H Hf Hsc. rewrite scoped_SSIf in Hsc. apply andb_prop in Hsc. destruct Hsc as [Hc Hsc].
    cbn [ccp_stmt] in H. fold (ccp_stmts g n) in H.
    set (cnd' := opt_expr (cx_v c) cnd) in *.
    assert (EC : forall S eo et, incl' S0 S -> Rel w c S eo et -> eval w eo cnd = eval w et cnd').
    { intros S eo et Hi HR. apply (Rel_expr w c S eo et cnd HR). eapply in_scope_In; eauto. }
    destruct (lit cnd') as [v|] eqn:L.
    - destruct (lit_eval _ _ L) as (Hv & _ & _).
      destruct (negb (Z.lxor v (b2z inv) =? 0)) eqn:T.
      + (* constant condition, taken: the body replaces the statement *)
        specialize (HQ ss c out c' brk f S0 H Hf Hsc).
        intros D Hwf HS0 Hnd Hdj. destruct (HQ D Hwf HS0 Hnd Hdj) as [Hst Hd]. split; [exact Hst|].
        intros S eo et tr Hi1 Hi2 HR. specialize (Hd S eo et tr Hi1 Hi2 HR). rewrite exec_SSIf.
        rewrite (EC S eo et Hi1 HR), Hv. destruct (cond v) as [b|] eqn:Eb; cbn [dyn]; auto.
        rewrite (cond_xor v b inv Eb), T.
        destruct (exec_block_o ss eo tr); cbn [dyn] in *; auto.
        destruct Hd as (Hb & et' & S' & Ex & HR' & Lo & Up). split; auto. exists et', S'. repeat (split; auto).
        intros x Hx. apply Lo. rewrite in_app_iff. right. exact Hx.
      + injection H as <- <- <- <-. intros D Hwf HS0 Hnd Hdj. split.
        * split; [eapply cx_wf_mono; eauto; apply incl'_app_r|]. split; [apply ext_refl | intros x []].
        * intros S eo et tr Hi1 Hi2 HR. rewrite exec_SSIf.
          rewrite (EC S eo et Hi1 HR), Hv. destruct (cond v) as [b|] eqn:Eb; cbn [dyn]; auto.
          rewrite (cond_xor v b inv Eb), T. cbn [dyn]. split; auto. exists et, S.
          split; [reflexivity|]. split; [assumption|]. split; [apply incl'_refl | apply incl'_app_r].
    - destruct (ccp_stmts g n ss c) as [[[[o1 c1] b1] f1]|] eqn:E1; [|discriminate].
      injection H as <- <- <- <-.
      specialize (HQ ss c o1 c1 b1 f1 S0 E1 Hf Hsc).
      intros D Hwf HS0 Hnd Hdj. destruct (HQ D Hwf HS0 Hnd Hdj) as [(W1 & X1 & B1) Hd]. split.
      + split; [assumption|]. split; [assumption|]. destruct o1; cbn [is_nil]; [intros x []|].
        cbn [binders_l]. rewrite binders_SSIf, app_nil_r. exact B1.
      + intros S eo et tr Hi1 Hi2 HR. specialize (Hd S eo et tr Hi1 Hi2 HR). rewrite exec_SSIf.
        pose proof (EC S eo et Hi1 HR) as Ecv. rewrite Ecv.
        destruct (cond (eval w et cnd')) as [b|] eqn:Eb; cbn [dyn]; auto.
        destruct (xorb b inv) eqn:Ex.
        * destruct (exec_block_o ss eo tr); cbn [dyn] in *; auto;
            rewrite (target_ssif_taken cnd' inv o1 et tr b Eb Ex); [|exact Hd].
          destruct Hd as (_ & et' & S' & Ex' & HR' & Lo & Up). split; auto. exists et', S'. repeat (split; auto).
          intros x Hx. apply Lo. rewrite in_app_iff. right. exact Hx.
        * cbn [dyn]. split; auto. exists et, S.
          split; [apply (target_ssif_skipped cnd' inv o1 et tr b Eb Ex)|]. split; [|split; [apply incl'_refl | apply incl'_app_r]].
          eapply Rel_ext; eauto. eapply disj_S_bs; eauto.
  Qed.
  (* ---------------------------------------------------------------- IfElse with a constant condition *)
  Lemma cond_lit v b : cond v = Some b -> b = negb (v =? 0).
  Proof.
    unfold cond. destruct (Z.eqb_spec v 0) as [->|]; [intros [= <-]; reflexivity|].
    destruct (Z.eqb_spec v 1) as [->|]; [intros [= <-]; reflexivity | discriminate].
  Qed.

  Definition pick (b : bool) (t : triple) : expr := if b then t_e1 t else t_e2 t.

  Lemma bind_fas_ext b fas : forall c1 c2, bind_fas b fas c1 = Some c2 -> ext_outside (map t_name fas) c1 c2.
  Proof.
    induction fas as [|t r IH]; intros c1 c2 H; cbn in H.
    - injection H as <-. apply ext_refl.
    - destruct (bind (t_name t) _ c1) as [ca|] eqn:B; [|discriminate].
      eapply ext_trans; [eapply bind_ext; eauto | eapply IH; eauto | |].
      + intros x [<-|[]]. left; reflexivity.
      + intros x Hx. right. exact Hx.
  Qed.

  Lemma bind_fas_static b fas : forall c1 c2 D1 Sx,
    bind_fas b fas c1 = Some c2 -> cx_wf c1 D1 -> incl' Sx D1 ->
    (forall t, In t fas -> in_scope Sx (pick b t) = true) ->
    cx_wf c2 (map t_name fas ++ D1).
  Proof.
    induction fas as [|t r IH]; intros c1 c2 D1 Sx H Hwf Hi Hsc; cbn in H.
    - injection H as <-. assumption.
    - destruct (bind (t_name t) _ c1) as [ca|] eqn:B; [|discriminate].
      assert (Hwa : cx_wf ca (t_name t :: D1)).
      { eapply bind_wf; eauto. intros y Ey. eapply (opt_expr_range c1 D1 Sx (pick b t)); eauto.
        apply Hsc. left; reflexivity. }
      assert (Hi' : incl' Sx (t_name t :: D1)) by (intros x Hx; right; auto).
      assert (Hsc' : forall t', In t' r -> in_scope Sx (pick b t') = true) by (intros t' Ht'; apply Hsc; right; assumption).
      pose proof (IH ca c2 (t_name t :: D1) Sx H Hwa Hi' Hsc') as W.
      eapply cx_wf_mono; eauto. intros x. cbn. rewrite !in_app_iff. cbn. tauto.
  Qed.

  Lemma bind_fas_assoc b fas : forall c1 c2,
    bind_fas b fas c1 = Some c2 -> NoDup (map t_name fas) ->
    (forall t y, In t fas -> pick b t = EVar y -> ~ In y (map t_name fas)) ->
    cx_b c2 = cx_b c1 /\
    forall t, In t fas -> assoc (t_name t) (cx_v c2) = Some (opt_expr (cx_v c1) (pick b t)).
  Proof.
    induction fas as [|t r IH]; intros c1 c2 H Hnd Hfr; cbn in H.
    - injection H as <-. split; [reflexivity | intros t []].
    - destruct (bind (t_name t) _ c1) as [ca|] eqn:B; [|discriminate].
      destruct (bind_inv _ _ _ _ B) as (_ & Ev & Eb). inversion Hnd as [|? ? Hni Hnd']; subst.
      assert (Hfr' : forall t' y, In t' r -> pick b t' = EVar y -> ~ In y (map t_name r)).
      { intros t' y Ht' Ey Hy. eapply (Hfr t' y); eauto; right; assumption. }
      destruct (IH ca c2 H Hnd' Hfr') as [Hb Ha].
      split; [congruence|]. intros t' [<-|Ht'].
      + destruct (bind_fas_ext b r ca c2 H (t_name t) Hni) as [-> _]. rewrite Ev. cbn. rewrite N.eqb_refl.
        destruct b; reflexivity.
      + rewrite (Ha t' Ht'). f_equal. rewrite Ev. destruct (pick b t') eqn:Ep; try reflexivity. cbn.
        destruct (N.eqb_spec x (t_name t)) as [->|]; [|reflexivity].
        exfalso. eapply (Hfr t' (t_name t)); eauto; [right; assumption | left; reflexivity].
  Qed.
  Lemma Rel_bind_fas b fas c1 c2 S1 Sx eo1 et1 D1 :
    Rel w c1 S1 eo1 et1 -> bind_fas b fas c1 = Some c2 -> NoDup (map t_name fas) ->
    (forall x, In x (map t_name fas) -> ~ In x D1) -> incl' S1 D1 -> cx_wf c1 D1 -> incl' Sx S1 ->
    (forall t, In t fas -> in_scope Sx (pick b t) = true) ->
    Rel w c2 (map t_name fas ++ S1)
        (combine (map t_name fas) (map (fun t => eval w eo1 (pick b t)) fas) ++ eo1) et1.
  Proof.
    intros HR Hb Hnd Hfr Hi Hwf Hix Hsc.
    assert (Hfr' : forall t y, In t fas -> pick b t = EVar y -> ~ In y (map t_name fas)).
    { intros t y Ht Ey Hy. apply (Hfr y Hy). apply Hi, Hix. apply in_scope_var. rewrite <- Ey. auto. }
    destruct (bind_fas_assoc b fas c1 c2 Hb Hnd Hfr') as [Eb Ha].
    pose proof (bind_fas_ext b fas c1 c2 Hb) as X.
    assert (Hvar : forall t, In t fas -> forall y, pick b t = EVar y -> In y S1).
    { intros t Ht y Ey. apply Hix. apply in_scope_var. rewrite <- Ey. auto. }
    assert (Hout : forall x, ~ In x (map t_name fas) -> opt_expr (cx_v c2) (EVar x) = opt_expr (cx_v c1) (EVar x)).
    { intros x Hx. cbn. destruct (X x Hx) as [-> _]. reflexivity. }
    assert (Hin : forall t, In t fas -> opt_expr (cx_v c2) (EVar (t_name t)) = opt_expr (cx_v c1) (pick b t)).
    { intros t Ht. cbn. now rewrite (Ha t Ht). }
    destruct HR as (RV & RI & RB). split; [|split].
    - intros x Hx. destruct (in_dec N.eq_dec x (map t_name fas)) as [Hf|Hn].
      + apply in_map_iff in Hf. destruct Hf as [t [<- Ht]]. rewrite (Hin t Ht).
        unfold eval at 1. rewrite (lookup_bind w (pick b)), (find_name_unique fas t Hnd Ht), eval_wrap.
        apply (Rel_expr w c1 S1 eo1 et1 (pick b t) (conj RV (conj RI RB))). apply Hvar; assumption.
      + rewrite (Hout x Hn). rewrite in_app_iff in Hx. destruct Hx as [Hx|Hx]; [contradiction|].
        rewrite <- (RV x Hx). apply eval_var_lookup. now apply (lookup_bind_notin w (pick b)).
    - intros x y Hx. destruct (in_dec N.eq_dec x (map t_name fas)) as [Hf|Hn].
      + apply in_map_iff in Hf. destruct Hf as [t [<- Ht]]. rewrite (Hin t Ht). intros E.
        apply in_or_app. right.
        apply (Rel_expr_scope w c1 S1 eo1 et1 (pick b t) y (conj RV (conj RI RB)) (Hvar t Ht) E).
      + rewrite (Hout x Hn). rewrite in_app_iff in Hx. destruct Hx as [Hx|Hx]; [contradiction|].
        intros E. apply in_or_app. right. eauto.
    - intros z op y k Hz. rewrite Eb. intros E. rewrite in_app_iff in Hz. destruct Hz as [Hz|Hz].
      + exfalso. rewrite (cx_wf_notin_b c1 D1 z Hwf (Hfr z Hz)) in E. discriminate.
      + destruct (RB z op y k Hz E) as (Hy & R). split; [apply in_or_app; right; assumption | exact R].
  Qed.
  Definition trivial_res (r : res) : Prop := match r with RNext _ _ | RBreak _ _ _ => False | _ => True end.

  Lemma good_ext bs ds xo xo' S0 c out c' brk :
    good bs ds xo S0 c out c' brk ->
    (forall S eo et tr, incl' S0 S -> Rel w c S eo et -> xo' eo tr = xo eo tr \/ trivial_res (xo' eo tr)) ->
    good bs ds xo' S0 c out c' brk.
  Proof.
    intros Hg He D Hwf HS0 Hnd Hdj. destruct (Hg D Hwf HS0 Hnd Hdj) as [Hst Hd]. split; [exact Hst|].
    intros S eo et tr Hi1 Hi2 HR. destruct (He S eo et tr Hi1 HR) as [->|Ht]; [auto|].
    destruct (xo' eo tr); cbn in *; auto; contradiction.
  Qed.

  (* the taken branch replaces the statement; its final assignments become bindings *)
  Lemma const_if_core b sb fas bs S0 c out1 c1 b1 out c' brk :
    good (binders_l sb) (defs_l sb) (exec_block_o sb) S0 c out1 c1 b1 ->
    (b1 = true /\ out = out1 /\ c' = c1 /\ brk = true \/
     b1 = false /\ bind_fas b fas c1 = Some c' /\ out = out1 /\ brk = false) ->
    incl' (binders_l sb) bs -> incl' (map t_name fas) bs ->
    (NoDup bs -> NoDup (binders_l sb) /\ NoDup (map t_name fas) /\
                 forall x, In x (map t_name fas) -> ~ In x (binders_l sb)) ->
    (forall t, In t fas -> in_scope (defs_l sb ++ S0) (pick b t) = true) ->
    good bs (map t_name fas)
      (fun eo tr => match exec_block_o sb eo tr with
                    | RNext en' tr' => RNext (combine (map t_name fas) (map (fun t => eval w en' (pick b t)) fas) ++ en') tr'
                    | o => o
                    end) S0 c out c' brk.
  Proof.
    intros HQs Hres Hsub HFN Hnds Hfsc D Hwf HS0 Hnd Hdj.
    destruct (Hnds Hnd) as (Hnd1 & HndF & HdF).
    assert (Hdj1 : disj (binders_l sb) D) by (intros x Hx; apply Hdj; auto).
    destruct (HQs D Hwf HS0 Hnd1 Hdj1) as [(W1 & X1 & B1) Hd1].
    assert (HSx : incl' (defs_l sb ++ S0) (binders_l sb ++ D)).
    { intros x. rewrite !in_app_iff. intros [Hx|Hx]; [left; now apply defs_l_in_binders | right; auto]. }
    split.
    - destruct Hres as [(-> & -> & -> & ->)|(-> & Hb & -> & ->)].
      + split; [eapply cx_wf_mono; eauto; intros x; rewrite !in_app_iff; intros [Hx|Hx]; auto|].
        split; [eapply ext_mono; eauto | eapply incl'_trans; eauto].
      + split; [|split; [|eapply incl'_trans; eauto]].
        * pose proof (bind_fas_static b fas c1 c' _ _ Hb W1 HSx Hfsc) as W2.
          eapply cx_wf_mono; eauto. intros x. rewrite !in_app_iff. intros [Hx|[Hx|Hx]]; auto.
        * eapply ext_trans; [exact X1 | eapply bind_fas_ext; eauto | assumption | assumption].
    - intros S eo et tr Hi1 Hi2 HR. specialize (Hd1 S eo et tr Hi1 Hi2 HR).
      destruct (exec_block_o sb eo tr) as [eo1 tr1|v eo1 tr1| | | | |]; cbn [dyn] in *; auto.
      + destruct Hd1 as (Eb1 & et1 & S1 & Ex & HR1 & Lo & Up).
        destruct Hres as [(-> & _)|(_ & Hb & -> & ->)]; [discriminate|]. split; auto.
        exists et1, (map t_name fas ++ S1). split; [assumption|]. split; [|split].
        * eapply (Rel_bind_fas b fas c1 c' S1 (defs_l sb ++ S0) eo1 et1 (binders_l sb ++ D)); eauto.
          -- intros x Hx. rewrite in_app_iff. intros [Hb'|Hd']; [eapply HdF; eauto | eapply Hdj; eauto].
          -- intros x Hx. apply Up in Hx. rewrite in_app_iff in *. destruct Hx; auto.
          -- intros x Hx. apply Lo. rewrite in_app_iff in *. destruct Hx; auto.
        * intros x. rewrite !in_app_iff. intros [Hx|Hx]; auto. right. apply Lo. rewrite in_app_iff. auto.
        * intros x. rewrite !in_app_iff. intros [Hx|Hx]; auto. apply Up in Hx. rewrite in_app_iff in Hx.
          destruct Hx; auto.
      + destruct Hres as [(_ & -> & _)|(_ & _ & -> & _)]; exact Hd1.
  Qed.
  Lemma is_lit_eval e k : is_lit e k = true -> forall en, eval w en e = k.
  Proof.
    unfold is_lit. destruct (lit e) as [z|] eqn:L; [|discriminate]. intros E en. apply Z.eqb_eq in E. subst.
    now destruct (lit_eval _ _ L) as (H & _).
  Qed.

  Lemma SIf_scoped_parts S0 cnd s1 s2 fas : scoped S0 (SIf cnd s1 s2 fas) = true ->
    in_scope S0 cnd = true /\ scoped_l S0 s1 = true /\ scoped_l S0 s2 = true /\
    forall (b : bool) t, In t fas -> in_scope (defs_l (if b then s1 else s2) ++ S0) (pick b t) = true.
  Proof.
    rewrite scoped_SIf. intros H. apply andb_prop in H. destruct H as [H Hf]. apply andb_prop in H. destruct H as [H H2].
    apply andb_prop in H. destruct H as [Hc H1]. repeat split; auto.
    intros b t Ht. rewrite forallb_forall in Hf. specialize (Hf t Ht). apply andb_prop in Hf. destruct b; tauto.
  Qed.

  Lemma SIf_binders_parts cnd s1 s2 fas (b : bool) :
    incl' (binders_l (if b then s1 else s2)) (binders (SIf cnd s1 s2 fas)) /\
    incl' (map t_name fas) (binders (SIf cnd s1 s2 fas)) /\
    (NoDup (binders (SIf cnd s1 s2 fas)) ->
       NoDup (binders_l (if b then s1 else s2)) /\ NoDup (map t_name fas) /\
       forall x, In x (map t_name fas) -> ~ In x (binders_l (if b then s1 else s2))).
  Proof.
    rewrite binders_SIf. split; [|split].
    - intros x Hx. rewrite !in_app_iff. destruct b; auto.
    - intros x Hx. rewrite !in_app_iff. auto.
    - intros Hnd. split; [|split].
      + destruct b; [eapply NoDup_app_l'; eauto | eapply NoDup_app_l', NoDup_app_r'; eauto].
      + eapply NoDup_app_r', NoDup_app_r'; eauto.
      + intros x Hf Hb. destruct b.
        * eapply (NoDup_app_disj' _ _ x Hnd); eauto. rewrite in_app_iff. auto.
        * apply NoDup_app_r' in Hnd. eapply (NoDup_app_disj' _ _ x Hnd); eauto.
  Qed.

  Lemma P_SIf_const n cnd s1 s2 fas c out c' brk f S0 v :
    Qn n -> lit (opt_expr (cx_v c) cnd) = Some v ->
    match ccp_stmts g n (if negb (v =? 0) then s1 else s2) c with
    | None => None
    | Some (out, c1, true, f) => Some (out, c1, true, f)
    | Some (out, c1, false, f) =>
        match bind_fas (negb (v =? 0)) fas c1 with Some c2 => Some (out, c2, false, f) | None => None end
    end = Some (out, c', brk, f) ->
    fst f = false -> scoped S0 (SIf cnd s1 s2 fas) = true ->
    good (binders (SIf cnd s1 s2 fas)) (map t_name fas) (exec_o (SIf cnd s1 s2 fas)) S0 c out c' brk.
  Proof.
    intros HQ L H Hf Hsc. destruct (SIf_scoped_parts _ _ _ _ _ Hsc) as (Hc & Hs1 & Hs2 & Hfa).
    set (b := negb (v =? 0)) in *.
    destruct (SIf_binders_parts cnd s1 s2 fas b) as (Hsub & HFN & Hnds).
    destruct (ccp_stmts g n (if b then s1 else s2) c) as [[[[o1 c1] b1] f1]|] eqn:E1; [|discriminate].
    assert (Hres : fst f1 = false /\
                   (b1 = true /\ out = o1 /\ c' = c1 /\ brk = true \/
                    b1 = false /\ bind_fas b fas c1 = Some c' /\ out = o1 /\ brk = false)).
    { destruct b1.
      - injection H as <- <- <- <-. auto 8.
      - destruct (bind_fas b fas c1) as [c2|] eqn:B; [|discriminate]. injection H as <- <- <- <-. auto 8. }
    destruct Hres as [Hf1 Hres].
    assert (Hssb : scoped_l S0 (if b then s1 else s2) = true) by (destruct b; assumption).
    pose proof (HQ _ c o1 c1 b1 f1 S0 E1 Hf1 Hssb) as HQs.
    eapply good_ext; [eapply (const_if_core b); eauto|].
    intros S eo et tr Hi HR. rewrite exec_SIf.
    destruct (lit_eval _ _ L) as (Hv & _ & _).
    rewrite (Rel_expr w c S eo et cnd HR (in_scope_In _ _ _ Hc Hi)), Hv.
    destruct (cond v) as [b0|] eqn:Ec; [|right; exact I].
    rewrite (cond_lit v b0 Ec). fold b. left. destruct b; reflexivity.
  Qed.

  (* if c { } else { } with final assignment x = (1, 0) or (0, 1) *)
  Lemma P_SIf_10 cnd t c c' S0 :
    is_lit (t_e1 t) 1 && is_lit (t_e2 t) 0 = true ->
    bind (t_name t) (opt_expr (cx_v c) cnd) c = Some c' -> in_scope S0 cnd = true ->
    good [t_name t] [t_name t] (exec_o (SIf cnd [] [] [t])) S0 c [] c' false.
  Proof.
    intros Hl Hb Hc. apply andb_prop in Hl. destruct Hl as [L1 L0].
    eapply bound_good; eauto.
    - intros D Hwf Hi y Ey. eapply opt_expr_range; eauto.
    - intros D S eo et tr Hwf Hi1 Hi2 HR. rewrite exec_SIf.
      pose proof (Rel_expr w c S eo et cnd HR (in_scope_In _ _ _ Hc Hi1)) as Ec.
      destruct (cond (eval w eo cnd)) as [[|]|] eqn:Eb; [| |exact I].
      + cbn. eexists. split; [reflexivity|]. split; [reflexivity|]. split.
        * rewrite eval_wrap, (is_lit_eval _ _ L1), <- Ec. symmetry. now apply cond_true.
        * intros y Ey. eapply (Rel_expr_scope w c S eo et cnd); eauto. eapply in_scope_In; eauto.
      + cbn. eexists. split; [reflexivity|]. split; [reflexivity|]. split.
        * rewrite eval_wrap, (is_lit_eval _ _ L0), <- Ec. symmetry. now apply cond_false.
        * intros y Ey. eapply (Rel_expr_scope w c S eo et cnd); eauto. eapply in_scope_In; eauto.
  Qed.

  Lemma P_SIf_01 cnd t c S0 :
    is_lit (t_e1 t) 0 && is_lit (t_e2 t) 1 = true -> in_scope S0 cnd = true ->
    good [t_name t] [t_name t] (exec_o (SIf cnd [] [] [t])) S0 c
         [SBin (t_name t) XOR (opt_expr (cx_v c) cnd) (EInt 1)] c false.
  Proof.
    intros Hl Hc. apply andb_prop in Hl. destruct Hl as [L0 L1].
    eapply kept_good; [reflexivity | left; reflexivity |].
    intros D S eo et tr Hwf Hi1 Hi2 HR. rewrite exec_SIf.
    pose proof (Rel_expr w c S eo et cnd HR (in_scope_In _ _ _ Hc Hi1)) as Ec.
    destruct (cond (eval w eo cnd)) as [[|]|] eqn:Eb; [| |exact I].
    - cbn. eexists. split; [reflexivity|]. split.
      + rewrite <- Ec, (cond_true _ Eb), (is_lit_eval _ _ L0). reflexivity.
      + intros op y k E. exfalso. symmetry in E. eapply bind_b_neq; eauto.
    - cbn. eexists. split; [reflexivity|]. split.
      + rewrite <- Ec, (cond_false _ Eb), (is_lit_eval _ _ L1). reflexivity.
      + intros op y k E. exfalso. symmetry in E. eapply bind_b_neq; eauto.
  Qed.
  (* ---------------------------------------------------------------- IfElse, general case *)
  Lemma expr_eq_var y b : expr_eq (EVar y) b = true -> b = EVar y.
  Proof.
    unfold expr_eq. destruct b; cbn; try discriminate. destruct (N.compare_spec y x); try discriminate. now subst.
  Qed.

  Lemma merge_fas_spec (fa fb : triple -> expr) fas : forall c fas' c',
    merge_fas fas (map fa fas) (map fb fas) c = Some (fas', c') ->
    cx_b c' = cx_b c /\
    ext_outside (map t_name fas) c c' /\
    (forall t', In t' fas' -> exists t, In t fas /\ t' = (t_name t, fa t, fb t) /\ expr_eq (fa t) (fb t) = false) /\
    (forall t, In t fas -> expr_eq (fa t) (fb t) = false -> In (t_name t, fa t, fb t) fas') /\
    (NoDup (map t_name fas) -> forall t, In t fas ->
       if expr_eq (fa t) (fb t) then assoc (t_name t) (cx_v c') = Some (fa t)
       else assoc (t_name t) (cx_v c') = assoc (t_name t) (cx_v c)) /\
    (NoDup (map t_name fas) -> NoDup (map t_name fas')) /\
    (forall D, cx_wf c D -> (forall t y, In t fas -> expr_eq (fa t) (fb t) = true -> fa t = EVar y -> In y D) ->
               cx_wf c' (map t_name fas ++ D)).
  Proof.
    induction fas as [|t r IH]; intros c fas' c' H; cbn in H.
    - injection H as <- <-. split; [reflexivity|]. split; [apply ext_refl|]. split; [intros t' []|].
      split; [intros t []|]. split; [intros _ t []|]. split; [intros _; constructor|]. intros D Hwf _. assumption.
    - destruct (expr_eq (fa t) (fb t)) eqn:Eq.
      + destruct (bind (t_name t) (fa t) c) as [ca|] eqn:B; [|discriminate].
        destruct (IH ca fas' c' H) as (I1 & I2 & I3 & I4 & I5 & I6 & I7).
        destruct (bind_inv _ _ _ _ B) as (Hn & Ev & Eb).
        split; [congruence|]. split; [|split; [|split; [|split; [|split]]]].
        * eapply ext_trans; [eapply bind_ext; eauto | exact I2 | |].
          -- intros x [<-|[]]. left; reflexivity.
          -- intros x Hx. right. exact Hx.
        * intros t' Ht'. destruct (I3 t' Ht') as (t0 & Ht0 & E & Ne). exists t0. split; [right|]; auto.
        * intros t0 [<-|Ht0] Ne; [congruence | auto].
        * intros Hnd t0 Ht0. inversion Hnd as [|? ? Hni Hnd']; subst. destruct Ht0 as [<-|Ht0].
          -- rewrite Eq. destruct (I2 (t_name t) Hni) as [-> _]. rewrite Ev. cbn. now rewrite N.eqb_refl.
          -- specialize (I5 Hnd' t0 Ht0). destruct (expr_eq (fa t0) (fb t0)); [exact I5|].
             rewrite I5, Ev. cbn. destruct (N.eqb_spec (t_name t0) (t_name t)) as [E|]; [|reflexivity].
             exfalso. apply Hni. rewrite <- E. now apply in_map.
        * intros Hnd. inversion Hnd; auto.
        * intros D Hwf Hy. assert (Hwa : cx_wf ca (t_name t :: D)).
          { eapply bind_wf; eauto. intros y Ey. eapply Hy; eauto. left; reflexivity. }
          pose proof (I7 (t_name t :: D) Hwa) as W. eapply cx_wf_mono; [apply W|].
          -- intros t0 y Ht0 E0 Ey. right. eapply Hy; eauto. right; assumption.
          -- intros x. cbn. rewrite !in_app_iff. cbn. tauto.
      + destruct (merge_fas r (map fa r) (map fb r) c) as [[k ck]|] eqn:M; [|discriminate].
        injection H as <- <-.
        destruct (IH c k ck M) as (I1 & I2 & I3 & I4 & I5 & I6 & I7).
        split; [assumption|]. split; [|split; [|split; [|split; [|split]]]].
        * eapply ext_mono; eauto. intros x Hx. right. exact Hx.
        * intros t' [<-|Ht'].
          -- exists t. split; [left; reflexivity | auto].
          -- destruct (I3 t' Ht') as (t0 & Ht0 & E & Ne). exists t0. split; [right|]; auto.
        * intros t0 [<-|Ht0] Ne; [left; reflexivity | right; auto].
        * intros Hnd t0 Ht0. inversion Hnd as [|? ? Hni Hnd']; subst. destruct Ht0 as [<-|Ht0].
          -- rewrite Eq. now destruct (I2 (t_name t) Hni) as [-> _].
          -- exact (I5 Hnd' t0 Ht0).
        * intros Hnd. inversion Hnd as [|? ? Hni Hnd']; subst. cbn. constructor; auto.
          intros Hi. apply Hni. apply in_map_iff in Hi. destruct Hi as [t' [E Ht']].
          destruct (I3 t' Ht') as (t0 & Ht0 & -> & _). cbn in E. rewrite <- E. now apply in_map.
        * intros D Hwf Hy. pose proof (I7 D Hwf) as W. eapply cx_wf_mono; [apply W|].
          -- intros t0 y Ht0 E0 Ey. eapply Hy; eauto. right; assumption.
          -- intros x. cbn. rewrite !in_app_iff. tauto.
  Qed.

  Lemma target_if cnd o1 o2 fas' et tr b :
    cond (eval w et cnd) = Some b ->
    exec_block_t (if is_nil o1 && is_nil o2 && is_nil fas' then [] else [SIf cnd o1 o2 fas']) et tr =
    match exec_block_t (if b then o1 else o2) et tr with
    | RNext e t => RNext (if b then bind_e1 w fas' e else bind_e2 w fas' e) t
    | o => o
    end.
  Proof.
    intros Hc. destruct (is_nil o1 && is_nil o2 && is_nil fas') eqn:En.
    - apply andb_prop in En. destruct En as [En E3]. apply andb_prop in En. destruct En as [E1 E2].
      destruct o1, o2, fas'; try discriminate. destruct b; reflexivity.
    - rewrite exec_block_cons, exec_SIf, Hc. destruct b.
      + destruct (exec_block_t o1 et tr); reflexivity.
      + destruct (exec_block_t o2 et tr); reflexivity.
  Qed.

  Lemma eval_bind_notin (gg : triple -> expr) ts en0 en e :
    (forall y, e = EVar y -> ~ In y (map t_name ts)) ->
    eval w (combine (map t_name ts) (map (fun t => eval w en0 (gg t)) ts) ++ en) e = eval w en e.
  Proof.
    intros H. destruct e; try reflexivity. apply eval_var_lookup. apply lookup_bind_notin. auto.
  Qed.
  Lemma Rel_merge (gq gq' hq fa fb : triple -> expr) fas fas' c c' cb S Sb Sx eo et eob etb D :
    Rel w c S eo et -> Rel w cb Sb eob etb ->
    (forall x, In x S -> lookup x eob = lookup x eo) -> (forall x, In x S -> lookup x etb = lookup x et) ->
    merge_fas fas (map fa fas) (map fb fas) c = Some (fas', c') ->
    NoDup (map t_name fas) -> (forall x, In x (map t_name fas) -> ~ In x D) -> incl' S D -> cx_wf c D ->
    incl' Sx Sb -> (forall t, In t fas -> in_scope Sx (gq t) = true) ->
    (forall t, In t fas -> opt_expr (cx_v cb) (gq t) = hq t) ->
    (forall t, In t fas -> expr_eq (fa t) (fb t) = true -> eval w etb (fa t) = eval w etb (hq t)) ->
    (forall t, In t fas -> gq' (t_name t, fa t, fb t) = hq t) ->
    (forall t y, In t fas -> expr_eq (fa t) (fb t) = true -> fa t = EVar y -> In y S) ->
    Rel w c' (map t_name fas ++ S)
        (combine (map t_name fas) (map (fun t => eval w eob (gq t)) fas) ++ eob)
        (combine (map t_name fas') (map (fun t => eval w etb (gq' t)) fas') ++ etb).
  Proof.
    intros HR HRb Fo Ft Hm Hnd Hfr HSD Hwf HSx Hsc Hh Hmg Hg' HyS.
    destruct (merge_fas_spec fa fb fas c fas' c' Hm) as (Eb & X & I3 & I4 & I5 & I6 & _).
    specialize (I5 Hnd). specialize (I6 Hnd).
    assert (Hsub : forall x, In x (map t_name fas') -> In x (map t_name fas)).
    { intros x Hx. apply in_map_iff in Hx. destruct Hx as [t' [<- Ht']].
      destruct (I3 t' Ht') as (t0 & Ht0 & -> & _). cbn. now apply in_map. }
    assert (HdS : disj S (map t_name fas)) by (intros x Hx Hf; apply (Hfr x Hf); auto).
    assert (HnS : forall y, In y S -> ~ In y (map t_name fas')) by (intros y Hy Hf; eapply HdS; eauto).
    pose proof (Rel_ext w c c' S _ eob etb (Rel_frame w c S eo et eob etb HR Fo Ft) X HdS) as HR2.
    assert (Hvar : forall t, In t fas -> forall y, gq t = EVar y -> In y Sb).
    { intros t Ht y Ey. apply HSx. apply in_scope_var. rewrite <- Ey. auto. }
    destruct HR2 as (RV2 & RI2 & RB2).
    assert (Hopt : forall t, In t fas ->
              opt_expr (cx_v c') (EVar (t_name t)) = if expr_eq (fa t) (fb t) then fa t else EVar (t_name t)).
    { intros t Ht. cbn. specialize (I5 t Ht). destruct (expr_eq (fa t) (fb t)); rewrite I5; [reflexivity|].
      rewrite (cx_wf_notin_v c D (t_name t) Hwf); [reflexivity|]. apply Hfr. now apply in_map. }
    split; [|split].
    - intros x Hx. destruct (in_dec N.eq_dec x (map t_name fas)) as [Hf|Hn].
      + apply in_map_iff in Hf. destruct Hf as [t [<- Ht]]. rewrite (Hopt t Ht).
        unfold eval at 1. rewrite (lookup_bind w gq), (find_name_unique fas t Hnd Ht), eval_wrap.
        rewrite (Rel_expr w cb Sb eob etb (gq t) HRb (Hvar t Ht)), (Hh t Ht).
        destruct (expr_eq (fa t) (fb t)) eqn:Eq.
        * rewrite (eval_bind_notin gq'); [symmetry; auto|]. intros y Ey. apply HnS. eauto.
        * unfold eval at 2. rewrite (lookup_bind w gq').
          pose proof (find_name_unique fas' (t_name t, fa t, fb t) I6 (I4 t Ht Eq)) as Hfind.
          change (t_name (t_name t, fa t, fb t)) with (t_name t) in Hfind.
          rewrite Hfind, eval_wrap. now rewrite (Hg' t Ht).
      + rewrite in_app_iff in Hx. destruct Hx as [Hx|Hx]; [contradiction|].
        rewrite (eval_bind_notin gq) by (intros y [= <-]; exact Hn). rewrite (RV2 x Hx).
        symmetry. apply (eval_bind_notin gq'). intros y Ey. apply HnS. eauto.
    - intros x y Hx. destruct (in_dec N.eq_dec x (map t_name fas)) as [Hf|Hn].
      + apply in_map_iff in Hf. destruct Hf as [t [<- Ht]]. rewrite (Hopt t Ht).
        destruct (expr_eq (fa t) (fb t)) eqn:Eq.
        * intros E. apply in_or_app. right. eauto.
        * intros [= <-]. apply in_or_app. left. now apply in_map.
      + rewrite in_app_iff in Hx. destruct Hx as [Hx|Hx]; [contradiction|]. intros E. apply in_or_app. right. eauto.
    - intros z op y k Hz. rewrite Eb. intros E. rewrite in_app_iff in Hz. destruct Hz as [Hz|Hz].
      + exfalso. rewrite (cx_wf_notin_b c D z Hwf (Hfr z Hz)) in E. discriminate.
      + rewrite <- Eb in E. destruct (RB2 z op y k Hz E) as (Hy & Ho & v & Hv & Hzv).
        split; [apply in_or_app; right; assumption|].
        rewrite !(eval_bind_notin gq') by (intros u [= <-]; auto). eauto.
  Qed.
  Lemma P_SIf_generic n cnd s1 s2 fas c o1 c1 b1 f1 o2 c2 b2 f2 fas' c' S0 :
    Qn n ->
    ccp_stmts g n s1 c = Some (o1, c1, b1, f1) -> ccp_stmts g n s2 c = Some (o2, c2, b2, f2) ->
    merge_fas fas (map (fun t => opt_expr (cx_v c1) (t_e1 t)) fas) (map (fun t => opt_expr (cx_v c2) (t_e2 t)) fas) c
      = Some (fas', c') ->
    fst f1 = false -> fst f2 = false -> scoped S0 (SIf cnd s1 s2 fas) = true ->
    good (binders (SIf cnd s1 s2 fas)) (map t_name fas) (exec_o (SIf cnd s1 s2 fas)) S0 c
         (if is_nil o1 && is_nil o2 && is_nil fas' then [] else [SIf (opt_expr (cx_v c) cnd) o1 o2 fas']) c' false.
  Proof.
    intros HQ E1 E2 Hm Hf1 Hf2 Hsc. destruct (SIf_scoped_parts _ _ _ _ _ Hsc) as (Hc & Hs1 & Hs2 & Hfa).
    set (fa := fun t => opt_expr (cx_v c1) (t_e1 t)) in *. set (fb := fun t => opt_expr (cx_v c2) (t_e2 t)) in *.
    set (cnd' := opt_expr (cx_v c) cnd).
    intros D Hwf HS0 Hnd Hdj. rewrite binders_SIf in *.
    assert (Hnd1 : NoDup (binders_l s1)) by (eapply NoDup_app_l'; eauto).
    assert (Hnd2 : NoDup (binders_l s2)) by (eapply NoDup_app_l', NoDup_app_r'; eauto).
    assert (HndF : NoDup (map t_name fas)) by (eapply NoDup_app_r', NoDup_app_r'; eauto).
    assert (D12 : forall x, In x (binders_l s1) -> In x (binders_l s2) -> False).
    { intros x H1 H2. eapply (NoDup_app_disj' _ _ x Hnd); eauto. rewrite in_app_iff. auto. }
    assert (Dj1 : disj (binders_l s1) D) by (intros x Hx; apply Hdj; rewrite !in_app_iff; auto).
    assert (Dj2 : disj (binders_l s2) D) by (intros x Hx; apply Hdj; rewrite !in_app_iff; auto).
    assert (DjF : forall x, In x (map t_name fas) -> ~ In x D) by (intros x Hx Hd; eapply Hdj; eauto; rewrite !in_app_iff; auto).
    destruct (HQ s1 c o1 c1 b1 f1 S0 E1 Hf1 Hs1 D Hwf HS0 Hnd1 Dj1) as [(W1 & X1 & Bo1) Hd1].
    destruct (HQ s2 c o2 c2 b2 f2 S0 E2 Hf2 Hs2 D Hwf HS0 Hnd2 Dj2) as [(W2 & X2 & Bo2) Hd2].
    destruct (merge_fas_spec fa fb fas c fas' c' Hm) as (Eb & X & I3 & I4 & I5 & I6 & I7).
    assert (HSx1 : incl' (defs_l s1 ++ S0) (binders_l s1 ++ D)).
    { intros x. rewrite !in_app_iff. intros [Hx|Hx]; [left; now apply defs_l_in_binders | right; auto]. }
    assert (HSx2 : incl' (defs_l s2 ++ S0) (binders_l s2 ++ D)).
    { intros x. rewrite !in_app_iff. intros [Hx|Hx]; [left; now apply defs_l_in_binders | right; auto]. }
    assert (R1 : forall t y, In t fas -> fa t = EVar y -> In y (binders_l s1 ++ D)).
    { intros t y Ht E. eapply (opt_expr_range c1 _ (defs_l s1 ++ S0) (t_e1 t)); eauto. exact (Hfa true t Ht). }
    assert (R2 : forall t y, In t fas -> fb t = EVar y -> In y (binders_l s2 ++ D)).
    { intros t y Ht E. eapply (opt_expr_range c2 _ (defs_l s2 ++ S0) (t_e2 t)); eauto. exact (Hfa false t Ht). }
    assert (Hsub' : forall x, In x (map t_name fas') -> In x (map t_name fas)).
    { intros x Hx. apply in_map_iff in Hx. destruct Hx as [t' [<- Ht']].
      destruct (I3 t' Ht') as (t0 & Ht0 & -> & _). cbn. now apply in_map. }
    split.
    - split; [|split].
      + eapply cx_wf_mono; [apply (I7 D Hwf)|].
        * intros t y Ht Eq Ey. assert (Ev : fb t = EVar y) by (apply expr_eq_var; rewrite <- Ey; exact Eq).
          pose proof (R1 t y Ht Ey) as A. pose proof (R2 t y Ht Ev) as B. rewrite in_app_iff in A, B.
          destruct A as [A|A]; auto. destruct B as [B|B]; [exfalso; eauto | auto].
        * intros x. rewrite !in_app_iff. tauto.
      + eapply ext_mono; eauto. intros x Hx. rewrite !in_app_iff. auto.
      + destruct (is_nil o1 && is_nil o2 && is_nil fas'); [intros x []|].
        cbn [binders_l]. rewrite binders_SIf, app_nil_r. intros x. rewrite !in_app_iff.
        intros [Hx|[Hx|Hx]]; auto.
    - intros S eo et tr Hi1 Hi2 HR. rewrite exec_SIf.
      pose proof (Rel_expr w c S eo et cnd HR (in_scope_In _ _ _ Hc Hi1)) as Ec. fold cnd' in Ec. rewrite Ec.
      destruct (cond (eval w et cnd')) as [b|] eqn:Eb'; [|exact I].
      assert (HSnb1 : forall x, In x S -> ~ In x (binders_l s1)) by (intros x Hx Hb; eapply Dj1; eauto).
      assert (HSnb2 : forall x, In x S -> ~ In x (binders_l s2)) by (intros x Hx Hb; eapply Dj2; eauto).
      destruct b.
      + specialize (Hd1 S eo et tr Hi1 Hi2 HR).
        pose proof (frame_block Add w fuel s1 eo tr) as Fo.
        destruct (exec_block_o s1 eo tr) as [eo1 tr1|v eo1 tr1| | | | |]; cbn [dyn] in *; auto.
        * destruct Hd1 as (_ & et1 & S1 & Ex1 & HR1 & Lo1 & Up1). split; auto.
          pose proof (frame_block Add w fuel o1 et tr) as Ft. rewrite Ex1 in Ft. cbn in Fo, Ft.
          exists (bind_e1 w fas' et1), (map t_name fas ++ S).
          split; [rewrite (target_if cnd' o1 o2 fas' et tr true Eb'), Ex1; reflexivity|].
          split; [|split; [apply incl'_refl | intros x; rewrite !in_app_iff; tauto]].
          unfold bind_e1.
          eapply (Rel_merge t_e1 t_e1 fa fa fb fas fas' c c' c1 S S1 (defs_l s1 ++ S0) eo et eo1 et1 D); eauto.
          -- intros x Hx. apply Ft. intros Hb. apply (HSnb1 x Hx). auto.
          -- intros x Hx. apply Lo1. rewrite in_app_iff in *. destruct Hx; auto.
          -- intros t Ht. exact (Hfa true t Ht).
          -- intros t y Ht Eq Ey.
             assert (Hy1 : In y S1).
             { eapply (Rel_expr_scope w c1 S1 eo1 et1 (t_e1 t)); eauto. intros z Ez. apply Lo1. rewrite in_app_iff.
               pose proof (Hfa true t Ht) as Hs. cbn in Hs. rewrite Ez in Hs. apply in_scope_var in Hs.
               rewrite in_app_iff in Hs. destruct Hs; auto. }
             apply Up1 in Hy1. rewrite in_app_iff in Hy1. destruct Hy1 as [Hy1|Hy1]; auto. exfalso.
             assert (Ev : fb t = EVar y) by (apply expr_eq_var; rewrite <- Ey; exact Eq).
             pose proof (R2 t y Ht Ev) as B. rewrite in_app_iff in B. destruct B; eauto.
        * destruct Hd1 as [et1 Ex1]. exists et1. rewrite (target_if cnd' o1 o2 fas' et tr true Eb'), Ex1. reflexivity.
      + specialize (Hd2 S eo et tr Hi1 Hi2 HR).
        pose proof (frame_block Add w fuel s2 eo tr) as Fo.
        destruct (exec_block_o s2 eo tr) as [eo1 tr1|v eo1 tr1| | | | |]; cbn [dyn] in *; auto.
        * destruct Hd2 as (_ & et1 & S1 & Ex1 & HR1 & Lo1 & Up1). split; auto.
          pose proof (frame_block Add w fuel o2 et tr) as Ft. rewrite Ex1 in Ft. cbn in Fo, Ft.
          exists (bind_e2 w fas' et1), (map t_name fas ++ S).
          split; [rewrite (target_if cnd' o1 o2 fas' et tr false Eb'), Ex1; reflexivity|].
          split; [|split; [apply incl'_refl | intros x; rewrite !in_app_iff; tauto]].
          unfold bind_e2.
          eapply (Rel_merge t_e2 t_e2 fb fa fb fas fas' c c' c2 S S1 (defs_l s2 ++ S0) eo et eo1 et1 D); eauto.
          -- intros x Hx. apply Ft. intros Hb. apply (HSnb2 x Hx). auto.
          -- intros x Hx. apply Lo1. rewrite in_app_iff in *. destruct Hx; auto.
          -- intros t Ht. exact (Hfa false t Ht).
          -- intros t Ht Eq. now apply expr_eq_sound.
          -- intros t y Ht Eq Ey.
             assert (Ev : fb t = EVar y) by (apply expr_eq_var; rewrite <- Ey; exact Eq).
             assert (Hy1 : In y S1).
             { eapply (Rel_expr_scope w c2 S1 eo1 et1 (t_e2 t)); eauto. intros z Ez. apply Lo1. rewrite in_app_iff.
               pose proof (Hfa false t Ht) as Hs. cbn in Hs. rewrite Ez in Hs. apply in_scope_var in Hs.
               rewrite in_app_iff in Hs. destruct Hs; auto. }
             apply Up1 in Hy1. rewrite in_app_iff in Hy1. destruct Hy1 as [Hy1|Hy1]; auto. exfalso.
             pose proof (R1 t y Ht Ey) as B. rewrite in_app_iff in B. destruct B; eauto.
        * destruct Hd2 as [et1 Ex1]. exists et1. rewrite (target_if cnd' o1 o2 fas' et tr false Eb'), Ex1. reflexivity.
  Qed.
  (* ---------------------------------------------------------------- While (the loop is kept) *)
  Lemma Rel_add_many c S L eo et :
    Rel w c S eo et ->
    (forall x, In x L -> lookup x eo = lookup x et /\ assoc x (cx_v c) = None /\ assoc x (cx_b c) = None) ->
    Rel w c (L ++ S) eo et.
  Proof.
    intros (RV & RI & RB) HL. split; [|split].
    - intros x Hx. destruct (in_dec N.eq_dec x L) as [Hl|Hn].
      + destruct (HL x Hl) as (E & Ev & _). cbn [opt_expr]. rewrite Ev. unfold eval. now rewrite E.
      + rewrite in_app_iff in Hx. destruct Hx; [contradiction | auto].
    - intros x y Hx. destruct (in_dec N.eq_dec x L) as [Hl|Hn].
      + destruct (HL x Hl) as (_ & Ev & _). cbn [opt_expr]. rewrite Ev. intros [= <-]. apply in_or_app; auto.
      + rewrite in_app_iff in Hx. destruct Hx as [Hx|Hx]; [contradiction|]. intros E. apply in_or_app. right. eauto.
    - intros z op y k Hz E. destruct (in_dec N.eq_dec z L) as [Hl|Hn].
      + destruct (HL z Hl) as (_ & _ & Eb). congruence.
      + rewrite in_app_iff in Hz. destruct Hz as [Hz|Hz]; [contradiction|].
        destruct (RB z op y k Hz E) as (Hy & R). split; [apply in_or_app; right; assumption | exact R].
  Qed.

  Lemma loop_sim2 (Iv : env -> env -> Prop) b1 b2 n1 n2 :
    (forall e1 e2 tr, Iv e1 e2 ->
       match b1 e1 tr with
       | RNext e1' t => exists e2', b2 e2 tr = RNext e2' t /\ Iv (n1 e1') (n2 e2')
       | RBreak v _ t => exists e2', b2 e2 tr = RBreak v e2' t
       | _ => True
       end) ->
    forall n e1 e2 tr, Iv e1 e2 ->
      match loop b1 n1 n e1 tr with
      | RBreak v _ t => exists e2', loop b2 n2 n e2 tr = RBreak v e2' t
      | _ => True
      end.
  Proof.
    intros Hstep. induction n as [|n IH]; intros e1 e2 tr HI; cbn [loop]; [exact I|].
    specialize (Hstep e1 e2 tr HI). destruct (b1 e1 tr) as [e1' t|v e1' t| | | | |]; auto.
    - destruct Hstep as [e2' [-> HI']]. apply IH. exact HI'.
    - destruct Hstep as [e2' ->]. eauto.
  Qed.

  Lemma find_mapped (F : triple -> triple) l t :
    (forall t, t_name (F t) = t_name t) -> NoDup (map t_name l) -> In t l ->
    find (fun t' => N.eqb (t_name t) (t_name t')) (map F l) = Some (F t).
  Proof.
    intros Hn Hnd Ht. rewrite <- (Hn t). apply find_name_unique.
    - rewrite map_map. rewrite (map_ext (fun x => t_name (F x)) t_name) by auto. assumption.
    - now apply in_map.
  Qed.

  Definition is_elim (t : triple) : bool := expr_eq (t_e1 t) (t_e2 t).

  (* the loop variables that never change are bound to their (optimised) initial value; on the proved path
     this only happens for the repaired code *)
  Lemma elim_spec lvs : forall c K c1 f0,
    elim_lvs g lvs c = Some (K, c1, f0) -> fst f0 = false -> NoDup (map t_name lvs) ->
    (forall t y, In t lvs -> t_e1 t = EVar y -> ~ In y (map t_name lvs)) ->
    K = filter (fun t => negb (is_elim t)) lvs /\
    cx_b c1 = cx_b c /\
    ext_outside (map t_name lvs) c c1 /\
    (forall t, In t lvs ->
       if is_elim t then assoc (t_name t) (cx_v c1) = Some (opt_expr (cx_v c) (t_e1 t))
       else assoc (t_name t) (cx_v c1) = assoc (t_name t) (cx_v c)) /\
    (forall D Sx, cx_wf c D -> incl' Sx D -> (forall t, In t lvs -> in_scope Sx (t_e1 t) = true) ->
                  cx_wf c1 (map t_name lvs ++ D)).
  Proof.
    unfold is_elim. induction lvs as [|t r IH]; intros c K c1 f0 H Hf Hnd Hfr; cbn in H.
    - injection H as <- <- <-. split; [reflexivity|]. split; [reflexivity|]. split; [apply ext_refl|].
      split; [intros t []|]. intros D Sx Hwf _ _. assumption.
    - inversion Hnd as [|? ? Hni Hnd']; subst.
      assert (Hfr' : forall t' y, In t' r -> t_e1 t' = EVar y -> ~ In y (map t_name r)).
      { intros t' y Ht' Ey Hy. eapply (Hfr t' y); eauto; right; assumption. }
      cbn [filter]. destruct (expr_eq (t_e1 t) (t_e2 t)) eqn:Eq; cbn [negb].
      + destruct (bind (t_name t) _ c) as [ca|] eqn:B; [|discriminate].
        destruct (elim_lvs g r ca) as [[[k0 c0] f1]|] eqn:E; [|discriminate]. injection H as <- <- <-.
        apply orf_false in Hf. destruct Hf as [Hv Hf1].
        destruct (v_optinit g) eqn:Ev; [|discriminate].
        destruct (IH ca k0 c0 f1 E Hf1 Hnd' Hfr') as (I1 & I2 & I3 & I4 & I5).
        destruct (bind_inv _ _ _ _ B) as (Hn & Evc & Ebc).
        assert (Hoptr : forall t', In t' r -> opt_expr (cx_v ca) (t_e1 t') = opt_expr (cx_v c) (t_e1 t')).
        { intros t' Ht'. rewrite Evc. destruct (t_e1 t') eqn:Ep; try reflexivity. cbn.
          destruct (N.eqb_spec x (t_name t)) as [->|]; [|reflexivity].
          exfalso. eapply (Hfr t' (t_name t)); eauto; [right; assumption | left; reflexivity]. }
        split; [assumption|]. split; [congruence|]. split; [|split].
        * eapply ext_trans; [eapply bind_ext; eauto | exact I3 | |].
          -- intros x [<-|[]]. left; reflexivity.
          -- intros x Hx. right. exact Hx.
        * intros t' [<-|Ht'].
          -- rewrite Eq. destruct (I3 (t_name t) Hni) as [-> _]. rewrite Evc. cbn. now rewrite N.eqb_refl.
          -- specialize (I4 t' Ht'). destruct (expr_eq (t_e1 t') (t_e2 t')).
             ++ rewrite I4. f_equal. now apply Hoptr.
             ++ rewrite I4, Evc. cbn. destruct (N.eqb_spec (t_name t') (t_name t)) as [E'|]; [|reflexivity].
                exfalso. apply Hni. rewrite <- E'. now apply in_map.
        * intros D Sx Hwf Hi Hsc.
          assert (Hwa : cx_wf ca (t_name t :: D)).
          { eapply bind_wf; eauto. intros y Ey. eapply (opt_expr_range c D Sx (t_e1 t)); eauto. apply Hsc. left; reflexivity. }
          assert (Hi' : incl' Sx (t_name t :: D)) by (intros x Hx; right; auto).
          pose proof (I5 (t_name t :: D) Sx Hwa Hi' (fun t' Ht' => Hsc t' (or_intror Ht'))) as W.
          eapply cx_wf_mono; eauto. intros x. cbn. rewrite !in_app_iff. cbn. tauto.
      + destruct (elim_lvs g r c) as [[[k0 c0] f1]|] eqn:E; [|discriminate]. injection H as <- <- <-.
        destruct (IH c k0 c0 f1 E Hf Hnd' Hfr') as (I1 & I2 & I3 & I4 & I5).
        split; [now f_equal|]. split; [assumption|]. split; [|split].
        * eapply ext_mono; eauto. intros x Hx. right. exact Hx.
        * intros t' [<-|Ht'].
          -- rewrite Eq. now destruct (I3 (t_name t) Hni) as [-> _].
          -- exact (I4 t' Ht').
        * intros D Sx Hwf Hi Hsc.
          pose proof (I5 D Sx Hwf Hi (fun t' Ht' => Hsc t' (or_intror Ht'))) as W.
          eapply cx_wf_mono; eauto. intros x. cbn. rewrite !in_app_iff. tauto.
  Qed.

  Lemma try_loop_notfirst stmts d : forall lvs body bc c out c' b f,
    try_loop g stmts d false lvs body bc c = Some (out, c', b, f) -> fst f = true.
  Proof.
    induction d as [|d IH]; intros lvs body bc c out c' b f H; cbn [try_loop] in H;
      destruct (bind_inits lvs c) as [c1|]; try discriminate;
      destruct (stmts body c1) as [[[[o c2] bb] ff]|]; try discriminate;
      destruct (split_last o) as [[rest last]|].
    1, 3: destruct (negb (is_break last) || v_guard g && negb (no_break_l rest));
          [injection H as <- <- <- <-; reflexivity|];
          destruct last; try discriminate; destruct bc as [bn|];
          [destruct (bind bn _ c) as [cb|]; [|discriminate]|]; injection H as <- <- <- <-; reflexivity.
    - injection H as <- <- <- <-. reflexivity.
    - eapply IH; eauto.
  Qed.

  Lemma try_loop_proved stmts d lvs body bc c out c' b f :
    try_loop g stmts d true lvs body bc c = Some (out, c', b, f) -> fst f = false ->
    out = [SWhile lvs body bc] /\ c' = c /\ b = false.
  Proof.
    intros H Hf. destruct d as [|d]; cbn [try_loop] in H;
      destruct (bind_inits lvs c) as [c1|]; try discriminate;
      destruct (stmts body c1) as [[[[o c2] bb] ff]|]; try discriminate;
      destruct (split_last o) as [[rest last]|].
    1, 3: destruct (negb (is_break last) || v_guard g && negb (no_break_l rest));
          [injection H as <- <- <- <-; auto|];
          destruct last; try discriminate; destruct bc as [bn|];
          [destruct (bind bn _ c) as [cb|]; [|discriminate]|]; injection H as <- <- <- <-; discriminate.
    - injection H as <- <- <- <-. discriminate.
    - apply try_loop_notfirst in H. congruence.
  Qed.
  Lemma eval_same_on S e en en' :
    (forall y, e = EVar y -> In y S) -> (forall y, In y S -> lookup y en' = lookup y en) -> eval w en' e = eval w en e.
  Proof. intros Hv Hf. destruct e; try reflexivity. apply eval_var_lookup. apply Hf. auto. Qed.

  Lemma P_SWhile n lvs ss bc c out c' brk f S0 :
    Qn n ->
    ccp_stmt g (S n) (SWhile lvs ss bc) c = Some (out, c', brk, f) -> fst f = false ->
    scoped S0 (SWhile lvs ss bc) = true ->
    good (binders (SWhile lvs ss bc)) (opt_names bc) (exec_o (SWhile lvs ss bc)) S0 c out c' brk.
  Proof.
    intros HQ H Hf Hsc. cbn [ccp_stmt] in H. fold (ccp_stmts g n) in H.
    destruct (elim_lvs g lvs c) as [[[K c1] f0]|] eqn:Ee; [|discriminate].
    destruct (ccp_stmts g n ss c1) as [[[[body c_in] bb] f1]|] eqn:Eb; [|discriminate].
    set (F := fun t : triple => (t_name t, opt_expr (cx_v c1) (t_e1 t), opt_expr (cx_v c_in) (t_e2 t))) in *.
    set (lvs' := map F K) in *.
    destruct (match split_last body with
              | Some (rest, SBreak e) => if v_guard g && negb (no_break_l rest) then None else Some (rest, e)
              | _ => None end) as [[rest e]|] eqn:Eonce.
    { (* single-iteration rewrite: flagged *)
      exfalso. destruct (bind_inits lvs' c1) as [c2|]; [|discriminate].
      destruct (ccp_stmts g n rest c2) as [[[[o c3] b3] f2]|]; [|discriminate].
      destruct bc as [bn|]; [destruct (bind bn _ c3) as [c4|]; [|discriminate]|];
        injection H as <- <- <- <-; cbn in Hf; rewrite orb_true_r in Hf; discriminate. }
    destruct (try_loop g (ccp_stmts g n) 5 true lvs' body bc c1) as [[[[o c2] b2] f2]|] eqn:Et; [|discriminate].
    injection H as <- <- <- <-. apply orf_false in Hf. destruct Hf as [Hf01 Hf2].
    apply orf_false in Hf01. destruct Hf01 as [Hf0 Hf1].
    destruct (try_loop_proved _ _ _ _ _ _ _ _ _ _ Et Hf2) as (-> & -> & ->).
    rewrite scoped_SWhile in Hsc. apply andb_prop in Hsc. destruct Hsc as [Hsc Hl2].
    apply andb_prop in Hsc. destruct Hsc as [Hl1 Hss]. rewrite forallb_forall in Hl1, Hl2.
    rewrite binders_SWhile.
    set (LN := map t_name lvs) in *.
    specialize (HQ ss c1 body c_in bb f1 (LN ++ S0) Eb Hf1 Hss).
    intros D Hwf HS0 Hnd Hdj.
    assert (HndL : NoDup LN) by (eapply NoDup_app_l'; eauto).
    assert (HndB : NoDup (binders_l ss)) by (eapply NoDup_app_l', NoDup_app_r'; eauto).
    assert (DLB : forall x, In x LN -> In x (binders_l ss) -> False).
    { intros x H1 H2. eapply (NoDup_app_disj' _ _ x Hnd); eauto. rewrite in_app_iff. auto. }
    assert (DjL : forall x, In x LN -> ~ In x D) by (intros x Hx Hd; eapply Hdj; eauto; rewrite !in_app_iff; auto).
    assert (DjB : forall x, In x (binders_l ss) -> ~ In x D) by (intros x Hx Hd; eapply Hdj; eauto; rewrite !in_app_iff; auto).
    assert (Djc : forall x, In x (opt_names bc) -> ~ In x D) by (intros x Hx Hd; eapply Hdj; eauto; rewrite !in_app_iff; auto).
    assert (DLc : forall x, In x LN -> In x (opt_names bc) -> False).
    { intros x H1 H2. eapply (NoDup_app_disj' _ _ x Hnd); eauto. rewrite in_app_iff. auto. }
    assert (Hinitfresh : forall t y, In t lvs -> t_e1 t = EVar y -> ~ In y LN).
    { intros t y Ht Ey Hy. apply (DjL y Hy). apply HS0. apply in_scope_var. rewrite <- Ey. auto. }
    destruct (elim_spec lvs c K c1 f0 Ee Hf0 HndL Hinitfresh) as (EK & Ebc & X1 & A1 & W1).
    assert (HwfL : cx_wf c1 (LN ++ D)) by (apply (W1 D S0 Hwf HS0); auto).
    assert (HS0L : incl' (LN ++ S0) (LN ++ D)) by (intros x; rewrite !in_app_iff; intros [Hx|Hx]; auto).
    assert (HdjB : disj (binders_l ss) (LN ++ D)).
    { intros x Hx. rewrite in_app_iff. intros [Hl|Hd]; [eapply DLB | eapply DjB]; eauto. }
    destruct (HQ (LN ++ D) HwfL HS0L HndB HdjB) as [(Wb & Xb & Bb) Hdb].
    assert (HKin : forall t, In t K -> In t lvs /\ is_elim t = false).
    { intros t Ht. rewrite EK in Ht. apply filter_In in Ht. destruct Ht as [Ht He]. split; auto. now apply negb_true_iff in He. }
    assert (HinK : forall t, In t lvs -> is_elim t = false -> In t K).
    { intros t Ht He. rewrite EK. apply filter_In. split; auto. now rewrite He. }
    assert (HndK : NoDup (map t_name K)) by (rewrite EK; now apply NoDup_filter_names).
    assert (ELK : map t_name lvs' = map t_name K) by (unfold lvs'; rewrite map_map; reflexivity).
    assert (HLK : forall x, In x (map t_name K) -> In x LN).
    { intros x Hx. apply in_map_iff in Hx. destruct Hx as [t [<- Ht]]. apply in_map. apply HKin. exact Ht. }
    assert (Hopt1 : forall t, In t lvs -> opt_expr (cx_v c1) (t_e1 t) = opt_expr (cx_v c) (t_e1 t)).
    { intros t Ht. destruct (t_e1 t) eqn:Ep; try reflexivity. cbn. destruct (X1 x) as [-> _]; [|reflexivity].
      eapply Hinitfresh; eauto. }
    split.
    - split; [|split].
      + eapply cx_wf_mono; eauto. intros x. rewrite !in_app_iff. tauto.
      + eapply ext_mono; eauto. apply incl'_app_l.
      + cbn [binders_l]. rewrite binders_SWhile, app_nil_r, ELK. intros x. rewrite !in_app_iff.
        intros [Hx|[Hx|Hx]]; auto.
    - intros S eo et tr Hi1 Hi2 HR.
      assert (HSL : forall x, In x S -> ~ In x LN) by (intros x Hx Hl; apply (DjL x Hl); auto).
      assert (HSB : forall x, In x S -> ~ In x (binders_l ss)) by (intros x Hx Hb; apply (DjB x Hb); auto).
      assert (HSLK : forall x, In x S -> ~ In x (map t_name lvs')) by (intros x Hx Hl; rewrite ELK in Hl; apply (HSL x Hx); auto).
      assert (Hinit_in : forall t, In t lvs -> forall y, t_e1 t = EVar y -> In y S).
      { intros t Ht. eapply in_scope_In; eauto. }
      (* the loop heads: outer scope related and unchanged since the entry, kept loop variables equal,
         unchanging loop variables still equal to their initial value *)
      set (Iv := fun eh th : env =>
        Rel w c S eh th /\ (forall x, In x S -> lookup x eh = lookup x eo /\ lookup x th = lookup x et) /\
        forall t, In t lvs -> if is_elim t then eval w eh (EVar (t_name t)) = eval w eo (t_e1 t)
                              else lookup (t_name t) eh = lookup (t_name t) th).
      assert (HF : forall t, In t K -> find (fun t' : triple => N.eqb (t_name t) (t_name t')) lvs' = Some (F t)).
      { intros t Ht. apply find_mapped; auto. }
      assert (HRel1 : forall eh th, Iv eh th -> Rel w c1 (LN ++ S) eh th).
      { intros eh th (HRh & Hfr & Hlv). destruct HRh as (RV & RI & RB).
        assert (Ho : forall x, In x S -> opt_expr (cx_v c1) (EVar x) = opt_expr (cx_v c) (EVar x)).
        { intros x Hx. cbn. destruct (X1 x (HSL x Hx)) as [-> _]. reflexivity. }
        assert (Hoe : forall t, In t lvs -> is_elim t = true -> opt_expr (cx_v c1) (EVar (t_name t)) = opt_expr (cx_v c) (t_e1 t)).
        { intros t Ht He. cbn. pose proof (A1 t Ht) as A. rewrite He in A. now rewrite A. }
        assert (Hok : forall t, In t lvs -> is_elim t = false -> opt_expr (cx_v c1) (EVar (t_name t)) = EVar (t_name t)).
        { intros t Ht He. cbn. pose proof (A1 t Ht) as A. rewrite He in A. rewrite A.
          rewrite (cx_wf_notin_v c D (t_name t) Hwf); [reflexivity|]. apply DjL. now apply in_map. }
        split; [|split].
        - intros x Hx. destruct (in_dec N.eq_dec x LN) as [Hl|Hn].
          + apply in_map_iff in Hl. destruct Hl as [t [<- Ht]]. specialize (Hlv t Ht).
            destruct (is_elim t) eqn:He.
            * rewrite (Hoe t Ht He), Hlv.
              rewrite (Rel_expr w c S eo et (t_e1 t) HR (Hinit_in t Ht)).
              symmetry. apply (eval_same_on S).
              -- intros y Ey. eapply (Rel_expr_scope w c S eo et (t_e1 t)); eauto.
              -- intros y Hy. apply Hfr. exact Hy.
            * rewrite (Hok t Ht He). unfold eval. now rewrite Hlv.
          + rewrite in_app_iff in Hx. destruct Hx as [Hx|Hx]; [contradiction|]. rewrite (Ho x Hx). auto.
        - intros x y Hx. destruct (in_dec N.eq_dec x LN) as [Hl|Hn].
          + apply in_map_iff in Hl. destruct Hl as [t [<- Ht]]. destruct (is_elim t) eqn:He.
            * rewrite (Hoe t Ht He). intros E. apply in_or_app. right.
              eapply (Rel_expr_scope w c S eo et (t_e1 t)); eauto.
            * rewrite (Hok t Ht He). intros [= <-]. apply in_or_app. left. now apply in_map.
          + rewrite in_app_iff in Hx. destruct Hx as [Hx|Hx]; [contradiction|]. rewrite (Ho x Hx). intros E.
            apply in_or_app. right. eauto.
        - intros z op y k Hz. rewrite Ebc. intros E. rewrite in_app_iff in Hz. destruct Hz as [Hz|Hz].
          + exfalso. rewrite (cx_wf_notin_b c D z Hwf (DjL z Hz)) in E. discriminate.
          + destruct (RB z op y k Hz E) as (Hy & R). split; [apply in_or_app; right; assumption | exact R]. }
      assert (Hinit : Iv (bind_e1 w lvs eo) (bind_e1 w lvs' et)).
      { split; [|split].
        - eapply Rel_frame; eauto; intros x Hx; unfold bind_e1.
          + apply (lookup_bind_notin w t_e1). auto.
          + apply (lookup_bind_notin w t_e1). auto.
        - intros x Hx. unfold bind_e1. split; apply (lookup_bind_notin w t_e1); auto.
        - intros t Ht. destruct (is_elim t) eqn:He.
          + unfold eval at 1. unfold bind_e1. rewrite (lookup_bind w t_e1), (find_name_unique lvs t HndL Ht). apply eval_wrap.
          + unfold bind_e1. rewrite !(lookup_bind w t_e1), (find_name_unique lvs t HndL Ht), (HF t (HinK t Ht He)).
            unfold F. cbn [t_e1 fst snd]. rewrite (Hopt1 t Ht). apply (Rel_expr w c S eo et (t_e1 t) HR). exact (Hinit_in t Ht). }
      assert (Hstep : forall eh th t0, Iv eh th ->
         match exec_block_o ss eh t0 with
         | RNext e1' t1 => exists e2', exec_block_t body th t0 = RNext e2' t1 /\ Iv (bind_e2 w lvs e1') (bind_e2 w lvs' e2')
         | RBreak v _ t1 => exists e2', exec_block_t body th t0 = RBreak v e2' t1
         | _ => True
         end).
      { intros eh th t0 HIv. pose proof (HRel1 eh th HIv) as HRL. destruct HIv as (HRh & Hfr & Hlv).
        assert (HiL1 : incl' (LN ++ S0) (LN ++ S)) by (intros x; rewrite !in_app_iff; intros [Hx|Hx]; auto).
        assert (HiL2 : incl' (LN ++ S) (LN ++ D)) by (intros x; rewrite !in_app_iff; intros [Hx|Hx]; auto).
        specialize (Hdb (LN ++ S) eh th t0 HiL1 HiL2 HRL).
        pose proof (frame_block Add w fuel ss eh t0) as Fo.
        destruct (exec_block_o ss eh t0) as [eo1 tr1|v eo1 tr1| | | | |]; cbn [dyn] in *; auto.
        destruct Hdb as (_ & et1 & S1 & Ex1 & HR1 & Lo1 & Up1). exists et1. split; [assumption|].
        pose proof (frame_block Add w fuel body th t0) as Ft. rewrite Ex1 in Ft. cbn in Fo, Ft.
        assert (Fo' : forall x, In x S -> lookup x (bind_e2 w lvs eo1) = lookup x eh).
        { intros x Hx. unfold bind_e2. rewrite (lookup_bind_notin w t_e2) by auto. apply Fo. auto. }
        assert (Ft' : forall x, In x S -> lookup x (bind_e2 w lvs' et1) = lookup x th).
        { intros x Hx. unfold bind_e2. rewrite (lookup_bind_notin w t_e2) by auto. apply Ft. intros Hb. apply (HSB x Hx). auto. }
        split; [|split].
        - eapply Rel_frame; eauto.
        - intros x Hx. destruct (Hfr x Hx) as [A B]. rewrite (Fo' x Hx), (Ft' x Hx). auto.
        - intros t Ht. destruct (is_elim t) eqn:He.
          + unfold eval at 1. unfold bind_e2. rewrite (lookup_bind w t_e2), (find_name_unique lvs t HndL Ht), eval_wrap.
            unfold is_elim in He. rewrite <- (expr_eq_sound _ _ He w eo1).
            apply (eval_same_on S (t_e1 t) eo eo1 (Hinit_in t Ht)). intros y Hy. rewrite (Fo y) by auto. apply Hfr. exact Hy.
          + unfold bind_e2. rewrite !(lookup_bind w t_e2), (find_name_unique lvs t HndL Ht), (HF t (HinK t Ht He)).
            unfold F. cbn [t_e2 snd]. apply (Rel_expr w c_in S1 eo1 et1 (t_e2 t) HR1).
            intros y Ey. apply Lo1. specialize (Hl2 t Ht). rewrite Ey in Hl2. apply in_scope_var in Hl2.
            rewrite !in_app_iff in *. destruct Hl2 as [Hy|[Hy|Hy]]; auto. }
      pose proof (loop_sim2 Iv _ _ _ _ Hstep fuel _ _ tr Hinit) as HL.
      pose proof (frame_stmt Add w fuel (SWhile lvs ss bc) eo tr) as FWo.
      pose proof (frame_stmt Add w fuel (SWhile lvs' body bc) et tr) as FWt.
      rewrite exec_SWhile. rewrite exec_SWhile in FWo, FWt.
      destruct (loop (exec_block_o ss) (bind_e2 w lvs) fuel (bind_e1 w lvs eo) tr) as [? ?|v eo1 tr1| | | | |] eqn:EL;
        cbn [dyn]; auto.
      destruct HL as [et1 HLt]. rewrite HLt in FWt. split; auto.
      exists (bind_opt bc v et1), (opt_names bc ++ S).
      split; [rewrite exec_block_cons, exec_SWhile, HLt; reflexivity|].
      split; [|split; [apply incl'_refl | intros x; rewrite !in_app_iff; tauto]].
      rewrite binders_SWhile in FWo, FWt. rewrite ELK in FWt. unfold frame_res in FWo, FWt.
      apply Rel_add_many.
      + apply (Rel_ext w c c1 S LN); [|exact X1 | intros x Hx Hl; eapply HSL; eauto].
        apply (Rel_frame w c S eo et _ _ HR); intros x Hx.
        * apply FWo. rewrite !in_app_iff. intros [Hb|[Hb|Hb]]; [eapply HSL | eapply HSB | eapply Djc]; eauto.
        * apply FWt. rewrite !in_app_iff. intros [Hb|[Hb|Hb]]; [eapply HSL | eapply HSB | eapply Djc]; eauto.
      + intros x Hx. destruct bc as [bn|]; [|destruct Hx]. destruct Hx as [<-|[]]. cbn [bind_opt lookup].
        rewrite N.eqb_refl. split; [reflexivity|].
        assert (Hbn : ~ In bn (LN ++ D)).
        { rewrite in_app_iff. intros [Hl|Hd]; [eapply DLc; eauto; left; reflexivity | eapply Djc; eauto; left; reflexivity]. }
        split; [apply (cx_wf_notin_v c1 _ bn HwfL Hbn) | apply (cx_wf_notin_b c1 _ bn HwfL Hbn)].
  Qed.

  (* ---------------------------------------------------------------- all statements *)
  Lemma P_step n : Qn n -> Pn (S n).
  Proof.
    intros HQ st c out c' brk f S0 H Hf Hsc. destruct st as [x op e1 e2|x e|x p e|fn args ret|cnd s1 s2 fas|cnd inv ss|e|lvs ss bc].
    - exact (P_SBin n x op e1 e2 c out c' brk f S0 H Hsc).
    - exact (P_SNot n x e c out c' brk f S0 H Hsc).
    - exact (P_SPrim n x p e c out c' brk f S0 H Hsc).
    - exact (P_SCall n fn args ret c out c' brk f S0 H Hsc).
    - cbn [ccp_stmt] in H. fold (ccp_stmts g n) in H. cbn [defs].
      destruct (lit (opt_expr (cx_v c) cnd)) as [v|] eqn:L.
      + eapply P_SIf_const; eauto.
      + assert (GEN :
          match ccp_stmts g n s1 c with
          | None => None
          | Some (o1, c1, _, f1) =>
              match ccp_stmts g n s2 c with
              | None => None
              | Some (o2, c2, _, f2) =>
                  match merge_fas fas (map (fun t => opt_expr (cx_v c1) (t_e1 t)) fas)
                                  (map (fun t => opt_expr (cx_v c2) (t_e2 t)) fas) c with
                  | None => None
                  | Some (fas', c'0) =>
                      Some (if is_nil o1 && is_nil o2 && is_nil fas' then []
                            else [SIf (opt_expr (cx_v c) cnd) o1 o2 fas'], c'0, false, orf f1 f2)
                  end
              end
          end = Some (out, c', brk, f) ->
          good (binders (SIf cnd s1 s2 fas)) (map t_name fas) (exec_o (SIf cnd s1 s2 fas)) S0 c out c' brk).
        { intros HG. destruct (ccp_stmts g n s1 c) as [[[[o1 c1] b1] f1]|] eqn:E1; [|discriminate].
          destruct (ccp_stmts g n s2 c) as [[[[o2 c2] b2] f2]|] eqn:E2; [|discriminate].
          destruct (merge_fas fas _ _ c) as [[fas' c0]|] eqn:Hm; [|discriminate].
          injection HG as <- <- <- <-. apply orf_false in Hf. destruct Hf as [Hf1 Hf2].
          eapply P_SIf_generic; eauto. }
        destruct s1 as [|a1 r1]; [|apply GEN; exact H].
        destruct s2 as [|a2 r2]; [|apply GEN; exact H].
        destruct fas as [|t [|t2 r]]; [apply GEN; exact H| |apply GEN; exact H].
        destruct (SIf_scoped_parts _ _ _ _ _ Hsc) as (Hc & _).
        destruct (is_lit (t_e1 t) 1 && is_lit (t_e2 t) 0) eqn:L10.
        * destruct (bind (t_name t) _ c) as [cb|] eqn:B; [|discriminate]. injection H as <- <- <- <-.
          exact (P_SIf_10 cnd t c cb S0 L10 B Hc).
        * destruct (is_lit (t_e1 t) 0 && is_lit (t_e2 t) 1) eqn:L01.
          -- injection H as <- <- <- <-. exact (P_SIf_01 cnd t c S0 L01 Hc).
          -- apply GEN; exact H.
    - exact (P_SSIf n cnd inv ss c out c' brk f S0 HQ H Hf Hsc).
    - exact (P_SBreak n e c out c' brk f S0 H Hsc).
    - exact (P_SWhile n lvs ss bc c out c' brk f S0 HQ H Hf Hsc).
  Qed.

  Theorem ccp_all n : Pn n /\ Qn n.
  Proof.
    induction n as [|n [IHP IHQ]].
    - assert (P0 : Pn 0) by (intros st c out c' brk f S0 H; discriminate). split; [exact P0 | apply Q_of_P; exact P0].
    - pose proof (P_step n IHQ) as HP. split; [exact HP | apply Q_of_P; exact HP].
  Qed.
End Ccp.

Lemma Rel_init w S en : Rel w cx0 S en en.
Proof.
  split; [|split].
  - intros x _. reflexivity.
  - intros x y Hx [= <-]. exact Hx.
  - intros z op y k _ E. discriminate.
Qed.
Lemma cx_wf_init D : cx_wf cx0 D.
Proof. split; intros; discriminate. Qed.

(* "f' reproduces every run of f that does not overflow in + and -, and does not overflow there either":
   the invariant the optimizer relies on between its rounds; it composes *)
Definition refines_add (w : world) (f' f : func) : Prop :=
  forall args fuel v tr, sem Add w f args fuel = Done v tr -> sem Add w f' args fuel = Done v tr.

Lemma refines_add_trans w f1 f2 f3 : refines_add w f2 f1 -> refines_add w f3 f2 -> refines_add w f3 f1.
Proof. intros H1 H2 args fuel v tr H. auto. Qed.

Lemma mode_le_Add_All : mode_le Add All. Proof. apply mode_le_All. Qed.
(* ... and implies the reading of the property: no overflow at all in f, any behaviour of the target on f' *)
Lemma refines_add_refines w f' f : refines_add w f' f -> refines w f' f.
Proof.
  intros H args fuel v tr Hs. apply (sem_weaken Wrap Add); [apply mode_le_Wrap|].
  apply H. apply (sem_weaken Add All); [apply mode_le_All | exact Hs].
Qed.

(* the pass, on the proved paths (flag false), on every well-formed function; g = ver_now is the code as it
   is, other versions the code before the repairs (the paths those repairs touched are flagged either way) *)
Theorem ccp_gen_preserves_add g w f f' fl :
  wf_func f = true -> ccp_gen g f = Some (f', fl) -> fst fl = false -> refines_add w f' f.
Proof.
  unfold wf_func, ccp_gen. intros Hwf H Hfl. apply andb_prop in Hwf. destruct Hwf as [Hwf Hret].
  apply andb_prop in Hwf. destruct Hwf as [Hnd Hsc]. apply nodupb_NoDup in Hnd.
  destruct (ccp_stmts g ccp_fuel (f_body f) cx0) as [[[[out c] b] f1]|] eqn:E; [|discriminate].
  injection H as <- <-.
  intros args fuel v tr Hsem.
  destruct (ccp_all w fuel g ccp_fuel) as [_ HQ].
  specialize (HQ (f_body f) cx0 out c b f1 (f_params f) E Hfl Hsc (f_params f) (cx_wf_init _) (incl'_refl _)).
  destruct HQ as [_ Hd].
  - eapply NoDup_app_r'; eauto.
  - intros x Hb Hp. eapply (NoDup_app_disj' _ _ x Hnd); eauto.
  - specialize (Hd (f_params f) (init_env f args) (init_env f args) [] (incl'_refl _) (incl'_refl _) (Rel_init _ _ _)).
    unfold sem in *. cbn [f_body f_params f_ret].
    change (init_env {| f_params := f_params f; f_body := out; f_ret := opt_expr (cx_v c) (f_ret f) |} args)
      with (init_env f args).
    destruct (exec_block Add w fuel (f_body f) (init_env f args) []) as [eo' tr'| | | | | |]; try discriminate.
    injection Hsem as <- <-. cbn [dyn] in Hd. destruct Hd as (_ & et' & S' & Ex & HR & Lo & _).
    rewrite Ex. f_equal. symmetry. apply (Rel_expr w c S' eo' et' (f_ret f) HR).
    intros x Ex'. apply Lo. apply in_scope_var. rewrite <- Ex'. exact Hret.
Qed.

Corollary ccp_gen_preserves g w f f' fl :
  wf_func f = true -> ccp_gen g f = Some (f', fl) -> fst fl = false -> refines w f' f.
Proof. intros H1 H2 H3. apply refines_add_refines. eapply ccp_gen_preserves_add; eauto. Qed.
