(* C02deep — lemmas shared by the proofs of constant propagation (ProofsCcpFull.v) and value numbering
   (ProofsLvn.v): list / scope bookkeeping, the shape of the semantics of the compound statements, facts
   about the helper functions of the CCP model that do not involve the simulation relation, and the
   composable notion of refinement (refines_add). *)
From Coq Require Import ZArith NArith List Bool Lia.
Import ListNotations.
From SV Require Import Common.Int32 C02.Kernels C02.Proofs C02deep.Syntax C02deep.Sem C02deep.Passes
  C02deep.ProofsSem C02deep.ProofsDceSets C02deep.ProofsDce C02deep.ProofsCcpArith C02deep.ProofsCcpRel.
Open Scope Z_scope.

Lemma in_scope_In S0 S e : in_scope S0 e = true -> incl' S0 S -> forall x, e = EVar x -> In x S.
Proof. intros H Hi x ->. apply Hi. now apply in_scope_var. Qed.

Lemma incl'_refl a : incl' a a. Proof. intros x; auto. Qed.
Lemma incl'_app_r a b : incl' b (a ++ b). Proof. intros x H. apply in_or_app; auto. Qed.
Lemma incl'_cons_r x a : incl' a (x :: a). Proof. intros y H. right; auto. Qed.
Lemma incl'_trans a b c : incl' a b -> incl' b c -> incl' a c. Proof. intros H1 H2 x H. auto. Qed.

Lemma binders_l_app a b : binders_l (a ++ b) = binders_l a ++ binders_l b.
Proof. induction a; cbn; auto. now rewrite IHa, app_assoc. Qed.

Lemma ext_mono bs bs' c c' : ext_outside bs c c' -> incl' bs bs' -> ext_outside bs' c c'.
Proof. intros H Hi x Hx. apply H. intros Hb. apply Hx. auto. Qed.

Lemma incl'_app_l a b : incl' a (a ++ b). Proof. intros x H. apply in_or_app; auto. Qed.
Lemma NoDup_app_l' {A} (a b : list A) : NoDup (a ++ b) -> NoDup a.
Proof. induction a; cbn; intros H; [constructor|]. inversion H; subst. constructor; auto. rewrite in_app_iff in *. tauto. Qed.
Lemma NoDup_app_r' {A} (a b : list A) : NoDup (a ++ b) -> NoDup b.
Proof. induction a; cbn; intros H; auto. inversion H; auto. Qed.
Lemma NoDup_app_disj' {A} (a b : list A) x : NoDup (a ++ b) -> In x a -> In x b -> False.
Proof.
  induction a; cbn; intros H Ha Hb; [contradiction|]. inversion H; subst. destruct Ha as [->|Ha]; auto.
  rewrite in_app_iff in *. tauto.
Qed.


Section CcpBase.
  Variables (w : world) (fuel : nat).
  Notation exec_o := (exec Add w fuel).
  Notation exec_block_o := (exec_block Add w fuel).
  Notation exec_t := (exec Add w fuel).
  Notation exec_block_t := (exec_block Add w fuel).

  Lemma bind_b_neq x b c : bind_b x b c <> c.
  Proof. destruct c as [v bb]. unfold bind_b. cbn. intros E. injection E as E. apply (f_equal (@length _)) in E. cbn in E. lia. Qed.

  Lemma bin_step x op e1 e2 eo tr (G : res -> Prop) :
    G ROvf -> G (RTrap tr) ->
    (forall v, chk Add op && ovf op (eval w eo e1) (eval w eo e2) = false ->
               rt_binop op (eval w eo e1) (eval w eo e2) = Val v -> G (RNext ((x, v) :: eo) tr)) ->
    G (exec_o (SBin x op e1 e2) eo tr).
  Proof.
    intros H1 H2 H3. cbn [exec]. destruct (chk Add op && ovf op _ _) eqn:E; [assumption|].
    destruct (rt_binop op _ _) eqn:R; auto.
  Qed.

  Lemma operand_var e1 e2 y : operand_of e1 e2 (EVar y) -> e1 = EVar y \/ e2 = EVar y.
  Proof. intros [H|[H|[z H]]]; auto; discriminate. Qed.

  Lemma orf_false a b : fst (orf a b) = false -> fst a = false /\ fst b = false.
  Proof. unfold orf. cbn. apply orb_false_elim. Qed.

  Lemma disj_app_l a b D : disj (a ++ b) D -> disj a D /\ disj b D.
  Proof. intros H. split; intros x Hx; apply H; apply in_or_app; auto. Qed.

  Lemma cond_xor v b inv : cond v = Some b -> xorb b inv = negb (Z.lxor v (b2z inv) =? 0).
  Proof.
    unfold cond. destruct (Z.eqb_spec v 0) as [->|]; [intros [= <-]; destruct inv; reflexivity|].
    destruct (Z.eqb_spec v 1) as [->|]; [intros [= <-]; destruct inv; reflexivity | discriminate].
  Qed.

  Lemma target_ssif_taken cond' inv out et tr b :
    cond (eval w et cond') = Some b -> xorb b inv = true ->
    exec_block_t (if is_nil out then [] else [SSIf cond' inv out]) et tr = exec_block_t out et tr.
  Proof.
    intros Hc Hx. destruct out as [|s r]; [reflexivity|]. cbn [is_nil].
    rewrite exec_block_cons, exec_SSIf, Hc, Hx. destruct (exec_block_t (s :: r) et tr); reflexivity.
  Qed.

  Lemma target_ssif_skipped cond' inv out et tr b :
    cond (eval w et cond') = Some b -> xorb b inv = false ->
    exec_block_t (if is_nil out then [] else [SSIf cond' inv out]) et tr = RNext et tr.
  Proof.
    intros Hc Hx. destruct out as [|s r]; [reflexivity|]. cbn [is_nil].
    rewrite exec_block_cons, exec_SSIf, Hc, Hx. reflexivity.
  Qed.

  Lemma disj_S_bs S D bs : incl' S D -> disj bs D -> disj S bs.
  Proof. intros Hi Hd x Hx Hb. eapply Hd; eauto. Qed.

  Lemma cond_lit v b : cond v = Some b -> b = negb (v =? 0).
  Proof.
    unfold cond. destruct (Z.eqb_spec v 0) as [->|]; [intros [= <-]; reflexivity|].
    destruct (Z.eqb_spec v 1) as [->|]; [intros [= <-]; reflexivity | discriminate].
  Qed.

  Definition pick (b : bool) (t : triple) : expr := if b then t_e1 t else t_e2 t.

  Lemma bind_fas_ext b fas : forall c1 c2, bind_fas b fas c1 = Some c2 -> ext_outside (map t_name fas) c1 c2.
  Proof.
    induction fas as [|t r IH]; intros c1 c2 H; cbn in H.
    - injection H as <-. apply ext_refl.
    - destruct (bind (t_name t) _ c1) as [ca|] eqn:B; [|discriminate].
      eapply ext_trans; [eapply bind_ext; eauto | eapply IH; eauto | |].
      + intros x [<-|[]]. left; reflexivity.
      + intros x Hx. right. exact Hx.
  Qed.

  Definition trivial_res (r : res) : Prop := match r with RNext _ _ | RBreak _ _ _ => False | _ => True end.

  Lemma is_lit_eval e k : is_lit e k = true -> forall en, eval w en e = k.
  Proof.
    unfold is_lit. destruct (lit e) as [z|] eqn:L; [|discriminate]. intros E en. apply Z.eqb_eq in E. subst.
    now destruct (lit_eval _ _ L) as (H & _).
  Qed.

  Lemma SIf_scoped_parts S0 cnd s1 s2 fas : scoped S0 (SIf cnd s1 s2 fas) = true ->
    in_scope S0 cnd = true /\ scoped_l S0 s1 = true /\ scoped_l S0 s2 = true /\
    forall (b : bool) t, In t fas -> in_scope (defs_l (if b then s1 else s2) ++ S0) (pick b t) = true.
  Proof.
    rewrite scoped_SIf. intros H. apply andb_prop in H. destruct H as [H Hf]. apply andb_prop in H. destruct H as [H H2].
    apply andb_prop in H. destruct H as [Hc H1]. repeat split; auto.
    intros b t Ht. rewrite forallb_forall in Hf. specialize (Hf t Ht). apply andb_prop in Hf. destruct b; tauto.
  Qed.

  Lemma SIf_binders_parts cnd s1 s2 fas (b : bool) :
    incl' (binders_l (if b then s1 else s2)) (binders (SIf cnd s1 s2 fas)) /\
    incl' (map t_name fas) (binders (SIf cnd s1 s2 fas)) /\
    (NoDup (binders (SIf cnd s1 s2 fas)) ->
       NoDup (binders_l (if b then s1 else s2)) /\ NoDup (map t_name fas) /\
       forall x, In x (map t_name fas) -> ~ In x (binders_l (if b then s1 else s2))).
  Proof.
    rewrite binders_SIf. split; [|split].
    - intros x Hx. rewrite !in_app_iff. destruct b; auto.
    - intros x Hx. rewrite !in_app_iff. auto.
    - intros Hnd. split; [|split].
      + destruct b; [eapply NoDup_app_l'; eauto | eapply NoDup_app_l', NoDup_app_r'; eauto].
      + eapply NoDup_app_r', NoDup_app_r'; eauto.
      + intros x Hf Hb. destruct b.
        * eapply (NoDup_app_disj' _ _ x Hnd); eauto. rewrite in_app_iff. auto.
        * apply NoDup_app_r' in Hnd. eapply (NoDup_app_disj' _ _ x Hnd); eauto.
  Qed.

  Lemma expr_eq_var y b : expr_eq (EVar y) b = true -> b = EVar y.
  Proof.
    unfold expr_eq. destruct b; cbn; try discriminate. destruct (N.compare_spec y x); try discriminate. now subst.
  Qed.

  Lemma merge_fas_spec (fa fb : triple -> expr) fas : forall c fas' c',
    merge_fas fas (map fa fas) (map fb fas) c = Some (fas', c') ->
    cx_b c' = cx_b c /\
    ext_outside (map t_name fas) c c' /\
    (forall t', In t' fas' -> exists t, In t fas /\ t' = (t_name t, fa t, fb t) /\ expr_eq (fa t) (fb t) = false) /\
    (forall t, In t fas -> expr_eq (fa t) (fb t) = false -> In (t_name t, fa t, fb t) fas') /\
    (NoDup (map t_name fas) -> forall t, In t fas ->
       if expr_eq (fa t) (fb t) then assoc (t_name t) (cx_v c') = Some (fa t)
       else assoc (t_name t) (cx_v c') = assoc (t_name t) (cx_v c)) /\
    (NoDup (map t_name fas) -> NoDup (map t_name fas')) /\
    (forall D, cx_wf c D -> (forall t y, In t fas -> expr_eq (fa t) (fb t) = true -> fa t = EVar y -> In y D) ->
               cx_wf c' (map t_name fas ++ D)).
  Proof.
    induction fas as [|t r IH]; intros c fas' c' H; cbn in H.
    - injection H as <- <-. split; [reflexivity|]. split; [apply ext_refl|]. split; [intros t' []|].
      split; [intros t []|]. split; [intros _ t []|]. split; [intros _; constructor|]. intros D Hwf _. assumption.
    - destruct (expr_eq (fa t) (fb t)) eqn:Eq.
      + destruct (bind (t_name t) (fa t) c) as [ca|] eqn:B; [|discriminate].
        destruct (IH ca fas' c' H) as (I1 & I2 & I3 & I4 & I5 & I6 & I7).
        destruct (bind_inv _ _ _ _ B) as (Hn & Ev & Eb).
        split; [congruence|]. split; [|split; [|split; [|split; [|split]]]].
        * eapply ext_trans; [eapply bind_ext; eauto | exact I2 | |].
          -- intros x [<-|[]]. left; reflexivity.
          -- intros x Hx. right. exact Hx.
        * intros t' Ht'. destruct (I3 t' Ht') as (t0 & Ht0 & E & Ne). exists t0. split; [right|]; auto.
        * intros t0 [<-|Ht0] Ne; [congruence | auto].
        * intros Hnd t0 Ht0. inversion Hnd as [|? ? Hni Hnd']; subst. destruct Ht0 as [<-|Ht0].
          -- rewrite Eq. destruct (I2 (t_name t) Hni) as [-> _]. rewrite Ev. cbn. now rewrite N.eqb_refl.
          -- specialize (I5 Hnd' t0 Ht0). destruct (expr_eq (fa t0) (fb t0)); [exact I5|].
             rewrite I5, Ev. cbn. destruct (N.eqb_spec (t_name t0) (t_name t)) as [E|]; [|reflexivity].
             exfalso. apply Hni. rewrite <- E. now apply in_map.
        * intros Hnd. inversion Hnd; auto.
        * intros D Hwf Hy. assert (Hwa : cx_wf ca (t_name t :: D)).
          { eapply bind_wf; eauto. intros y Ey. eapply Hy; eauto. left; reflexivity. }
          pose proof (I7 (t_name t :: D) Hwa) as W. eapply cx_wf_mono; [apply W|].
          -- intros t0 y Ht0 E0 Ey. right. eapply Hy; eauto. right; assumption.
          -- intros x. cbn. rewrite !in_app_iff. cbn. tauto.
      + destruct (merge_fas r (map fa r) (map fb r) c) as [[k ck]|] eqn:M; [|discriminate].
        injection H as <- <-.
        destruct (IH c k ck M) as (I1 & I2 & I3 & I4 & I5 & I6 & I7).
        split; [assumption|]. split; [|split; [|split; [|split; [|split]]]].
        * eapply ext_mono; eauto. intros x Hx. right. exact Hx.
        * intros t' [<-|Ht'].
          -- exists t. split; [left; reflexivity | auto].
          -- destruct (I3 t' Ht') as (t0 & Ht0 & E & Ne). exists t0. split; [right|]; auto.
        * intros t0 [<-|Ht0] Ne; [left; reflexivity | right; auto].
        * intros Hnd t0 Ht0. inversion Hnd as [|? ? Hni Hnd']; subst. destruct Ht0 as [<-|Ht0].
          -- rewrite Eq. now destruct (I2 (t_name t) Hni) as [-> _].
          -- exact (I5 Hnd' t0 Ht0).
        * intros Hnd. inversion Hnd as [|? ? Hni Hnd']; subst. cbn. constructor; auto.
          intros Hi. apply Hni. apply in_map_iff in Hi. destruct Hi as [t' [E Ht']].
          destruct (I3 t' Ht') as (t0 & Ht0 & -> & _). cbn in E. rewrite <- E. now apply in_map.
        * intros D Hwf Hy. pose proof (I7 D Hwf) as W. eapply cx_wf_mono; [apply W|].
          -- intros t0 y Ht0 E0 Ey. eapply Hy; eauto. right; assumption.
          -- intros x. cbn. rewrite !in_app_iff. tauto.
  Qed.

  Lemma target_if cnd o1 o2 fas' et tr b :
    cond (eval w et cnd) = Some b ->
    exec_block_t (if is_nil o1 && is_nil o2 && is_nil fas' then [] else [SIf cnd o1 o2 fas']) et tr =
    match exec_block_t (if b then o1 else o2) et tr with
    | RNext e t => RNext (if b then bind_e1 w fas' e else bind_e2 w fas' e) t
    | o => o
    end.
  Proof.
    intros Hc. destruct (is_nil o1 && is_nil o2 && is_nil fas') eqn:En.
    - apply andb_prop in En. destruct En as [En E3]. apply andb_prop in En. destruct En as [E1 E2].
      destruct o1, o2, fas'; try discriminate. destruct b; reflexivity.
    - rewrite exec_block_cons, exec_SIf, Hc. destruct b.
      + destruct (exec_block_t o1 et tr); reflexivity.
      + destruct (exec_block_t o2 et tr); reflexivity.
  Qed.

  Lemma eval_bind_notin (gg : triple -> expr) ts en0 en e :
    (forall y, e = EVar y -> ~ In y (map t_name ts)) ->
    eval w (combine (map t_name ts) (map (fun t => eval w en0 (gg t)) ts) ++ en) e = eval w en e.
  Proof.
    intros H. destruct e; try reflexivity. apply eval_var_lookup. apply lookup_bind_notin. auto.
  Qed.

  Lemma loop_sim2 (Iv : env -> env -> Prop) b1 b2 n1 n2 :
    (forall e1 e2 tr, Iv e1 e2 ->
       match b1 e1 tr with
       | RNext e1' t => exists e2', b2 e2 tr = RNext e2' t /\ Iv (n1 e1') (n2 e2')
       | RBreak v _ t => exists e2', b2 e2 tr = RBreak v e2' t
       | _ => True
       end) ->
    forall n e1 e2 tr, Iv e1 e2 ->
      match loop b1 n1 n e1 tr with
      | RBreak v _ t => exists e2', loop b2 n2 n e2 tr = RBreak v e2' t
      | _ => True
      end.
  Proof.
    intros Hstep. induction n as [|n IH]; intros e1 e2 tr HI; cbn [loop]; [exact I|].
    specialize (Hstep e1 e2 tr HI). destruct (b1 e1 tr) as [e1' t|v e1' t| | | | |]; auto.
    - destruct Hstep as [e2' [-> HI']]. apply IH. exact HI'.
    - destruct Hstep as [e2' ->]. eauto.
  Qed.

  Lemma find_mapped (F : triple -> triple) l t :
    (forall t, t_name (F t) = t_name t) -> NoDup (map t_name l) -> In t l ->
    find (fun t' => N.eqb (t_name t) (t_name t')) (map F l) = Some (F t).
  Proof.
    intros Hn Hnd Ht. rewrite <- (Hn t). apply find_name_unique.
    - rewrite map_map. rewrite (map_ext (fun x => t_name (F x)) t_name) by auto. assumption.
    - now apply in_map.
  Qed.

  Definition is_elim (t : triple) : bool := expr_eq (t_e1 t) (t_e2 t).

  (* the loop variables that never change are bound to their (optimised) initial value; on the proved path
     this only happens for the repaired code *)

  Lemma eval_same_on S e en en' :
    (forall y, e = EVar y -> In y S) -> (forall y, In y S -> lookup y en' = lookup y en) -> eval w en' e = eval w en e.
  Proof. intros Hv Hf. destruct e; try reflexivity. apply eval_var_lookup. apply Hf. auto. Qed.

End CcpBase.

Definition refines_add (w : world) (f' f : func) : Prop :=
  forall args fuel v tr, sem Add w f args fuel = Done v tr -> sem Add w f' args fuel = Done v tr.

Lemma refines_add_trans w f1 f2 f3 : refines_add w f2 f1 -> refines_add w f3 f2 -> refines_add w f3 f1.
Proof. intros H1 H2 args fuel v tr H. auto. Qed.

Lemma mode_le_Add_All : mode_le Add All. Proof. apply mode_le_All. Qed.
(* ... and implies the reading of the property: no overflow at all in f, any behaviour of the target on f' *)
Lemma refines_add_refines w f' f : refines_add w f' f -> refines w f' f.
Proof.
  intros H args fuel v tr Hs. apply (sem_weaken Wrap Add); [apply mode_le_Wrap|].
  apply H. apply (sem_weaken Add All); [apply mode_le_All | exact Hs].
Qed.

(* the pass, on the proved paths (flag false), on every well-formed function; g = ver_now is the code as it
   is, other versions the code before the repairs (the paths those repairs touched are flagged either way) *)
