(* C02deep — expression-level facts used by the CCP proof: Expression::eq is sound, operand reordering and
   x - n => x + (-n) preserve value and overflow status, the algebraic identities, folding, merging. *)
From Coq Require Import ZArith NArith List Bool Lia.
Import ListNotations.
From SV Require Import Common.Int32 C02.Kernels C02.Proofs C02deep.Syntax C02deep.Sem C02deep.Passes C02deep.ProofsSem.
Open Scope Z_scope.

Lemma expr_eq_sound a b : expr_eq a b = true -> forall w en, eval w en a = eval w en b.
Proof.
  unfold expr_eq. destruct a, b; cbn; try discriminate; intros H w en; unfold eval.
  - destruct (Z.compare_spec (wrap32 z) (wrap32 z0)); try discriminate. assumption.
  - destruct (Z.compare_spec z z0); try discriminate. now subst.
  - destruct (N.compare_spec s s0); try discriminate. now subst.
  - destruct (N.compare_spec x x0); try discriminate. now subst.
Qed.

Lemma lit_eval e v : lit e = Some v -> (forall w en, eval w en e = v) /\ in32 v /\ exists z, e = EInt z.
Proof.
  destruct e; cbn; try discriminate. intros [= <-]. split; [|split].
  - intros. reflexivity.
  - apply wrap32_in.
  - eauto.
Qed.

Lemma in32_opp n : in32 n -> n <> MIN -> in32 (- n).
Proof. unfold in32, MIN, MAX. lia. Qed.

(* ---- binary_unwrapped / flexible_order_binary ---- *)
Lemma unwrapped_sound op e1 e2 op' a b : unwrapped op e1 e2 = (op', a, b) ->
  forall w en, rt_binop op (eval w en e1) (eval w en e2) = rt_binop op' (eval w en a) (eval w en b) /\
               ovf op (eval w en e1) (eval w en e2) = ovf op' (eval w en a) (eval w en b).
Proof.
  unfold unwrapped. intros H w en.
  destruct op; try (injection H as <- <- <-; split; reflexivity).
  destruct e2; try (injection H as <- <- <-; split; reflexivity).
  destruct (Z.eqb_spec (wrap32 z) MIN) as [E|E]; injection H as <- <- <-; [split; reflexivity|].
  assert (Hn : eval w en (EInt (- wrap32 z)) = - wrap32 z).
  { unfold eval. apply wrap32_id. apply in32_opp; [apply wrap32_in | assumption]. }
  rewrite Hn. change (eval w en (EInt z)) with (wrap32 z). cbn. split; do 2 f_equal; lia.
Qed.

Lemma expr_cmp_dummy : True. Proof. exact I. Qed.

Lemma flex_order_sound op e1 e2 op' a b : flex_order op e1 e2 = (op', a, b) ->
  forall w en, rt_binop op (eval w en e1) (eval w en e2) = rt_binop op' (eval w en a) (eval w en b) /\
               ovf op (eval w en e1) (eval w en e2) = ovf op' (eval w en a) (eval w en b).
Proof.
  unfold flex_order. destruct (unwrapped op e1 e2) as [[op1 a1] b1] eqn:U. intros H w en.
  destruct (unwrapped_sound _ _ _ _ _ _ U w en) as [-> ->].
  set (x := eval w en a1). set (y := eval w en b1).
  destruct op1;
    repeat match type of H with (if ?c then _ else _) = _ => destruct c end;
    injection H as <- <- <-; fold x; fold y; cbn;
    rewrite ?(Z.mul_comm y x), ?(Z.add_comm y x), ?(Z.land_comm y x), ?(Z.lor_comm y x), ?(Z.lxor_comm y x),
      ?(Z.eqb_sym y x); split; reflexivity.
Qed.

Lemma flex_unwrapped_sound op e1 e2 op' a b : flex_unwrapped op e1 e2 = (op', a, b) ->
  forall w en, rt_binop op (eval w en e1) (eval w en e2) = rt_binop op' (eval w en a) (eval w en b) /\
               ovf op (eval w en e1) (eval w en e2) = ovf op' (eval w en a) (eval w en b).
Proof.
  unfold flex_unwrapped. destruct (flex_order op e1 e2) as [[op1 a1] b1] eqn:F. intros U w en.
  destruct (flex_order_sound _ _ _ _ _ _ F w en) as [-> ->]. eapply unwrapped_sound; eauto.
Qed.

(* reordering / x - n => x + (-n) maps checked operations to checked operations *)
Lemma unwrapped_chk m op e1 e2 op' a b : unwrapped op e1 e2 = (op', a, b) -> chk m op' = chk m op.
Proof.
  unfold unwrapped. intros H. destruct op; try (injection H as <- <- <-; reflexivity).
  destruct e2; try (injection H as <- <- <-; reflexivity).
  destruct (wrap32 z =? MIN); injection H as <- <- <-; destruct m; reflexivity.
Qed.
Lemma flex_unwrapped_chk m op e1 e2 op' a b : flex_unwrapped op e1 e2 = (op', a, b) -> chk m op' = chk m op.
Proof.
  unfold flex_unwrapped, flex_order. destruct (unwrapped op e1 e2) as [[op1 a1] b1] eqn:U.
  rewrite <- (unwrapped_chk m _ _ _ _ _ _ U). intros H.
  destruct op1; repeat match type of H with context [if ?c then _ else _] => destruct c end;
    rewrite (unwrapped_chk m _ _ _ _ _ _ H); destruct m; reflexivity.
Qed.

(* the operands of the reordered statement are the operands of the original one, or a fresh literal *)
Lemma unwrapped_operands op e1 e2 op' a b : unwrapped op e1 e2 = (op', a, b) ->
  a = e1 /\ (b = e2 \/ exists z, b = EInt z).
Proof.
  unfold unwrapped. intros H. destruct op; try (injection H as <- <- <-; auto).
  destruct e2; try (injection H as <- <- <-; auto).
  destruct (wrap32 z =? MIN); injection H as <- <- <-; eauto.
Qed.
Definition operand_of (e1 e2 x : expr) : Prop := x = e1 \/ x = e2 \/ exists z, x = EInt z.
Lemma flex_unwrapped_operands op e1 e2 op' a b : flex_unwrapped op e1 e2 = (op', a, b) ->
  operand_of e1 e2 a /\ operand_of e1 e2 b.
Proof.
  unfold flex_unwrapped, flex_order. destruct (unwrapped op e1 e2) as [[op1 a1] b1] eqn:U.
  destruct (unwrapped_operands _ _ _ _ _ _ U) as [-> Hb1].
  assert (H1 : operand_of e1 e2 e1) by (left; reflexivity).
  assert (H2 : operand_of e1 e2 b1) by (destruct Hb1 as [->|[z ->]]; [right; left; reflexivity | right; right; eauto]).
  intros H.
  assert (G : forall o x y, unwrapped o x y = (op', a, b) -> operand_of e1 e2 x -> operand_of e1 e2 y ->
                            operand_of e1 e2 a /\ operand_of e1 e2 b).
  { intros o x y Hu Hx Hy. destruct (unwrapped_operands _ _ _ _ _ _ Hu) as [-> Hb]. split; auto.
    destruct Hb as [->|[z ->]]; auto. right; right; eauto. }
  destruct op1; repeat match type of H with context [if ?c then _ else _] => destruct c end; eapply G; eauto.
Qed.

(* ---- algebraic identities (a is a 32-bit value) ---- *)
Lemma id_plus0 a v : in32 a -> rt_binop PLUS a 0 = Val v -> wrap32 v = a.
Proof. cbn. intros Ha [= <-]. rewrite Z.add_0_r, wrap32_idem. now apply wrap32_id. Qed.
Lemma id_mul0 a v : rt_binop MUL a 0 = Val v -> wrap32 v = 0.
Proof. cbn. intros [= <-]. rewrite Z.mul_0_r. reflexivity. Qed.
Lemma id_mod1 a v : rt_binop MOD a 1 = Val v -> wrap32 v = 0.
Proof. cbn. intros [= <-]. rewrite Z.rem_1_r. reflexivity. Qed.
Lemma id_mul1 a v : in32 a -> rt_binop MUL a 1 = Val v -> wrap32 v = a.
Proof. cbn. intros Ha [= <-]. rewrite Z.mul_1_r, wrap32_idem. now apply wrap32_id. Qed.
Lemma id_div1 a v : in32 a -> rt_binop DIV a 1 = Val v -> wrap32 v = a.
Proof.
  cbn. rewrite andb_false_r. intros Ha [= <-]. rewrite Z.quot_1_r. now apply wrap32_id.
Qed.
Lemma id_minus_same a v : rt_binop MINUS a a = Val v -> wrap32 v = 0.
Proof. cbn. intros [= <-]. rewrite Z.sub_diag. reflexivity. Qed.
Lemma id_mod_same a v : rt_binop MOD a a = Val v -> wrap32 v = 0.
Proof. cbn. destruct (Z.eqb_spec a 0); [discriminate|]. intros [= <-]. rewrite Z.rem_same by assumption. reflexivity. Qed.
Lemma id_div_same a v : rt_binop DIV a a = Val v -> wrap32 v = 1.
Proof.
  cbn. destruct (Z.eqb_spec a 0); [discriminate|]. destruct ((a =? MIN) && (a =? -1)); [discriminate|].
  intros [= <-]. rewrite Z.quot_same by assumption. reflexivity.
Qed.

(* ---- Not ---- *)
Lemma not_fold v : in32 v -> wrap32 (wrap32 (Z.lxor v 1)) = wrap32 (Z.lxor v 1).
Proof. intros _. apply wrap32_idem. Qed.

(* ---- merging (x iop c1) op c2 ---- *)
Lemma merge_sound op iop c1 c2 mop mc x vi v :
  merge_binop op iop c1 c2 = Some (mop, mc) ->
  in32 x -> in32 c1 -> in32 c2 ->
  rt_binop iop x c1 = Val vi -> chk Add iop && ovf iop x c1 = false ->
  rt_binop op (wrap32 vi) c2 = Val v -> chk Add op && ovf op (wrap32 vi) c2 = false ->
  in32 mc /\ rt_binop mop x mc = Val v /\ chk Add mop && ovf mop x mc = false.
Proof.
  intros Hm Hx Hc1 Hc2 Hi Ho Hv Hov.
  destruct (is_cmp op) eqn:Ec.
  - (* comparison: inner must be PLUS *)
    assert (iop = PLUS) as ->.
    { destruct op; cbn in Ec; try discriminate; destruct iop; cbn in Hm; try discriminate; reflexivity. }
    cbn in Hi. injection Hi as <-. cbn in Ho. apply negb_false_iff in Ho. apply in32b_spec in Ho.
    destruct (merge_cmp_ok op x c1 c2 mop mc Ec Hm Ho) as [Hcmp Hin]. split; [assumption|].
    rewrite wrap32_idem in Hv. unfold cmp_val in Hcmp.
    assert (T : forall o p q, is_cmp o = true -> exists r, rt_binop o p q = Val r).
    { intros o p q Ho'. destruct o; cbn in Ho'; try discriminate; cbn; eauto. }
    assert (Ecm : is_cmp mop = true).
    { destruct op; cbn in Ec; try discriminate; cbn in Hm; destruct (in32b (c2 - c1)); inversion Hm; subst; reflexivity. }
    destruct (T mop x mc Ecm) as [r Hr]. rewrite Hr, Hv in Hcmp. split; [now subst|].
    destruct mop; cbn in Ecm; try discriminate; reflexivity.
  - assert (Hw : wrap32 vi = vi).
    { destruct op; cbn in Ec; try discriminate; destruct iop; cbn in Hm; try discriminate;
        cbn in Hi; injection Hi as <-; apply wrap32_idem. }
    rewrite Hw in Hv, Hov. rewrite (merge_arith_ok op iop x c1 c2 mop mc Ec Hm vi Hi) in Hv.
    destruct op; cbn in Ec; try discriminate; destruct iop; cbn in Hm; try discriminate.
    + injection Hm as <- <-. split; [apply wrap32_in|]. split; [assumption | reflexivity].
    + cbn in Hi. injection Hi as <-. cbn in Ho, Hov. apply negb_false_iff in Ho, Hov. apply in32b_spec in Ho, Hov.
      rewrite (wrap32_id _ Ho) in Hov.
      destruct (merge_plus_no_new_overflow x c1 c2 mop mc Hm Ho Hov) as (-> & Hmc & Hxc & _).
      split; [assumption|]. split; [assumption|]. cbn. apply negb_false_iff. now apply in32b_spec.
Qed.

(* ---- the if-else that materialises a condition ---- *)
Lemma cond_true v : cond v = Some true -> v = 1.
Proof. unfold cond. destruct (Z.eqb_spec v 0); [discriminate|]. destruct (Z.eqb_spec v 1); [auto | discriminate]. Qed.
Lemma cond_false v : cond v = Some false -> v = 0.
Proof. unfold cond. destruct (Z.eqb_spec v 0); [auto|]. destruct (v =? 1); discriminate. Qed.
